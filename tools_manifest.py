#!/venv/bin/python
"""Regenerate MANIFEST.json from the rule modules (single source of truth)."""
import importlib
import json
import os
import sys

HERE = os.path.dirname(os.path.abspath(__file__))
sys.path.insert(0, HERE)

NOT_APPLICABLE = {
    'C07': 'end-to-end convergence quantifies over delivery schedules, delays, duplication, single losses and random jitter of several interacting hosts; no code-shape clause remains beyond those already decided under C08-C10, C13 and C17, so a static claim would be a runtime test wearing a static label (DESIGN.md section 8)',
}

LEVEL_NOTE = (
    'Trusted base: CPython ast/symtable of /venv/bin/python, mypy (repo dev dependency, used only as a type oracle for call and '
    'receiver resolution), the frozen oracle tables in rules/*.py (RFC layouts, decision tables, identity sets, owner tables), '
    'assumptions A1-A8 of DESIGN.md section 2.4. Decides code-shape clauses only; value/timing clauses marked [X] in DESIGN.md are not claimed.'
)


def main() -> None:
    checks = []
    na = []
    for i in range(1, 21):
        pid = 'C%02d' % i
        if pid in NOT_APPLICABLE:
            na.append({'property_id': pid, 'reason': NOT_APPLICABLE[pid]})
            continue
        try:
            mod = importlib.import_module(f'rules.{pid.lower()}')
        except ModuleNotFoundError:
            na.append({'property_id': pid, 'reason': 'check not built yet in this round (planned: see DESIGN.md section 4); no claim is made until its rules run clean'})
            continue
        rules = ', '.join(f'{r.id} [{r.kind}]' for r in mod.RULES)
        checks.append({
            'property_id': pid,
            'quick_cmd': f'./check {pid} --tier quick',
            'thorough_cmd': f'./check {pid} --tier thorough',
            'evidence_file': f'/verif/evidence/{pid}.json',
            'replay_cmd_template': './check replay {path}',
            'engine': 'sa',
            'level_claimed': {
                'category': 'other',
                'text': getattr(mod, 'LEVEL_TEXT', mod.EXPLANATION),
                'design_ref': f'DESIGN.md section 4, {pid}',
            },
            'level_note': LEVEL_NOTE,
            'technique': getattr(mod, 'TECHNIQUE', 'static analysis: custom AST/CFG/call-graph rules ' + rules),
        })
    man = {
        'version': 1,
        'setup_cmd': '/venv/bin/python -c "import ast, mypy.build; print(\'ok\')"',
        'hooks': {
            'guard': 'MARGASIOREK_PYTHON_ZEROCONF_VERIF',
            'enable': 'none needed: static analysis reads /repo/src as it is; no instrumentation is compiled in',
            'baseline_off_cmd': 'cd /repo && /venv/bin/python -m pytest -ra -q -p no:cacheprovider --timeout=900 --continue-on-collection-errors',
            'source_commits': [],
            'add_only': True,
        },
        'engines': [{
            'name': 'sa',
            'path': '/verif/sa',
            'serves_properties': [c['property_id'] for c in checks],
            'kind_free_text': 'static analysis: program model (ast), type oracle (mypy as library), call graph with class-hierarchy expansion, per-function CFG with dominators/path enumeration, finite-domain decision tables, linear-form normaliser, may-raise analysis',
        }],
        'checks': checks,
        'not_applicable': na,
        'notes': 'Exit 0 held / 1 VIOLATION / 2 ANALYSIS-ERROR. Known findings: /verif/known_findings.json. Self-test of the checkers (breaking variants and behaviour-preserving twins on scratch copies) runs in the thorough tier.',
    }
    with open(os.path.join(HERE, 'MANIFEST.json'), 'w') as fh:
        json.dump(man, fh, indent=1)
    print(f'{len(checks)} checks, {len(na)} not applicable')


if __name__ == '__main__':
    main()

"""C09 -- registration probes first, detects conflicts, then announces completely."""
from __future__ import annotations

import ast
from typing import Any, Dict, List, Optional, Set, Tuple

from sa import AnalysisError, StructuralViolation
from sa import fd, lf
from sa.cf import cfg_of
from sa.pm import FuncInfo, call_name, norm, self_attr, walk_local_ordered
from sa.report import Ob, rule

from .common import attr_stores, ob, strip_ret, traces

ZC = 'zeroconf._core.Zeroconf'


def _probe_roles(ctx: Any, g: FuncInfo) -> Dict[str, str]:
    """Locals of the probe loop by role: the probe counter (compared with the broadcast count), the
    next-probe time (advanced by the check interval), the current time (assigned from the clock)."""
    roles: Dict[str, str] = {}
    from .common import local_defs

    locs = local_defs(g)
    for n in walk_local_ordered(g.node):
        if isinstance(n, ast.Assign) and isinstance(n.value, ast.Call) and call_name(n.value) == 'current_time_millis':
            roles.setdefault('now', norm(n.targets[-1]))
    for n in walk_local_ordered(g.node):
        if isinstance(n, ast.While) and 'REGISTER_BROADCASTS' in norm(n.test) and isinstance(n.test, ast.Compare):
            for side in (n.test.left, n.test.comparators[0]):
                if isinstance(side, ast.Name) and side.id in locs:
                    roles['counter'] = side.id
        if isinstance(n, ast.If) and isinstance(n.test, ast.Compare) and len(n.test.ops) == 1 and isinstance(n.test.left, ast.Name) and isinstance(n.test.comparators[0], ast.Name):
            pair = {n.test.left.id, n.test.comparators[0].id}
            if roles.get('now') in pair and len(pair) == 2:
                roles['next_time'] = (pair - {roles['now']}).pop()
    if 'counter' not in roles:
        # the probe loop may also be a `for <counter> in range(<count>)`
        for n in walk_local_ordered(g.node):
            if isinstance(n, ast.For) and isinstance(n.target, ast.Name) and isinstance(n.iter, ast.Call) and norm(n.iter.func) == 'range' and 'REGISTER_BROADCASTS' in norm(n.iter):
                roles['counter'] = n.target.id
                # assigning to the variable of a `for` loop does not change how many trips remain: a rename that `restarts the
                # count` this way gives the new name only the probes that were left over
                dead = [st for st in ast.walk(n) if st is not n and ((isinstance(st, ast.Assign) and any(isinstance(t, ast.Name) and t.id == n.target.id for t in st.targets)) or (isinstance(st, ast.AugAssign) and isinstance(st.target, ast.Name) and st.target.id == n.target.id))]
                if dead:
                    raise StructuralViolation(g.module.rel, g.qual, norm(dead[0]), 'a rename restarts the probe count: the new name is probed three times before it is announced', f'`{norm(dead[0])}` assigns to the variable of `for {n.target.id} in {norm(n.iter)}`, which has no effect on the remaining trips -- a name chosen after k probes gets only 3 - k probes')
    for k in ('counter', 'next_time', 'now'):
        if k not in roles:
            raise AnalysisError(f'anchor vanished: {k} of the probe loop in {g.where()}')
    return roles


@rule('C09.ORDER', 'D', expect_min=8)
def order(ctx: Any) -> List[Ob]:
    """Order of registration on every path: default the host, wait for start,
    probe (conflict check), add to the registry, then start the announcement
    task.  In the probe loop a probe is sent only after the conflict check of
    the same iteration; a rename restarts the probe count and timing; without
    permission to rename a conflict raises NonUniqueNameException."""
    R = 'C09.ORDER'
    prog = ctx.prog
    zc = prog.cls(ZC)
    obs: List[Ob] = []
    f = zc.methods['async_register_service']
    names = {'set_server_if_missing': 'HOST', 'async_wait_for_start': 'START', 'async_check_service': 'PROBE', 'async_add': 'REGISTER', '_async_broadcast_service': 'ANNOUNCE'}

    def eff(node: Any, evl: Any) -> List[Any]:
        return [names[call_name(c)] for c in node.calls() if call_name(c) in names]

    oc, _ = traces(ctx, f, {}, eff)
    got = {strip_ret(t) for t in oc}
    obs.append(ob(R, f, 'async_register_service', 'every path: START, PROBE, REGISTER, ANNOUNCE in this order', bool(got) and {tuple(x for x in t if x != 'HOST') for t in got} == {('START', 'PROBE', 'REGISTER', 'ANNOUNCE')}, f'got {sorted(got)}'))
    # the default host name is the instance name, and the probe may rename the instance: the default must be derived from the
    # FINAL name (after the last probe) and before the registry indexes the service by host.  `set_server_if_missing` keeps a
    # server that is already set (side condition read from its body), so a derivation before the probe pins the old name.
    info_cls = prog.cls('zeroconf._services.info.ServiceInfo')
    ssm = info_cls.methods.get('set_server_if_missing')
    if ssm is None:
        raise AnalysisError('anchor vanished: ServiceInfo.set_server_if_missing')
    keeps = any(isinstance(n, ast.If) and 'server' in norm(n.test) and 'None' in norm(n.test) for n in walk_local_ordered(ssm.node))

    def host_ok(t: Any) -> bool:
        if 'PROBE' not in t or 'REGISTER' not in t:
            return True
        lp = max(i for i, x in enumerate(t) if x == 'PROBE')
        rg = t.index('REGISTER')
        late = any(x == 'HOST' for x in t[lp + 1:rg])
        early = any(x == 'HOST' for x in t[:lp])
        return late and not (early and keeps)

    # ... and a description that is registered AGAIN (its host name already defaulted at the first registration) is renamed
    # with its host: `set_server_if_missing` keeps a server that is set, so the only place that can move a defaulted host name
    # along is the name setter -- it must, while the old key is still there to compare with
    if keeps:
        ns = info_cls.setters.get('name')
        if ns is None:
            raise AnalysisError('anchor vanished: ServiceInfo.name setter')
        sme, newp = ns.params[0], ns.params[1]
        scfg = cfg_of(ns.node)
        key_store = [n for n in scfg.nodes if n.kind == 'stmt' and any(self_attr(t, sme) == 'key' for t, _ in attr_stores(n.ast))]
        moved = []
        for n in scfg.nodes:
            if n.kind != 'stmt':
                continue
            for t, st in attr_stores(n.ast):
                if self_attr(t, sme) == 'server_key' and isinstance(st, ast.Assign) and newp in {x.id for x in ast.walk(st.value) if isinstance(x, ast.Name)}:
                    guards = [g_ for g_ in scfg.nodes if g_.kind == 'test' and 'server_key' in norm(g_.ast) and f'{sme}.key' in norm(g_.ast) and scfg.only_through_edge(g_, True, n)]
                    early = all(not scfg.can_reach(k_, g_) for g_ in guards for k_ in key_store)
                    if guards and early:
                        moved.append(n)
        obs.append(ob(R, ns, moved[0].ast if moved else 'if self.server_key == self.key: self.server = name; self.server_key = name.lower()', 'a host name that was defaulted to the instance name follows the instance when it is renamed (a description registered a second time is renamed with its host; else SRV target and addresses stay under the old, conflicting name)', bool(moved), '' if moved else 'the name setter leaves the host name alone: a defaulted host keeps the name the service was renamed away from'))
        # the same as a decision table over what the host key is when the setter runs -- unset, the instance's own key (defaulted),
        # another host's: only the defaulted one moves, it moves to the new name (spelled, and lower-cased for the key), the
        # records built from it are forgotten; the instance name and key are replaced and the records named after the instance
        # are forgotten in every case
        def eff_ns(node: Any, evl: Any) -> List[Any]:
            out = []
            if node.kind == 'stmt':
                for t, st in attr_stores(node.ast):
                    a = self_attr(t, sme)
                    if a and isinstance(st, ast.Assign):
                        out.append((a, norm(st.value)))
            return out

        for host_key, label in ((None, 'no host yet'), ('k-inst', 'host defaulted to the instance name'), ('k-other', 'a host name of its own')):
            oc_ns, und_ns = traces(ctx, ns, {f'{sme}.server_key': host_key, f'{sme}.key': 'k-inst'}, eff_ns, loop_bound=1)
            got_ns = {frozenset(x for x in strip_ret(t) if isinstance(x, tuple) and len(x) == 2 and isinstance(x[0], str) and x[0] not in ('ret', 'raise')) for t in oc_ns}
            always = {('_name', newp), ('key', f'{newp}.lower()'), ('_dns_service_cache', 'None'), ('_dns_pointer_cache', 'None'), ('_dns_text_cache', 'None')}
            moved_set = {('server', newp), ('server_key', f'{newp}.lower()'), ('_dns_address_cache', 'None'), ('_get_address_and_nsec_records_cache', 'None')}
            want_ns = always | (moved_set if host_key == 'k-inst' else set())
            # memo resets beyond the required ones are harmless (they only cost a rebuild)
            ok_ns = len(got_ns) == 1 and all(w in next(iter(got_ns)) for w in want_ns) and all(x in want_ns or (x[1] == 'None' and x[0].endswith('_cache')) for x in next(iter(got_ns))) and not und_ns
            obs.append(ob(R, ns, f'rename, {label}', f'stores {sorted(want_ns)}', ok_ns, f'got {[sorted(g_) for g_ in got_ns]}; undecided {und_ns}'))
    badh = sorted(t for t in got if not host_ok(t))
    obs.append(ob(R, f, 'info.set_server_if_missing()', 'the default host name is derived from the final name: after the conflict check (which may rename the service), before the registry insert, and not pinned earlier (a renamed service must not announce its SRV target and addresses under the conflicting name)', not badh, f'paths {badh}'))
    # `custom TTLs`: a TTL handed to the registration call replaces BOTH TTLs of the description (host records and the others),
    # and none is touched without it
    p_info_r, p_ttl_r = f.params[1], f.params[2]

    def eff_ttl(node: Any, evl: Any) -> List[Any]:
        out_ = []
        if node.kind == 'stmt':
            for t, st in attr_stores(node.ast):
                if isinstance(t.value, ast.Name) and t.value.id == p_info_r and t.attr in ('host_ttl', 'other_ttl') and isinstance(st, ast.Assign):
                    out_.append((t.attr, norm(st.value)))
        return out_

    for given in (True, False):
        oc_t, und_t = traces(ctx, f, {p_ttl_r: 60 if given else None}, eff_ttl)
        got_t = {frozenset(x for x in strip_ret(t) if isinstance(x, tuple) and x[0] in ('host_ttl', 'other_ttl')) for t in oc_t}
        want_t = {frozenset({('host_ttl', p_ttl_r), ('other_ttl', p_ttl_r)})} if given else {frozenset()}
        obs.append(ob(R, f, f'ttl {"given" if given else "not given"}', 'a TTL given to the registration replaces both the host TTL and the other TTL of the service (none without it)', got_t == want_t and not und_t, f'stores on the paths: {[sorted(x) for x in got_t]}'))
    aw = [n for n in walk_local_ordered(f.node) if isinstance(n, ast.Await) and isinstance(n.value, ast.Call) and call_name(n.value) in ('async_wait_for_start', 'async_check_service')]
    obs.append(ob(R, f, 'await self.async_wait_for_start(); await self.async_check_service(...)', 'start-up and probing are awaited (completed) before the service is registered', len(aw) == 2))
    bc = [c for c in walk_local_ordered(f.node) if isinstance(c, ast.Call) and call_name(c) == '_async_broadcast_service']
    ok = len(bc) == 1 and norm(bc[0].args[1]) == '_REGISTER_TIME' and norm(bc[0].args[2]) == 'None'
    obs.append(ob(R, f, bc[0] if bc else '_async_broadcast_service', 'the announcement uses the register interval and the service\'s own TTLs (no override)', ok))
    chk = [c for c in walk_local_ordered(f.node) if isinstance(c, ast.Call) and call_name(c) == 'async_check_service']
    obs.append(ob(R, f, chk[0] if chk else 'async_check_service', 'the caller\'s rename / cooperating / strict choices reach the probe', len(chk) == 1 and [norm(a) for a in chk[0].args] == [f.params[1], f.params[3], f.params[4], f.params[5]]))
    # probe loop
    g = zc.methods['async_check_service']
    cfg = cfg_of(g.node)
    p_allow = g.params[2]
    sends = cfg.nodes_calling('async_send')
    conflict_tests = [n for n in cfg.nodes if n.kind == 'loop_test' and any(call_name(c) == 'current_entry_with_name_and_alias' for c in n.calls())]
    if not sends or not conflict_tests:
        raise AnalysisError('anchor vanished: probe send / conflict test in async_check_service')
    obs.append(ob(R, g, 'while self.cache.current_entry_with_name_and_alias(info.type, info.name): ... self.async_send(probe)', 'a probe is sent only after the conflict check of the same iteration found no conflict', all(cfg.dominated_by_any(s, conflict_tests) for s in sends) and all(any(s2 is ct for s2 in [p for p, lab in s.pred] ) or cfg.path_avoiding(ct, lambda n, s=s: n is s, lambda n: False) is not None for s in sends for ct in conflict_tests)))
    # the check and the probe are one atomic step: no suspension point between them (the cache changes while the task sleeps)
    awaits = [n for n in cfg.nodes if any(isinstance(x, ast.Await) for e in n.exprs() for x in ast.walk(e))]
    stale = []
    for a in awaits:
        for s_ in sends:
            if a is s_:
                continue
            w = cfg.path_avoiding(a, lambda n, s_=s_: n is s_, lambda n: n in conflict_tests)
            if w is not None:
                stale.append((a, s_))
    obs.append(ob(R, g, stale[0][0].ast if stale else 'conflict check ; probe', 'after every wait the conflict check runs again before the next probe is sent (a conflict learnt while waiting is seen before, not after, the probe)', bool(awaits) and not stale, f'the wait at line {stale[0][0].line} can be followed by the probe at line {stale[0][1].line} without a new conflict check' if stale else ''))
    # what the conflict check consults cannot lose a pointer: every index of the cache keeps all records that share a key (an
    # instance advertised under a type and a subtype has two pointers with the same target)
    from .c05 import index_shape_obligations

    obs.extend(index_shape_obligations(ctx, R))
    # a rename takes effect in the very next probe: every record memo that the probe path reads is reset by the name setter
    # (the registry clears all memos only when the service is finally inserted, after the probing)
    from .c03 import _memo_slots

    info_c = prog.cls('zeroconf._services.info.ServiceInfo')
    slots = _memo_slots(ctx)
    probe_closure = ctx.cg.closure([zc.methods['generate_service_query']], include_deferred=False)
    probe_slots = sorted(a for a, b in slots.items() if b in probe_closure)
    setter = info_c.setters.get('name')
    if setter is None or not probe_slots:
        raise AnalysisError(f'anchor vanished: ServiceInfo.name setter / memo slots read while probing ({probe_slots})')
    sm = setter.params[0]
    reset = {t.attr for t, st in attr_stores(setter.node) if self_attr(t, sm) and isinstance(st, ast.Assign) and isinstance(st.value, ast.Constant) and st.value.value is None}
    if any(isinstance(c, ast.Call) and call_name(c) == 'async_clear_cache' for c in walk_local_ordered(setter.node)):
        reset |= set(slots)
    for a in probe_slots:
        obs.append(ob(R, setter, f'self.{a} = None', f'renaming the service drops memo `{a}`, which the probe for the new name reads', a in reset, f'the name setter leaves `{a}` in place: probes for the new name still propose the record built for the old one'))
    ct = conflict_tests[0]
    call = next(c for c in ct.calls() if call_name(c) == 'current_entry_with_name_and_alias')
    obs.append(ob(R, g, call, 'the conflict check looks for a live pointer of the service type to the proposed instance name', [norm(a) for a in call.args] == [f'{g.params[1]}.type', f'{g.params[1]}.name']))

    roles = _probe_roles(ctx, g)

    def eff2(node: Any, evl: Any) -> List[Any]:
        out = []
        if node.kind == 'raise':
            out.append('RAISE:' + norm(node.ast.exc))
        if node.kind == 'stmt':
            a = node.ast
            if isinstance(a, ast.Assign):
                t = norm(a.targets[0])
                if t == roles['counter']:
                    out.append(f'i={norm(a.value)}')
                if t == roles['next_time']:
                    out.append('next_time=' + ('now' if norm(a.value) == roles['now'] else norm(a.value)))
                if t.endswith('.name'):
                    out.append('RENAME')
            for c in node.calls():
                if call_name(c) == 'service_type_name':
                    out.append('VALIDATE')
        return out

    body_start = [s for s, lab in ct.succ if lab is True][0]
    oc1, _ = fd.run_paths(prog, g.module, cfg, {p_allow: False}, eff2, start=body_start, stop=lambda n: n is ct, loop_bound=0)
    obs.append(ob(R, g, 'conflict, renaming not allowed', 'raises NonUniqueNameException', {strip_ret(t) for t in oc1} == {('RAISE:NonUniqueNameException',)} or all(any(str(x).startswith('RAISE:NonUniqueNameException') for x in t) for t in oc1) and bool(oc1), str(sorted(map(str, oc1)))))
    oc2, _ = fd.run_paths(prog, g.module, cfg, {p_allow: True}, eff2, start=body_start, stop=lambda n: n is ct, loop_bound=0)
    got2 = {tuple(sorted(strip_ret(t))) for t in oc2}
    obs.append(ob(R, g, 'conflict, renaming allowed', 'the name is changed (and re-validated), the probe count restarts at 0 and the next probe is due now', got2 == {tuple(sorted(('RENAME', 'VALIDATE', 'next_time=now', 'i=0')))}, str(sorted(got2))))
    # the renamed name: instance-N.type, N counting up from 2
    ren = [st for st in walk_local_ordered(g.node) if isinstance(st, ast.Assign) and norm(st.targets[0]).endswith('.name') and isinstance(st.value, ast.JoinedStr)]
    okr = False
    if len(ren) == 1:
        parts = [v.value for v in ren[0].value.values if isinstance(v, ast.FormattedValue)]
        lits = [v.value for v in ren[0].value.values if isinstance(v, ast.Constant)]
        if len(parts) == 3 and lits == ['-', '.'] and all(isinstance(x, ast.Name) for x in parts[:2]) and norm(parts[2]) == f'{g.params[1]}.type':
            inst_v, num_v = parts[0].id, parts[1].id
            inst_def = [st.value for st in walk_local_ordered(g.node) if isinstance(st, ast.Assign) and norm(st.targets[0]) == inst_v]
            n0 = [st for st in walk_local_ordered(g.node) if isinstance(st, ast.Assign) and norm(st.targets[0]) == num_v]
            inc = [st for st in walk_local_ordered(g.node) if isinstance(st, ast.AugAssign) and norm(st.target) == num_v]
            okr = len(inst_def) == 1 and isinstance(inst_def[0], ast.Call) and call_name(inst_def[0]) == 'instance_name_from_service_info' and len(n0) == 1 and norm(n0[0].value) == '2' and len(inc) == 1 and norm(inc[0].value) == '1' and isinstance(inc[0].op, ast.Add)
    obs.append(ob(R, g, ren[0] if ren else 'info.name = ...', "renaming proceeds through '<instance>-2', '-3', ... under the same type", okr))
    # a (re-)registered or renamed description announces rebuilt records: the registry clears its record memos on insertion
    from .c03 import memo as _memo

    for o in _memo.fn(ctx):
        if 'before inserting' in o.statement or 're-inserts through _add' in o.statement:
            o.rule = R
            o.statement += ' -- else a renamed or re-registered service announces records built for the old name / TTLs'
            obs.append(o)
    # cooperating responders skip probing
    oc3, _ = traces(ctx, g, {g.params[3]: True}, lambda n, e: ['SEND' for c in n.calls() if call_name(c) == 'async_send'], loop_bound=1)
    obs.append(ob(R, g, 'cooperating_responders=True', 'no probing when responders cooperate', all('SEND' not in t for t in oc3) and bool(oc3)))
    return obs


@rule('C09.SHAPE', 'D', expect_min=5)
def shape(ctx: Any) -> List[Ob]:
    """Shape of the probe (a query with one QU PTR question for the type and the
    proposed pointer in the authority section) and of the announcement
    (authoritative multicast response filled by the common broadcast function
    with the service's own TTLs)."""
    R = 'C09.SHAPE'
    prog = ctx.prog
    zc = prog.cls(ZC)
    obs: List[Ob] = []
    q = zc.methods['generate_service_query']
    info = q.params[1]
    ctor = [c for c in walk_local_ordered(q.node) if isinstance(c, ast.Call) and call_name(c) == 'DNSOutgoing']
    okf, fl = prog.try_fold(q.module, ctor[0].args[0]) if ctor else (False, None)
    obs.append(ob(R, q, ctor[0] if ctor else 'DNSOutgoing', 'the probe is a query (QR bit clear), multicast', okf and isinstance(fl, int) and fl & 0x8000 == 0 and len(ctor[0].args) == 1))
    qs = [c for c in walk_local_ordered(q.node) if isinstance(c, ast.Call) and call_name(c) == 'DNSQuestion']
    okq = False
    if len(qs) == 1 and len(qs[0].args) == 3:
        a = qs[0].args
        okq = norm(a[0]) == f'{info}.type' and prog.try_fold(q.module, a[1]) == (True, 12) and prog.try_fold(q.module, a[2]) == (True, 0x8001)
    addq = [c for c in walk_local_ordered(q.node) if isinstance(c, ast.Call) and call_name(c) == 'add_question']
    obs.append(ob(R, q, qs[0] if qs else 'DNSQuestion', 'exactly one question: PTR for the service type, class IN with the QU bit', okq and len(addq) == 1))
    auth = [c for c in walk_local_ordered(q.node) if isinstance(c, ast.Call) and call_name(c) == 'add_authorative_answer']
    oka = len(auth) == 1 and isinstance(auth[0].args[0], ast.Call) and call_name(auth[0].args[0]) == 'dns_pointer' and norm(auth[0].args[0].func.value) == info and not auth[0].args[0].args and not auth[0].args[0].keywords
    obs.append(ob(R, q, auth[0] if auth else 'add_authorative_answer', 'the proposed pointer record is in the authority section', oka))
    other = [call_name(c) for c in walk_local_ordered(q.node) if isinstance(c, ast.Call) and call_name(c) in ('add_answer_at_time', 'add_answer', 'add_additional_answer')]
    obs.append(ob(R, q, 'no answers / additionals', 'a probe carries nothing else', not other))
    chk = zc.methods['async_check_service']
    snd = [c for c in walk_local_ordered(chk.node) if isinstance(c, ast.Call) and call_name(c) == 'async_send']
    obs.append(ob(R, chk, snd[0] if snd else 'async_send', 'what is sent while probing is the probe for this service, multicast', len(snd) == 1 and len(snd[0].args) == 1 and isinstance(snd[0].args[0], ast.Call) and call_name(snd[0].args[0]) == 'generate_service_query' and norm(snd[0].args[0].args[0]) == chk.params[1]))
    b = zc.methods['generate_service_broadcast']
    ctor = [c for c in walk_local_ordered(b.node) if isinstance(c, ast.Call) and call_name(c) == 'DNSOutgoing']
    okf, fl = prog.try_fold(b.module, ctor[0].args[0]) if ctor else (False, None)
    obs.append(ob(R, b, ctor[0] if ctor else 'DNSOutgoing', 'the announcement is an authoritative response (0x8400), multicast', okf and fl == 0x8400 and len(ctor[0].args) == 1))
    # conflict detection rests on the owner defending its name: a probe for a record this host owns is answered at once --
    # a QU probe by unicast to the prober whether or not the record was multicast recently (its cache may be empty: it joined
    # the link later), a QM probe by multicast now (decision tables shared with C11.ROUTE)
    from .c11 import mcast_table, qu_answer_table

    obs.extend(qu_answer_table(ctx, R, probes_only=True))
    obs.extend(o for o in mcast_table(ctx, R) if 'probe=True' in str(o.construct))
    return obs


@rule('C09.CONST', 'D', expect_min=6)
def const(ctx: Any) -> List[Ob]:
    """175 ms between probes, 225 ms between announcements, three of each -- and
    each constant is the one that reaches its use site."""
    R = 'C09.CONST'
    prog = ctx.prog
    zc = prog.cls(ZC)
    obs: List[Ob] = []
    for nm, want, mod in (('_CHECK_TIME', 175, 'zeroconf.const'), ('_REGISTER_TIME', 225, 'zeroconf.const'), ('_REGISTER_BROADCASTS', 3, 'zeroconf._core')):
        v = prog.const(mod, nm)
        obs.append(ob(R, ('src/zeroconf/' + ('const.py' if mod.endswith('const') else '_core.py'), '<module>'), f'{nm} = {v}', f'{nm} is {want}', v == want))
    g = zc.methods['async_check_service']
    roles = _probe_roles(ctx, g)
    inc = [st for st in walk_local_ordered(g.node) if isinstance(st, ast.AugAssign) and norm(st.target) == roles['next_time']]
    obs.append(ob(R, g, inc[0] if inc else 'next_time += _CHECK_TIME', 'successive probes are one check interval apart', len(inc) == 1 and isinstance(inc[0].op, ast.Add) and norm(inc[0].value) == '_CHECK_TIME'))
    wh = [n for n in walk_local_ordered(g.node) if isinstance(n, ast.While) and 'REGISTER_BROADCASTS' in norm(n.test)]
    ok = False
    if len(wh) == 1:
        try:
            p, op = lf.comparison(prog, g.module, wh[0].test, lambda x: 'I' if isinstance(x, ast.Name) and x.id == roles['counter'] else None)
            ok = lf.same_cmp((p, op), lf.parse_cmp('I - 3 < 0'))
        except lf.NotLinear:
            pass
    cnt = [st for st in walk_local_ordered(g.node) if isinstance(st, ast.AugAssign) and norm(st.target) == roles['counter']]
    cfg = cfg_of(g.node)
    sends = cfg.nodes_calling('async_send')
    cnt_nodes = [n for n in cfg.nodes if n.kind == 'stmt' and n.ast in cnt]
    paired = bool(sends) and bool(cnt_nodes) and all(cfg.dominated_by_any(c, sends) for c in cnt_nodes) and len(cnt) == 1 and norm(cnt[0].value) == '1'
    obs.append(ob(R, g, wh[0].test if wh else 'while i < _REGISTER_BROADCASTS', 'probing ends after exactly three probes have been sent (the counter advances once per probe sent)', ok and paired))
    # wait: if now < next_time: await self.async_wait(next_time - now)
    waits = [c for c in walk_local_ordered(g.node) if isinstance(c, ast.Call) and call_name(c) == 'async_wait']
    okw = False
    if len(waits) == 1:
        try:
            okw = lf.poly(prog, g.module, waits[0].args[0], lambda x: ('next_time' if x.id == roles['next_time'] else ('now' if x.id == roles['now'] else x.id)) if isinstance(x, ast.Name) else None) == lf.parse_poly('next_time - now')
        except lf.NotLinear:
            pass
    obs.append(ob(R, g, waits[0] if waits else 'async_wait', 'between probes the registration waits for exactly the time remaining to the next probe (and wakes early on new records)', okw))
    # the clock value compared with the next-probe time is always a fresh clock read (a wait can end early)
    now_defs = [st for st in walk_local_ordered(g.node) if isinstance(st, ast.Assign) and any(norm(t) == roles['now'] for t in st.targets)]
    fresh = bool(now_defs) and all(isinstance(st.value, ast.Call) and call_name(st.value) == 'current_time_millis' for st in now_defs)
    cfgg = cfg_of(g.node)
    wait_nodes = cfgg.nodes_calling('async_wait')
    reread = [n for n in cfgg.nodes if n.kind == 'stmt' and n.ast in now_defs]
    after = all(any(cfgg.dominates(w, r) for r in reread) for w in wait_nodes)
    obs.append(ob(R, g, 'now = current_time_millis()', 'the time compared with the next probe time is re-read from the clock after every wait (the wait returns early on any new record; pretending the interval elapsed would fire the probes back to back)', fresh and after and bool(wait_nodes), '' if fresh else 'the clock value is synthesised: ' + '; '.join(norm(st)[:60] for st in now_defs if not (isinstance(st.value, ast.Call) and call_name(st.value) == 'current_time_millis'))))
    # a probe goes out only when a freshly read clock has reached the next-probe time: every probe send is reached only through
    # the `due` edge of the spacing test, with no wait between that edge and the send (a wait ends early on any new record, so
    # falling through from the wait to the send would fire the probes back to back)
    def nsym(x: ast.AST) -> Optional[str]:
        if isinstance(x, ast.Name):
            return 'NEXT' if x.id == roles['next_time'] else ('NOW' if x.id == roles['now'] else None)
        return None

    spacing = []
    for t in cfgg.nodes:
        if t.kind == 'test' and t.ast is not None:
            try:
                c_ = lf.comparison(prog, g.module, t.ast, nsym)
            except (lf.NotLinear, KeyError):
                continue
            if lf.same_cmp(c_, lf.parse_cmp('NOW - NEXT < 0')):
                spacing.append((t, False))
            elif lf.same_cmp(c_, lf.parse_cmp('NEXT - NOW <= 0')):
                spacing.append((t, True))
    probe_sends = [n for n in cfgg.nodes if any(call_name(c) == 'async_send' for c in n.calls())]
    sp_ok, sp_why = bool(spacing) and bool(probe_sends), '' if spacing else 'no test of the clock against the next-probe time'
    for S_ in probe_sends:
        hit = [(t, due) for t, due in spacing if cfgg.only_through_edge(t, due, S_)]
        if not hit:
            sp_ok, sp_why = False, f'the probe at line {S_.line} can be reached without the clock having been found at or past the next-probe time'
            continue
        t, due = hit[0]
        for s2, lab in t.succ:
            if lab != due:
                continue
            for w_ in wait_nodes:
                if (s2 is w_ or cfgg.path_avoiding(s2, lambda n: n is w_, lambda n: n is t, skip_start=False) is not None) and cfgg.path_avoiding(w_, lambda n: n is S_, lambda n: n is t) is not None:
                    sp_ok, sp_why = False, f'a wait (line {w_.line}) lies between the spacing test and the probe at line {S_.line}'
    obs.append(ob(R, g, spacing[0][0].ast if spacing else 'if now < next_time', 'a probe is sent only when the clock, read after the last wait, has reached the next-probe time (an early wake-up goes back to waiting)', sp_ok, sp_why))
    # exactly three probes on the conflict-free path: the whole loop evaluated with the counter tracked (start value, bound,
    # step), every spacing test answered `due`, no holder of the name in the cache
    conflict_calls = {norm(c) for c in ast.walk(g.node) if isinstance(c, ast.Call) and call_name(c) == 'current_entry_with_name_and_alias'}
    atoms3: Dict[str, Any] = {norm(t.ast): due for t, due in spacing}
    atoms3.update({c: None for c in conflict_calls})
    atoms3[g.params[3]] = False

    def eff3(node: Any, evl: Any) -> List[Any]:
        return ['PROBE' for c in fd.node_calls(node, evl) if call_name(c) == 'async_send']

    oc3, und3 = fd.run_paths(prog, g.module, cfgg, atoms3, eff3, loop_bound=8)
    counts = sorted({sum(1 for x in t if x == 'PROBE') for t in oc3})
    obs.append(ob(R, g, 'i = 0; while i < _REGISTER_BROADCASTS: ... i += 1', 'with no conflict the probe loop sends exactly three probes (start value, bound and step of the counter evaluated together)', counts == [3] and not und3 and bool(conflict_calls), f'probes sent on the conflict-free paths: {counts}; undecided {und3}'))
    # ... and the conflict arm is entered exactly when the cache reports a holder of the name
    def eff4(node: Any, evl: Any) -> List[Any]:
        out = ['PROBE' for c in fd.node_calls(node, evl) if call_name(c) == 'async_send']
        if node.kind == 'raise':
            out.append('RAISE')
        return out

    atoms4 = dict(atoms3)
    atoms4.update({c: 'holder' for c in conflict_calls})
    atoms4[g.params[2]] = False
    oc4, _ = fd.run_paths(prog, g.module, cfgg, atoms4, eff4, loop_bound=2)
    obs.append(ob(R, g, 'while self.cache.current_entry_with_name_and_alias(info.type, info.name)', 'a holder of the name in the cache stops the registration before any probe is sent (renaming not allowed: NonUniqueNameException); no holder, no exception', bool(oc4) and all(t and t[0] == 'RAISE' for t in map(strip_ret, oc4)) and all('RAISE' not in t for t in oc3), f'with a holder: {sorted(set(map(strip_ret, oc4)))[:3]}'))
    b = zc.methods['_async_broadcast_service']
    sl = [c for c in walk_local_ordered(b.node) if isinstance(c, ast.Call) and call_name(c) == 'sleep']
    oks = len(sl) == 1 and isinstance(sl[0].args[0], ast.Call) and call_name(sl[0].args[0]) == 'millis_to_seconds' and norm(sl[0].args[0].args[0]) == b.params[2]
    obs.append(ob(R, b, sl[0] if sl else 'asyncio.sleep', 'announcements are spaced by the interval given (225 ms when registering)', oks))

    def eff(node: Any, evl: Any) -> List[Any]:
        return ['SLEEP' if call_name(c) == 'sleep' else 'SEND' for c in node.calls() if call_name(c) in ('sleep', 'async_send')]

    cfgb = cfg_of(b.node)
    lp = [n for n in cfgb.nodes if n.kind == 'for']
    ivar = norm(lp[0].ast.target)
    first, _ = fd.run_paths(prog, b.module, cfgb, {ivar: 0}, eff, start=lp[0], stop=lambda n: n is lp[0], loop_bound=1, for_iter=lambda n, e: True)
    later, _ = fd.run_paths(prog, b.module, cfgb, {ivar: 1}, eff, start=lp[0], stop=lambda n: n is lp[0], loop_bound=1, for_iter=lambda n, e: True)
    obs.append(ob(R, b, 'if i != 0: await asyncio.sleep(...)', 'the first announcement goes out at once, later ones after the interval', {strip_ret(t) for t in first if 'SEND' in t} == {('SEND',)} and {strip_ret(t) for t in later if 'SEND' in t} == {('SLEEP', 'SEND')} and all(strip_ret(t) in ((), ('SLEEP',)) for t in list(first) + list(later) if 'SEND' not in t)))  # a path that sends nothing (service withdrawn meanwhile) is allowed
    return obs


@rule('C09.UNIQUE', 'D', expect_min=2)
def unique(ctx: Any) -> List[Ob]:
    """One instance never holds the same name twice: in the registry the duplicate
    test (case-insensitive key) dominates the insertion and raises."""
    R = 'C09.UNIQUE'
    prog = ctx.prog
    add = prog.func('zeroconf._services.registry.ServiceRegistry._add')
    me, info = add.params[0], add.params[1]
    cfg = cfg_of(add.node)
    ins = [n for n in cfg.nodes if n.kind == 'stmt' and isinstance(n.ast, ast.Assign) and isinstance(n.ast.targets[0], ast.Subscript) and self_attr(n.ast.targets[0].value, me) == '_services']
    tests = [n for n in cfg.nodes if n.kind == 'test' and isinstance(n.ast, ast.Compare) and isinstance(n.ast.ops[0], ast.In) and self_attr(n.ast.comparators[0], me) == '_services']
    obs: List[Ob] = []
    good = bool(ins) and bool(tests)
    for t in tests:
        good = good and norm(t.ast.left) == norm(ins[0].ast.targets[0].slice) == f'{info}.key' and all(s.kind == 'raise' for s, lab in t.succ if lab is True)
    obs.append(ob(R, add, tests[0].ast if tests else 'if info.key in self._services', 'a name already registered (compared on the lower-cased key) is rejected before anything is stored', good and all(cfg.dominated_by_any(i, tests) for i in ins)))
    rz = [n for n in cfg.nodes if n.kind == 'raise']
    obs.append(ob(R, add, rz[0].ast if rz else 'raise', 'the rejection is ServiceNameAlreadyRegistered', any('ServiceNameAlreadyRegistered' in norm(n.ast) for n in rz)))
    # the conflict check hands the service type to the cache as the user spelled it: the cache methods it calls must lower-case
    # the name before they index (the C05.KEYS obligations restricted to what the probe loop calls)
    from .c05 import cache_methods_reached, keys as c05_keys

    called = cache_methods_reached(ctx, [prog.cls(ZC).methods['async_check_service']])
    if not called:
        raise AnalysisError('anchor vanished: the conflict check calls no cache method')
    extra = [o for o in c05_keys.fn(ctx) if str(o.function) in called]
    for o in extra:
        o.rule = R
    if not extra:
        raise AnalysisError(f'anchor vanished: no key obligation for the cache methods the conflict check calls ({sorted(called)})')
    obs.extend(extra)
    return obs


EXPLANATION = (
    'C09.ORDER (decided): effect order of registration on every path; dominance of the conflict check over each probe send; '
    'decision table of the conflict arm (raise / rename with count and timing reset). C09.SHAPE (decided): folded shape of the probe '
    'and of the announcement. C09.CONST (decided): 175 / 225 / 3 and their def-use to the use sites. C09.UNIQUE (decided): duplicate '
    'name rejected before insertion. Record classes / cache-flush bits of the announcement: C03.TTLCLASS, C01.FLUSHBIT, C08.GOODBYE. '
    'Not decided: conflict arrival windows and network delays [X].'
)
EXPLANATION_ADDENDUM = (
    ' C09.ORDER also requires that no suspension lies between the conflict check and the probe that follows it, and that every cache index keeps all records sharing a key (a type and its subtype point at the same instance).'
)
EXPLANATION = EXPLANATION + EXPLANATION_ADDENDUM

RULES = [order, shape, const, unique]

"""C13 -- queries carry known answers and are not needlessly repeated."""
from __future__ import annotations

import ast
from typing import Any, Dict, List, Optional, Set, Tuple

from sa import AnalysisError
from sa import fd, lf
from sa.cf import cfg_of
from sa.fd import Sym
from sa.pm import FuncInfo, call_name, norm, self_attr, walk_local_ordered
from sa.report import Ob, rule

from .common import attr_stores, find_locals, ob, strip_ret, traces, xnorm

BRQ = 'zeroconf._services.browser.generate_service_query'
INQ = 'zeroconf._services.info.ServiceInfo._add_question_with_known_answers'
QU, QM = Sym('DNSQuestionType.QU'), Sym('DNSQuestionType.QM')


def _known_answer_comp(f: FuncInfo) -> Optional[ast.AST]:
    """The comprehension that selects the known answers from the cache lookup (the lookup may sit in a local).
    Returned with the lookup call substituted for such a local."""
    from .common import expand

    for n in walk_local_ordered(f.node):
        if isinstance(n, (ast.SetComp, ast.ListComp)):
            it = expand(f, n.generators[0].iter)
            if isinstance(it, ast.Call) and call_name(it) in ('get_all_by_details', 'async_all_by_details'):
                import copy

                m = copy.copy(n)
                g0 = copy.copy(n.generators[0])
                g0.iter = it
                m.generators = [g0] + list(n.generators[1:])
                m._verif_orig = n  # type: ignore[attr-defined]
                return m
    return None


def _is_known_answer_set(f: FuncInfo, e: ast.AST) -> bool:
    """Is `e` (an argument) the known-answer selection of f, directly or through a single-definition local?"""
    from .common import expand

    comp = _known_answer_comp(f)
    if comp is None:
        return False
    orig = getattr(comp, '_verif_orig', comp)
    x = expand(f, e)
    return norm(x) == norm(expand(f, orig)) or norm(x) == norm(orig)


@rule('C13.KNOWN', 'D', expect_min=8)
def known(ctx: Any) -> List[Ob]:
    """Sibling agreement of the two query builders (browser and lookup): known
    answers are the cached records of the asked (name, type, class) that are not
    stale (more than half the TTL left) at the builder's time; each is added
    with that same time, so the remaining TTL is written; the TTL writer writes
    the full TTL for time 0 and the remaining TTL otherwise."""
    R = 'C13.KNOWN'
    prog = ctx.prog
    obs: List[Ob] = []
    for full, now_idx, name_arg in ((BRQ, 1, None), (INQ, 5, None)):
        f = prog.func(full)
        now = f.params[now_idx]
        comp = _known_answer_comp(f)
        if comp is None:
            raise AnalysisError(f'anchor vanished: known-answer selection in {f.where()}')
        g = comp.generators[0]
        call = g.iter
        cond_ok = len(g.ifs) == 1 and isinstance(g.ifs[0], ast.UnaryOp) and isinstance(g.ifs[0].op, ast.Not) and isinstance(g.ifs[0].operand, ast.Call) and call_name(g.ifs[0].operand) == 'is_stale' and [norm(a) for a in g.ifs[0].operand.args] == [now] and norm(g.ifs[0].operand.func.value) == norm(g.target) and norm(comp.elt) == norm(g.target)
        obs.append(ob(R, f, comp, 'known answers = cached records of the question that are not stale at the time of the query', cond_ok))
        # the lookup is for exactly the question's name / type / class
        q = [c for c in walk_local_ordered(f.node) if isinstance(c, ast.Call) and call_name(c) == 'DNSQuestion']
        same = len(q) == 1 and [norm(a) for a in q[0].args] == [norm(a) for a in call.args]
        obs.append(ob(R, f, call, 'the cache is searched for exactly the (name, type, class) that is asked', same, f'question {[norm(a) for a in q[0].args] if q else "?"} vs lookup {[norm(a) for a in call.args]}'))
        # adds: add_answer_at_time(answer, now) for each known answer (directly or through the bucket)
        adds = [c for c in walk_local_ordered(f.node) if isinstance(c, ast.Call) and call_name(c) == 'add_answer_at_time']
        if adds:
            ok = all(len(c.args) == 2 and norm(c.args[1]) == now for c in adds)
            obs.append(ob(R, f, adds[0], 'each known answer is added with the query time, so its remaining TTL is written', ok))
    # browser path: bucket.add adds with the bucket's time which is the builder's time
    bk = prog.func('zeroconf._services.browser._DNSPointerOutgoingBucket.add')
    adds = [c for c in walk_local_ordered(bk.node) if isinstance(c, ast.Call) and call_name(c) == 'add_answer_at_time']
    obs.append(ob(R, bk, adds[0] if adds else 'add_answer_at_time', 'the browser adds each known answer with the bucket time', len(adds) == 1 and self_attr(adds[0].args[1], bk.params[0]) == 'now_millis'))
    bi = prog.func('zeroconf._services.browser._DNSPointerOutgoingBucket.__init__')
    st = [s for s in walk_local_ordered(bi.node) if isinstance(s, ast.Assign) and self_attr(s.targets[0], bi.params[0]) == 'now_millis']
    grp = prog.func('zeroconf._services.browser._group_ptr_queries_with_known_answers')
    mk = [c for c in walk_local_ordered(grp.node) if isinstance(c, ast.Call) and call_name(c) == '_DNSPointerOutgoingBucket']
    gq = prog.func(BRQ)
    gcall = [c for c in walk_local_ordered(gq.node) if isinstance(c, ast.Call) and call_name(c) == '_group_ptr_queries_with_known_answers']
    chain_ok = len(st) == 1 and norm(st[0].value) == bi.params[1] and len(mk) == 1 and norm(mk[0].args[0]) == grp.params[0] and len(gcall) == 1 and norm(gcall[0].args[0]) == gq.params[1]
    obs.append(ob(R, grp, 'generate_service_query(now) -> _group...(now) -> _DNSPointerOutgoingBucket(now)', 'the bucket time is the time the known answers were selected at', chain_ok))
    # every question with its answers ends in exactly one bucket
    obs.append(ob(R, grp, 'for/else bucket placement', 'each question goes to the first bucket with room or to a new one (exactly once)', _bucket_once(ctx, grp)))
    obs.extend(bucket_add_obligations(ctx, R))
    rets_g = [r for r in walk_local_ordered(grp.node) if isinstance(r, ast.Return) and r.value is not None]
    lists_g = {c.func.value.id for c in walk_local_ordered(grp.node) if isinstance(c, ast.Call) and call_name(c) == 'append' and isinstance(c.func, ast.Attribute) and isinstance(c.func.value, ast.Name)}
    ok_ret = len(rets_g) == 1 and isinstance(rets_g[0].value, ast.ListComp) and len(rets_g[0].value.generators) == 1 and not rets_g[0].value.generators[0].ifs and norm(rets_g[0].value.generators[0].iter) in lists_g and norm(rets_g[0].value.elt) == norm(rets_g[0].value.generators[0].target) + '.out'
    obs.append(ob(R, grp, rets_g[0].value if rets_g else 'return', 'the messages of all buckets are handed back (none filtered out)', ok_ret))
    obs.extend(write_ttl_obligations(ctx, R))
    return obs


def write_ttl_obligations(ctx: Any, R: str) -> List[Ob]:
    """The TTL writer writes the record TTL for time 0 and the remaining TTL otherwise, on every path;
    answers are stored and written with the time they were added with."""
    prog = ctx.prog
    obs: List[Ob] = []
    # _write_ttl
    wt = prog.func('zeroconf._protocol.outgoing.DNSOutgoing._write_ttl')
    rec, now = wt.params[1], wt.params[2]
    call = [c for c in walk_local_ordered(wt.node) if isinstance(c, ast.Call) and call_name(c) == '_write_int']
    ok = False
    if len(call) == 1 and isinstance(call[0].args[0], ast.IfExp):
        e = call[0].args[0]
        t = e.test
        # (now == 0) ? ttl : remaining  -- or the mirrored (now != 0) ? remaining : ttl
        zero = nonzero = False
        if isinstance(t, ast.Compare) and len(t.ops) == 1:
            sides = [t.left, t.comparators[0]]
            has_now = any(norm(x) == now for x in sides)
            has_0 = any(ctx.prog.try_fold(wt.module, x) == (True, 0) for x in sides if norm(x) != now)
            zero = has_now and has_0 and isinstance(t.ops[0], ast.Eq)
            nonzero = has_now and has_0 and isinstance(t.ops[0], ast.NotEq)
        full, rem = (e.body, e.orelse) if zero else (e.orelse, e.body)
        ok = (zero or nonzero) and norm(full) == f'{rec}.ttl' and isinstance(rem, ast.Call) and call_name(rem) == 'get_remaining_ttl' and [norm(a) for a in rem.args] == [now]
    # ... and the remaining TTL is what is left, to the fraction: max(0, (created + 1000*ttl - now) / 1000) -- rounded only by
    # the integer field writer (shared with C05.LIFETIME)
    from .c05 import lifetime as _lifetime

    for o in _lifetime.fn(ctx):
        if o.construct == 'get_remaining_ttl':
            o.rule = R
            o.statement += ' -- this is the remaining TTL a known answer is listed with'
            obs.append(o)
    cfgw = cfg_of(wt.node)
    wnodes = cfgw.nodes_calling('_write_int')
    bypass = cfgw.must_pass_before_exit(cfgw.entry, lambda n: n in wnodes)
    other_writes = [norm(c) for c in walk_local_ordered(wt.node) if isinstance(c, ast.Call) and call_name(c) in ('append', 'write_short', 'write_string', '_write_byte', 'insert', 'extend')]
    obs.append(ob(R, wt, call[0] if call else '_write_int', 'the TTL written is the record TTL for time 0 and the remaining TTL at the given time otherwise -- on every path, with no other way of emitting the field', ok and bypass is None and not other_writes, ('a path writes the TTL field without this computation: ' + '; '.join(other_writes[:2])) if (other_writes or bypass is not None) else ''))
    # answers written with their own time
    wa = prog.func('zeroconf._protocol.outgoing.DNSOutgoing._write_answers_from_offset')
    lp = [n for n in walk_local_ordered(wa.node) if isinstance(n, ast.For)]
    okw = len(lp) == 1 and isinstance(lp[0].target, ast.Tuple) and any(isinstance(c, ast.Call) and call_name(c) == '_write_record' and [norm(a) for a in c.args] == [norm(x) for x in lp[0].target.elts] for c in ast.walk(lp[0]))
    obs.append(ob(R, wa, 'for answer, time_ in self.answers[...]: self._write_record(answer, time_)', 'each answer is written with the time it was added with', okw))
    aat = prog.func('zeroconf._protocol.outgoing.DNSOutgoing.add_answer_at_time')
    app = [c for c in walk_local_ordered(aat.node) if isinstance(c, ast.Call) and call_name(c) == 'append']
    obs.append(ob(R, aat, app[0] if app else 'append', 'the answer is stored together with its time', len(app) == 1 and isinstance(app[0].args[0], ast.Tuple) and [norm(x) for x in app[0].args[0].elts] == [aat.params[1], aat.params[2]]))
    return obs


def _bucket_once(ctx: Any, grp: FuncInfo) -> bool:
    """One trip of the placement loop puts the question of that trip, with its answers and its size, into exactly one bucket --
    on every path -- and a bucket that was created in the trip is appended to the list the result is built from."""
    cfg = cfg_of(grp.node)
    outer = [n for n in cfg.nodes if n.kind == 'for' and not n.in_loop]
    if not outer:
        return False
    head = outer[-1]
    qv = head.ast.target.id if isinstance(head.ast.target, ast.Name) else None

    def eff(node: Any, evl: Any) -> List[Any]:
        out = []
        for c in node.calls():
            if call_name(c) == 'add' and isinstance(c.func, ast.Attribute) and isinstance(c.func.value, ast.Name) and 'bucket' in c.func.value.id:
                out.append(('ADD', tuple(norm(a) for a in c.args)))
            if call_name(c) == '_DNSPointerOutgoingBucket':
                out.append('NEW')
            if call_name(c) == 'append' and isinstance(c.func, ast.Attribute) and isinstance(c.func.value, ast.Name) and 'bucket' in c.func.value.id:
                out.append('APPEND')
        return out

    oc, _ = fd.run_paths(ctx.prog, grp.module, cfg, {}, eff, start=head, stop=lambda n: n is head, loop_bound=1, for_iter=lambda n, e: True if n is head else None)
    if not oc:
        return False
    for t in oc:
        lab = [x for x in t if x in ('NEW', 'APPEND') or (isinstance(x, tuple) and x and x[0] == 'ADD')]
        adds = [x for x in lab if isinstance(x, tuple)]
        if len(adds) != 1:
            return False
        if qv is not None and (len(adds[0][1]) != 3 or adds[0][1][1] != qv):
            return False
        if ('NEW' in lab) != ('APPEND' in lab):
            return False
        if 'NEW' in lab and not (lab.index('NEW') < lab.index(adds[0]) and lab.index('NEW') < lab.index('APPEND')):
            return False
    return True


def bucket_add_obligations(ctx: Any, R: str) -> List[Ob]:
    """What putting a question into a bucket does: the question is added to the bucket's message, every known answer is added with
    the bucket's time (so it is written with its remaining TTL), and the size estimate is accounted for."""
    prog = ctx.prog
    b = prog.func('zeroconf._services.browser._DNSPointerOutgoingBucket.add')
    me, p_size, p_q, p_ans = b.params[0], b.params[1], b.params[2], b.params[3]
    cfg = cfg_of(b.node)

    def eff(node: Any, evl: Any) -> List[Any]:
        out = []
        for c in node.calls():
            if call_name(c) == 'add_question':
                out.append(('Q', tuple(norm(a) for a in c.args)))
            if call_name(c) in ('add_answer_at_time', 'add_answer'):
                out.append(('A', tuple(norm(a) for a in c.args), bool(node.in_loop)))
        if node.kind == 'stmt' and isinstance(node.ast, ast.AugAssign) and self_attr(node.ast.target, me) == 'bytes':
            out.append(('BYTES', norm(node.ast.value)))
        return out

    oc, _ = fd.run_paths(prog, b.module, cfg, {}, eff, loop_bound=1, for_iter=lambda n, e: True)
    loops = [n for n in cfg.nodes if n.kind == 'for']
    lv = loops[0].ast.target.id if len(loops) == 1 and isinstance(loops[0].ast.target, ast.Name) and norm(loops[0].ast.iter) == p_ans else None
    seqs = {tuple(x for x in strip_ret(t) if isinstance(x, tuple)) for t in oc}
    want = {(('Q', (p_q,)), ('A', (lv, f'{me}.now_millis'), True), ('BYTES', p_size))}
    return [ob(R, b, 'self.out.add_question(question); for answer in answers: self.out.add_answer_at_time(answer, self.now_millis); self.bytes += size', 'a bucket takes the question, each of its known answers at the bucket\'s time, and the size estimate -- on every path', lv is not None and seqs == want, f'effects {sorted(map(str, seqs))[:2]}')]


def lookup_history_obligations(ctx: Any, R: str, eff: Any) -> List[Ob]:
    """Decision table of the lookup's question builder over (QU?, history suppresses?): a QU question is always asked and the
    history is neither consulted nor written for it."""
    prog = ctx.prog
    obs: List[Ob] = []
    # lookup builder
    f = prog.func(INQ)
    p_qu, p_skip = f.params[2], f.params[9]
    for qu in (True, False):
        for sup in (True, False):
            atoms = {p_qu: qu, p_skip: False, '.suppresses()': sup}
            oc, und = traces(ctx, f, atoms, eff, loop_bound=1)
            got = {tuple(x for x in strip_ret(t)) for t in oc}
            want = ('ASK',) if qu else (('CONSULT',) if sup else ('CONSULT', 'RECORD', 'ASK'))
            obs.append(ob(R, f, f'lookup: QU={qu} history suppresses={sup}', f'effects {want}', got == {want}, f'got {sorted(got)} undecided {und}'))
    # the question that is asked carries the QU bit exactly when the round is a QU round, and is followed by every known answer
    # (each handed to the builder with the time of the round, so that it is written with its remaining TTL)
    def eff_q(node: Any, evl: Any) -> List[Any]:
        out = []
        if node.kind == 'stmt':
            for t_, st_ in attr_stores(node.ast):
                if t_.attr in ('unicast', 'unique') and isinstance(st_, ast.Assign):
                    v_ = evl.ev(st_.value)
                    out.append(('QUBIT', v_ if v_ in (True, False) else norm(st_.value)))
        for c in fd.node_calls(node, evl):
            if call_name(c) == 'add_question':
                out.append('ASK')
            if call_name(c) in ('add_answer_at_time', 'add_answer') and node.in_loop:
                out.append(('KNOWN', tuple(norm(a) for a in c.args)))
        return out

    p_now = f.params[5]
    for qu in (True, False):
        recs = [fd.Sym('known-1')]
        atoms3 = {p_qu: qu, p_skip: False, '.suppresses()': False, '.is_stale()': False, '.is_expired()': False}
        for r_ in sorted({call_name(c) for c in walk_local_ordered(f.node) if isinstance(c, ast.Call) and isinstance(c.func, ast.Attribute) and call_name(c) in ('get_all_by_details', 'async_all_by_details')}):
            atoms3[f'.{r_}()'] = recs
        oc3, und3 = traces(ctx, f, atoms3, eff_q, loop_bound=1, for_iter=lambda n, e: True)
        seqs = {tuple(x for x in strip_ret(t) if x == 'ASK' or isinstance(x, tuple) and x[0] in ('QUBIT', 'KNOWN')) for t in oc3}
        bit_ok = all(([x for x in sq if isinstance(x, tuple) and x[0] == 'QUBIT'] == ([('QUBIT', True)] if qu else [])) or ([x for x in sq if isinstance(x, tuple) and x[0] == 'QUBIT'] == [('QUBIT', qu)]) for sq in seqs)
        known_ok = all(any(isinstance(x, tuple) and x[0] == 'KNOWN' and len(x[1]) >= 2 and x[1][1] == p_now for x in sq) and 'ASK' in sq and sq.index('ASK') < min(i_ for i_, x in enumerate(sq) if isinstance(x, tuple) and x[0] == 'KNOWN') for sq in seqs if sq) and bool(seqs) and all(sq for sq in seqs)
        obs.append(ob(R, f, f'lookup: QU={qu}, one fresh record cached', f'the question is asked with the QU bit {"set" if qu else "clear"} and followed by the known answer, written at the time of the round', bit_ok and known_ok and not und3, f'sequences {sorted(map(str, seqs))[:3]}; undecided {und3}'))
    # `omitting questions whose answers it already holds` -- and only those: with the omit flag on, the question is left out iff
    # the cache holds a record of that name / type / class that is still good as a known answer (not stale).  Records that
    # are cached but stale (expired and waiting for the purge, or past half their TTL) are not answers the lookup holds: a
    # builder that omits the question for them never asks for the very record the lookup is waiting for
    readers = sorted({call_name(c) for c in walk_local_ordered(f.node) if isinstance(c, ast.Call) and isinstance(c.func, ast.Attribute) and call_name(c) in ('get_all_by_details', 'async_all_by_details', 'get_by_details', 'async_entries_with_name', 'entries_with_name')})
    for cached, stale in (('none', False), ('one', True), ('one', False)):
        atoms2 = {p_qu: True, p_skip: True, '.is_stale()': stale, '.is_expired()': stale}
        for r_ in readers:
            atoms2[f'.{r_}()'] = [] if cached == 'none' else [fd.Sym('rec')]
        oc2, und2 = traces(ctx, f, atoms2, eff, loop_bound=1)
        asked = {('ASK' in t) for t in oc2}
        want_ask = cached == 'none' or stale
        obs.append(ob(R, f, f'lookup, omit-if-known: cached records {cached}{", stale" if cached == "one" and stale else (", fresh" if cached == "one" else "")}', f'the question is {"asked" if want_ask else "omitted"}', asked == {want_ask} and not und2, f'asked on {sorted(asked)}; undecided {und2}'))
    return obs


def history_effects(node: Any, evl: Any) -> List[Any]:
    out = []
    for c in fd.node_calls(node, evl):
        nm = call_name(c)
        if nm == 'suppresses' and isinstance(c.func, ast.Attribute) and 'history' in norm(c.func.value):
            out.append('CONSULT')
        elif nm == 'add_question_at_time':
            out.append('RECORD')
        elif nm == 'add_question':
            out.append('ASK')
    if node.kind == 'stmt' and isinstance(node.ast, ast.Assign) and isinstance(node.ast.targets[0], ast.Subscript) and 'questions_with_known_answers' in norm(node.ast.targets[0].value):
        out.append('ASK')
    return out


@rule('C13.HISTORY', 'D', expect_min=8)
def history(ctx: Any) -> List[Ob]:
    """Duplicate-question suppression as a decision table over (QU?, history
    suppresses?), the same in both query builders: QU -> always asked, history
    neither consulted nor written; QM and suppressed -> not asked; QM and not
    suppressed -> asked and recorded.  The window is 999 ms."""
    R = 'C13.HISTORY'
    prog = ctx.prog
    obs: List[Ob] = []

    def eff(node: Any, evl: Any) -> List[Any]:
        out = []
        for c in fd.node_calls(node, evl):
            nm = call_name(c)
            if nm == 'suppresses' and isinstance(c.func, ast.Attribute) and 'history' in norm(c.func.value):
                out.append('CONSULT')
            elif nm == 'add_question_at_time':
                out.append('RECORD')
            elif nm == 'add_question':
                out.append('ASK')
        if node.kind == 'stmt' and isinstance(node.ast, ast.Assign) and isinstance(node.ast.targets[0], ast.Subscript) and 'questions_with_known_answers' in norm(node.ast.targets[0].value):
            out.append('ASK')
        return out

    f = prog.func(INQ)
    obs.extend(lookup_history_obligations(ctx, R, eff))
    # browser builder: per type loop body
    g = prog.func(BRQ)
    cfg = cfg_of(g.node)
    lp = [n for n in cfg.nodes if n.kind == 'for']
    if len(lp) != 1:
        raise AnalysisError('anchor vanished: type loop in generate_service_query')
    # the QU decision is a function of the forced question type and of the multicast flag (C13.QUFIRST decides which): the
    # table is taken over those two parameters, so it does not matter whether a local names the decision
    p_mc_h, p_qt_h = g.params[3], g.params[4]
    for qu in (True, False):
        for qt_h, mc_h in (((QU, True), (QU, False), (None, False)) if qu else ((QM, True), (QM, False), (None, True))):
            for sup in (True, False):
                atoms = {p_qt_h: qt_h, p_mc_h: mc_h, '.suppresses()': sup}
                oc, und = traces(ctx, g, atoms, eff, loop_bound=1, for_iter=lambda n, e: True)
                got = {tuple(x for x in strip_ret(t)) for t in oc}
                want = ('ASK',) if qu else (('CONSULT',) if sup else ('CONSULT', 'ASK', 'RECORD'))
                got_n = {tuple(sorted(t)) for t in got}
                obs.append(ob(R, g, f'browser: forced type={qt_h} multicast={mc_h} (QU={qu}) history suppresses={sup}', f'effects {sorted(want)}', got_n == {tuple(sorted(want))}, f'got {sorted(got)} undecided {und}'))
    # what the history is consulted with, and what is recorded, is the set this instance would list itself (non-stale records)
    for bf in (f, g):
        for c in walk_local_ordered(bf.node):
            if isinstance(c, ast.Call) and call_name(c) in ('suppresses', 'add_question_at_time') and isinstance(c.func, ast.Attribute) and 'history' in norm(c.func.value) and len(c.args) == 3:
                obs.append(ob(R, bf, c, f'{call_name(c)}: the known-answer set handed to the history is the selection that is listed in the query (cached records with more than half their TTL left)', _is_known_answer_set(bf, c.args[2]), f'`{norm(c.args[2])[:60]}` is not the known-answer selection'))
    # responder: every heard QM question that it can answer is remembered -- also when the known answers leave nothing to send
    ar0 = prog.func('zeroconf._handlers.query_handler.QueryHandler.async_response')
    cfg_ar = cfg_of(ar0.node)
    sl = [n for n in cfg_ar.nodes if n.kind == 'for' and isinstance(n.ast.iter, ast.Name) and any(isinstance(c, ast.Call) and call_name(c) == '_answer_question' for c in ast.walk(n.ast))]
    if len(sl) != 1:
        raise AnalysisError('anchor vanished: per-question loop of async_response')

    def eff_r(node: Any, evl: Any) -> List[Any]:
        return ['RECORD' for c in fd.node_calls(node, evl) if call_name(c) == 'add_question_at_time']

    for qu in (True, False):
        for empty in (True, False):
            for uc in (True, False):
                atoms = {'.unique': qu, '._answer_question()': {} if empty else {'r': set()}, ar0.params[2]: uc}
                oc, und = fd.run_paths(prog, ar0.module, cfg_ar, atoms, eff_r, start=sl[0], stop=lambda n: n is sl[0], loop_bound=1, for_iter=lambda n, e: True)
                got = {strip_ret(t) for t in oc}
                want = () if qu else ('RECORD',)
                obs.append(ob(R, ar0, f'heard question: QU={qu}, nothing left to answer={empty}, unicast source={uc}', f'history effects {want}', got == {want}, f'got {sorted(got)}'))
    # history semantics
    h = prog.func('zeroconf._history.QuestionHistory.suppresses')
    k = prog.const('zeroconf.const', '_DUPLICATE_QUESTION_INTERVAL')
    obs.append(ob(R, h, f'_DUPLICATE_QUESTION_INTERVAL = {k}', 'the suppression window is 999 ms', k == 999))
    # the whole decision of `suppresses` as a table: suppressed iff the question was recorded, not more than 999 ms ago, with
    # known answers that are all among ours
    hme = h.params[0]
    lookups_h = {norm(c) for c in ast.walk(h.node) if isinstance(c, ast.Call) and isinstance(c.func, ast.Attribute) and c.func.attr == 'get' and self_attr(c.func.value, hme) == '_history'} | {norm(c) for c in ast.walk(h.node) if isinstance(c, ast.Subscript) and self_attr(c.value, hme) == '_history'}
    if not lookups_h:
        raise AnalysisError('anchor vanished: lookup of the question in the history')
    for recorded in (True, False):
        for age in (0.0, 999.0, 1000.0):
            for prev_known, ours in ((frozenset(), frozenset()), (frozenset({'r1'}), frozenset({'r1', 'r2'})), (frozenset({'r1', 'r3'}), frozenset({'r1'}))):
                atoms_h: Dict[str, Any] = {x: ((5000.0, prev_known) if recorded else None) for x in lookups_h}
                atoms_h[h.params[2]] = 5000.0 + age
                atoms_h[h.params[3]] = ours
                oc_h, und_h = traces(ctx, h, atoms_h, lambda n, e: [])
                rets_h = {x[1] for t in oc_h for x in t if isinstance(x, tuple) and x[0] == 'ret'}
                want_h = recorded and age <= 999.0 and prev_known <= ours
                obs.append(ob(R, h, f'question {"recorded" if recorded else "not recorded"}, {age:g} ms ago, its known answers {sorted(prev_known)} against ours {sorted(ours)}', f'suppresses() is {want_h}', rets_h == {want_h} and not und_h, f'returns {sorted(map(repr, rets_h))}; undecided {und_h}'))
    rec_f = prog.func('zeroconf._history.QuestionHistory.add_question_at_time')
    rme = rec_f.params[0]
    st_h = [st for st in walk_local_ordered(rec_f.node) if isinstance(st, ast.Assign) and isinstance(st.targets[0], ast.Subscript) and self_attr(st.targets[0].value, rme) == '_history']
    # the key is the question, or is built from the question alone (which parts, and whether their spelling matters, is C20's) --
    # and it is the key the look-up uses
    def _key_shape(e: ast.AST, qparam: str) -> Optional[str]:
        names_ = {x.id for x in ast.walk(e) if isinstance(x, ast.Name)}
        if names_ != {qparam}:
            return None
        import copy as _cp

        e2 = _cp.deepcopy(e)
        for x in ast.walk(e2):
            if isinstance(x, ast.Name):
                x.id = 'Q'
        return norm(e2)

    store_shape = _key_shape(st_h[0].targets[0].slice, rec_f.params[1]) if len(st_h) == 1 else None
    look_shapes = {_key_shape(c.args[0], h.params[1]) for c in ast.walk(h.node) if isinstance(c, ast.Call) and isinstance(c.func, ast.Attribute) and c.func.attr == 'get' and self_attr(c.func.value, hme) == '_history' and c.args} | {_key_shape(c.slice, h.params[1]) for c in ast.walk(h.node) if isinstance(c, ast.Subscript) and self_attr(c.value, hme) == '_history'}
    ok_rec = len(st_h) == 1 and store_shape is not None and look_shapes == {store_shape} and isinstance(st_h[0].value, ast.Tuple) and [norm(x) for x in st_h[0].value.elts] == [rec_f.params[2], rec_f.params[3]]
    # (what is stored is what was handed in: the time and the list of THIS sighting -- a list merged with an earlier sighting's
    # hides a later, shorter list that would have suppressed the question)
    rebinds = [st for st in walk_local_ordered(rec_f.node) if isinstance(st, (ast.Assign, ast.AugAssign, ast.AnnAssign)) and any(isinstance(t, ast.Name) and t.id in rec_f.params[2:4] for t in (st.targets if isinstance(st, ast.Assign) else [st.target]))]
    inplace = [c for c in walk_local_ordered(rec_f.node) if isinstance(c, ast.Call) and isinstance(c.func, ast.Attribute) and isinstance(c.func.value, ast.Name) and c.func.value.id == rec_f.params[3] and c.func.attr in ('update', 'add', 'discard', 'remove', 'clear', 'difference_update', 'intersection_update')]
    ok_rec = ok_rec and not rebinds and not inplace
    rcfg_h = cfg_of(rec_f.node)
    st_nodes = [n for n in rcfg_h.nodes if n.kind == 'stmt' and any(n.ast is x for x in st_h)]
    skip_h = rcfg_h.path_avoiding(rcfg_h.entry, lambda n: n is rcfg_h.exit, lambda n: n in st_nodes) if st_nodes else [rcfg_h.entry]
    obs.append(ob(R, rec_f, st_h[0] if st_h else 'self._history[question] = (now, known_answers)', 'recording a question stores its time and its known answers under the question -- on every path (each sighting restarts the 999 ms window; a sighting that is skipped leaves the window counted from an earlier one)', ok_rec and skip_h is None, '' if skip_h is None else 'a path returns without storing the sighting'))
    # expiry of the history removes exactly the entries older than the window: each is tested on its own time (dict order is
    # the order of FIRST insertion -- re-recording a question does not move it -- so no shortcut through `the last entry`)
    ex = prog.func('zeroconf._history.QuestionHistory.async_expire')
    xme = ex.params[0]
    xcfg = cfg_of(ex.node)
    clears = [c for c in walk_local_ordered(ex.node) if isinstance(c, ast.Call) and call_name(c) in ('clear', 'popitem') and isinstance(c.func, ast.Attribute)]
    age_tests = []
    for t in xcfg.nodes:
        if t.kind == 'test' and isinstance(t.ast, ast.Compare):
            try:
                pp, oo = lf.comparison(prog, ex.module, t.ast, lambda x: ('NOW' if isinstance(x, ast.Name) and x.id == ex.params[1] else ('THEN' if isinstance(x, ast.Name) else None)))
                if lf.same_cmp((pp, oo), lf.parse_cmp('999 - NOW + THEN < 0')):
                    age_tests.append(t)
            except lf.NotLinear:
                pass
    dels = [n for n in xcfg.nodes if n.kind == 'stmt' and (isinstance(n.ast, ast.Delete) or any(call_name(c) == 'pop' for c in n.calls()))]
    per_entry = bool(age_tests) and all(any(lp_ for lp_ in t.in_loop) for t in age_tests)
    if not age_tests:
        # ... or the filter of a comprehension over the history (per entry by construction)
        for cmp_ in walk_local_ordered(ex.node):
            if isinstance(cmp_, (ast.ListComp, ast.SetComp, ast.GeneratorExp)) and len(cmp_.generators) == 1 and any(self_attr(x, xme) == '_history' for x in ast.walk(cmp_.generators[0].iter)) and len(cmp_.generators[0].ifs) == 1:
                try:
                    pp, oo = lf.comparison(prog, ex.module, cmp_.generators[0].ifs[0], lambda x: ('NOW' if isinstance(x, ast.Name) and x.id == ex.params[1] else ('THEN' if isinstance(x, ast.Name) else None)))
                    per_entry = lf.same_cmp((pp, oo), lf.parse_cmp('999 - NOW + THEN < 0'))
                except lf.NotLinear:
                    pass
    obs.append(ob(R, ex, clears[0] if clears else 'for question, (than, _) in history: if now - than > 999: remove', 'expiry drops exactly the questions last recorded more than 999 ms ago, each judged by its own time (never the whole history at once)', per_entry and not clears and bool(dels), 'the whole history is dropped on the evidence of one entry' if clears else ''))
    cl = prog.func('zeroconf._engine.AsyncEngine._async_cache_cleanup')
    hcalls = [c for c in walk_local_ordered(cl.node) if isinstance(c, ast.Call) and isinstance(c.func, ast.Attribute) and 'question_history' in norm(c.func.value)]
    names_h = [c.func.attr for c in hcalls]
    obs.append(ob(R, cl, hcalls[0] if hcalls else 'self.zc.question_history.async_expire(now)', 'the periodic clean-up only expires old questions from the history (a question asked or heard less than 999 ms before the tick keeps suppressing)', names_h == ['async_expire'], f'calls on the history: {names_h}'))
    # responder side: what is remembered with a heard question is the union of the known answers of ALL packets of the query
    ar = prog.func('zeroconf._handlers.query_handler.QueryHandler.async_response')
    msgs = ar.params[1]
    rec_calls = [c for c in walk_local_ordered(ar.node) if isinstance(c, ast.Call) and call_name(c) == 'add_question_at_time']
    good = len(rec_calls) == 1
    why = ''
    if good:
        arg = rec_calls[0].args[2]
        defs = [st.value for st in walk_local_ordered(ar.node) if isinstance(st, (ast.Assign, ast.AnnAssign)) and norm(st.targets[0] if isinstance(st, ast.Assign) else st.target) == norm(arg) and st.value is not None and not (isinstance(st.value, ast.Constant) and st.value.value is None)]
        rr = None
        good = bool(defs)
        for d in defs:
            if isinstance(d, ast.Call) and call_name(d) in ('lookup_set', '_get_lookup') and isinstance(d.func, ast.Attribute):
                rr = norm(d.func.value)
            else:
                good = False
                why = f'`{norm(d)[:70]}` is not the lookup set of the query\'s known-answer RRSet'
        if good and rr:
            rrdef = [st.value for st in walk_local_ordered(ar.node) if isinstance(st, ast.Assign) and norm(st.targets[0]) == rr]
            good = len(rrdef) == 1 and isinstance(rrdef[0], ast.Call) and call_name(rrdef[0]) == 'DNSRRSet' and len(rrdef[0].args) == 1
            if good:
                lst = norm(rrdef[0].args[0])
                ext = [c for lp in walk_local_ordered(ar.node) if isinstance(lp, ast.For) and norm(lp.iter) == msgs for c in ast.walk(lp) if isinstance(c, ast.Call) and call_name(c) == 'extend' and norm(c.func.value) == lst and isinstance(c.args[0], ast.Call) and call_name(c.args[0]) == 'answers' and norm(c.args[0].func.value) == norm(lp.target)]
                good = len(ext) == 1
                if not good:
                    why = 'the RRSet is not built from the answers of every packet'
    obs.append(ob(R, ar, rec_calls[0] if rec_calls else 'add_question_at_time', 'a heard QM question is remembered with the union of the known answers of all packets of the (possibly truncated) query -- the same set used for suppression', good, why))
    # ... and that set exists when the question is recorded: it is built lazily (on the first QM question), so the first QM
    # question of a query must find it built -- a `None` stored in the history makes the next suppression test raise
    if rec_calls and isinstance(rec_calls[0].args[2], ast.Name):
        sv = rec_calls[0].args[2].id
        arcfg = cfg_of(ar.node)
        sloops = [n for n in arcfg.nodes if n.kind == 'for' and not n.in_loop and any(c is rec_calls[0] for m_ in arcfg.nodes if m_.in_loop and n.ast in m_.in_loop for c in m_.calls())]
        if len(sloops) == 1:
            oc_r, _ = fd.run_paths(prog, ar.module, arcfg, {'.unique': False}, lambda n, e: [('REC', e.ev(c.args[2]) is None) for c in fd.node_calls(n, e) if c is rec_calls[0]], start=sloops[0], stop=lambda n: n is sloops[0], init_locals={sv: None}, loop_bound=1, for_iter=lambda n, e: True)
            recs = {x[1] for t in oc_r for x in t if isinstance(x, tuple) and x[0] == 'REC'}
            obs.append(ob(R, ar, rec_calls[0], 'the first QM question of a query is recorded with a known-answer set that has been built (not with the unset placeholder)', recs == {False}, f'recorded with an unset set: {sorted(recs)}'))
    return obs


@rule('C13.SPLIT', 'D', expect_min=8)
def split(ctx: Any) -> List[Ob]:
    """Known answers that do not fit are continued in further packets and every packet but the last carries the TC bit --
    for a query sent to a unicast address as well as for a multicast one (the decision table of the flags word of
    DNSOutgoing.packets over (more remains, query, multicast), shared with C14.TC)."""
    from .c14 import tc

    out = tc.fn(ctx)
    for o in out:
        o.rule = 'C13.SPLIT'
    return out


@rule('C13.QUFIRST', 'D', expect_min=10)
def qufirst(ctx: Any) -> List[Ob]:
    """First query QU, later queries QM unless a type is forced -- decision tables of
    the browser (forced type, first?, multicast) and of the lookup (forced type,
    first?)."""
    R = 'C13.QUFIRST'
    prog = ctx.prog
    obs: List[Ob] = []
    s = prog.func('zeroconf._services.browser.QueryScheduler.async_send_ready_queries')
    me, first = s.params[0], s.params[1]
    g = prog.func(BRQ)
    p_mc, p_qt = g.params[3], g.params[4]

    def qt_of(forced: Any, is_first: bool) -> Any:
        """question type handed to the builder by async_send_ready_queries."""
        res = set()

        def eff(node: Any, evl: Any) -> List[Any]:
            out = []
            for c in node.calls():
                if call_name(c) == 'generate_service_query':
                    v = evl.ev(c.args[4])
                    out.append(('QT', v))
            return out

        oc, _ = traces(ctx, s, {f'{me}._question_type': forced, first: is_first}, eff, loop_bound=1)
        for t in oc:
            for x in t:
                if isinstance(x, tuple) and x[0] == 'QT':
                    res.add(x[1])
        return res

    def qu_of(qt: Any, mc: bool) -> Any:
        res = set()

        def eff(node: Any, evl: Any) -> List[Any]:
            # the decision as it reaches the question: the value stored into its QU bit
            out = []
            if node.kind == 'stmt':
                for t_, st_ in attr_stores(node.ast):
                    if t_.attr in ('unicast', 'unique') and isinstance(st_, ast.Assign):
                        v = evl.ev(st_.value)
                        out.append(('QU', v if not isinstance(v, fd._Unknown) else 'UNKNOWN'))
            return out

        oc, _ = traces(ctx, g, {p_qt: qt, p_mc: mc}, eff, loop_bound=1, for_iter=lambda n, e: True)
        for t in oc:
            for x in t:
                if isinstance(x, tuple) and x[0] == 'QU':
                    res.add(x[1])
        return res

    for forced in (None, QU, QM):
        for is_first in (True, False):
            qts = qt_of(forced, is_first)
            want_qt = forced if forced is not None else (QU if is_first else None)
            obs.append(ob(R, s, f'browser: forced={forced} first={is_first}', f'question type handed to the builder is {want_qt}', qts == {want_qt}, f'got {qts}'))
            for mc in (True, False):
                for qt in qts:
                    qus = qu_of(qt, mc)
                    want = (qt == QU) if qt is not None else (not mc)
                    obs.append(ob(R, g, f'browser builder: type={qt} multicast={mc}', f'questions are {"QU" if want else "QM"}', qus == {want}, f'got {qus}'))
    # ... and that decision reaches the wire: each question the builder makes gets its QU bit from the decision, before the
    # question is used for anything (history, the table of questions to send)
    gcfg = cfg_of(g.node)
    gloops = [n for n in gcfg.nodes if n.kind == 'for' and not n.in_loop]
    if len(gloops) != 1:
        raise AnalysisError('anchor vanished: the per-type loop of the browser query builder')

    def eff_qb(node: Any, evl: Any) -> List[Any]:
        out = []
        if node.kind == 'stmt':
            for t_, st_ in attr_stores(node.ast):
                if t_.attr in ('unicast', 'unique') and isinstance(st_, ast.Assign):
                    out.append(('QUBIT', norm(st_.value)))
            if isinstance(node.ast, ast.Assign) and isinstance(node.ast.targets[0], ast.Subscript):
                out.append('USE')
        for c in fd.node_calls(node, evl):
            if call_name(c) in ('suppresses', 'add_question_at_time'):
                out.append('USE')
        return out

    oc_qb, _ = fd.run_paths(prog, g.module, gcfg, {}, eff_qb, start=gloops[0], stop=lambda n: n is gloops[0], loop_bound=1, for_iter=lambda n, e: True if n is gloops[0] else None)
    seq_qb = {tuple(x for x in strip_ret(t) if x == 'USE' or isinstance(x, tuple) and x[0] == 'QUBIT') for t in oc_qb}
    ok_qb = bool(seq_qb) and all(sq and isinstance(sq[0], tuple) and sq[0][0] == 'QUBIT' and sum(1 for x in sq if isinstance(x, tuple)) == 1 for sq in seq_qb)
    obs.append(ob(R, g, 'question.unicast = <the decision>', 'every question of the browser query carries the QU bit that was decided, set before the question is used', ok_qb, f'per type: {sorted(map(str, seq_qb))[:3]}'))
    # the QU bit of a question is the `unique` flag the class writer reads (C01.FLUSHBIT): the `unicast` property of a question
    # stores into it and reads from it
    qcls = prog.cls('zeroconf._dns.DNSQuestion')
    uset, uget = qcls.setters.get('unicast'), qcls.methods.get('unicast') or getattr(qcls, 'getters', {}).get('unicast')
    if uset is None:
        raise AnalysisError('anchor vanished: the unicast setter of DNSQuestion')
    st_u = [st_ for t_, st_ in attr_stores(uset.node) if isinstance(st_, ast.Assign)]
    obs.append(ob(R, uset, st_u[0] if st_u else 'self.unique = value', 'setting `unicast` on a question sets the flag the class writer emits as the QU bit', len(st_u) == 1 and self_attr(st_u[0].targets[0], uset.params[0]) == 'unique' and norm(st_u[0].value) == uset.params[1]))
    # start-up: first request flag is `no start-up query sent yet`
    su = prog.func('zeroconf._services.browser.QueryScheduler._process_startup_queries')
    calls = [c for c in walk_local_ordered(su.node) if isinstance(c, ast.Call) and call_name(c) == 'async_send_ready_queries']
    ok = False
    if len(calls) == 1 and isinstance(calls[0].args[0], ast.Compare) and isinstance(calls[0].args[0].ops[0], ast.Eq):
        sides = [calls[0].args[0].left, calls[0].args[0].comparators[0]]
        ok = any(self_attr(x, su.params[0]) == '_startup_queries_sent' for x in sides) and any(norm(x) == '0' for x in sides)
    obs.append(ob(R, su, calls[0] if calls else 'async_send_ready_queries', 'only the very first start-up query counts as the first request', ok))
    rt = prog.func('zeroconf._services.browser.QueryScheduler._process_ready_types')
    calls = [c for c in walk_local_ordered(rt.node) if isinstance(c, ast.Call) and call_name(c) == 'async_send_ready_queries']
    obs.append(ob(R, rt, calls[0] if calls else 'async_send_ready_queries', 'refresh queries are never a first request', len(calls) == 1 and norm(calls[0].args[0]) == 'False'))
    # lookup
    rq = prog.func('zeroconf._services.info.ServiceInfo.async_request')
    p_qt = rq.params[3]

    def eff2(node: Any, evl: Any) -> List[Any]:
        if node.kind == 'stmt' and isinstance(node.ast, ast.Assign) and isinstance(node.ast.targets[0], ast.Name) and node.ast.targets[0].id == 'this_question_type':
            v = evl.ev(node.ast.value)
            return [('QT', v if not isinstance(v, fd._Unknown) else 'UNKNOWN')]
        return []

    cfg = cfg_of(rq.node)
    from .c18 import NoNextQueryTime, no_next_obligation, request_roles

    try:
        roles = request_roles(ctx)
    except NoNextQueryTime:
        return obs + no_next_obligation(ctx, R)
    from .c18 import round_type_values

    for forced in (None, QU, QM):
        for is_first in (True, False):
            vs = round_type_values(ctx, roles, forced, is_first)
            want = (forced if forced is not None else QU) if is_first else QM
            obs.append(ob(R, rq, f'lookup: forced={forced} first={is_first}', f'question type is {want}', vs == {want}, f'got {sorted(map(str, vs))}'))
    gq = prog.func('zeroconf._services.info.ServiceInfo._generate_request_query')
    from .common import expand as _xp

    # the flag handed to the question adder, read through whatever locals name it: a function of the question type alone, true
    # exactly for QU
    qes = [_xp(gq, c.args[1]) for c in walk_local_ordered(gq.node) if isinstance(c, ast.Call) and call_name(c) == '_add_question_with_known_answers' and len(c.args) > 1]
    ok2 = bool(qes) and len({norm(e) for e in qes}) == 1
    if ok2:
        for qt_v, want_v in ((QU, True), (QM, False), (None, False)):
            v2 = fd.Evaluator(prog, gq.module, {gq.params[3]: qt_v}).ev(qes[0])
            ok2 = ok2 and (not isinstance(v2, fd._Unknown)) and v2 is want_v
    asg2 = qes
    obs.append(ob(R, gq, asg2[0] if asg2 else 'qu_question', 'the lookup asks QU exactly when its question type is QU', ok2))
    # first_request is cleared after the first query
    # ... along every path of one trip of the loop that starts with the flag set: where a query was generated the flag is clear
    # at the end of the trip, and where none was it is still set
    lts_f = [n for n in cfg.nodes if n.kind == 'loop_test']

    def eff_g(node: Any, evl: Any) -> List[Any]:
        return ['GEN' for c in fd.node_calls(node, evl) if call_name(c) == '_generate_request_query']

    def fin_f(evl: Any) -> List[Any]:
        v = evl.ev(ast.Name(id=roles['first'], ctx=ast.Load()))
        return [('FIRST', 'UNKNOWN' if isinstance(v, fd._Unknown) else v)]

    oc_f, _ = fd.run_paths(prog, rq.module, cfg, {'._is_complete': False}, eff_g, start=lts_f[0], stop=lambda n: n is lts_f[0], init_locals={roles['first']: True}, loop_bound=1, final_fn=fin_f) if len(lts_f) == 1 else (set(), [])
    trips = [t for t in oc_f if any(isinstance(x, tuple) and x[0] == 'FIRST' for x in t) and not any(isinstance(x, tuple) and x[0] in ('ret', 'raise') for x in t)]
    bad_f = [t for t in trips if dict(x for x in t if isinstance(x, tuple) and x[0] == 'FIRST')['FIRST'] is not ('GEN' not in t)]
    obs.append(ob(R, rq, 'first_request = False', 'the first-request flag is cleared once a query was generated', bool(trips) and any('GEN' in t for t in trips) and not bad_f, f'trips that end otherwise: {sorted(map(str, bad_f))[:2]}'))
    return obs


@rule('C13.CONST', 'D', expect_min=4)
def const(ctx: Any) -> List[Ob]:
    """Spacing of lookup queries: after a QM question the delay is raised to the
    999 ms duplicate-question interval and a random 20-120 ms is always added,
    so later queries are at least one second apart; which questions are skipped
    when answers are already known."""
    R = 'C13.CONST'
    prog = ctx.prog
    obs: List[Ob] = []
    iv = prog.const('zeroconf._services.info', '_AVOID_SYNC_DELAY_RANDOM_INTERVAL')
    k = prog.const('zeroconf.const', '_DUPLICATE_QUESTION_INTERVAL')
    obs.append(ob(R, ('src/zeroconf/_services/info.py', '<module>'), f'{k} + min{tuple(iv)}', 'interval + minimum jitter is at least 1000 ms', k + min(iv) >= 1000 and k == 999))
    rq = prog.func('zeroconf._services.info.ServiceInfo.async_request')
    from .c18 import NoNextQueryTime, no_next_obligation, request_roles

    try:
        roles = request_roles(ctx)
    except NoNextQueryTime:
        return obs + no_next_obligation(ctx, R)
    nxt = [st for st in walk_local_ordered(rq.node) if isinstance(st, (ast.Assign, ast.AugAssign)) and norm(st.targets[0] if isinstance(st, ast.Assign) else st.target) == roles['next'] and not (isinstance(st, ast.Assign) and norm(st.value) == roles['now'])]
    texts = [norm(s) for s in nxt]
    # the statements that set it, composed in order (`next = now + delay; next += jitter` and `next = now + delay + jitter` are
    # the same value)
    ok = False
    try:
        symn = lambda x: {roles['now']: 'NOW', roles['delay']: 'DELAY'}.get(x.id) if isinstance(x, ast.Name) else ('JIT' if isinstance(x, ast.Call) and call_name(x) == '_get_random_delay' else None)  # noqa: E731
        acc = None
        for st_n in nxt:
            if isinstance(st_n, ast.Assign):
                acc = lf.poly(prog, rq.module, st_n.value, symn, {roles['next']: acc} if acc is not None else None)
            elif isinstance(st_n.op, (ast.Add, ast.Sub)) and acc is not None:
                acc = lf.p_add(acc, lf.poly(prog, rq.module, st_n.value, symn), 1 if isinstance(st_n.op, ast.Add) else -1)
            else:
                acc = None
                break
        ok = acc is not None and acc == lf.parse_poly('NOW + DELAY + JIT')
    except lf.NotLinear:
        ok = False
    obs.append(ob(R, rq, '; '.join(texts), 'the next query time is now + delay + random jitter', ok))
    # `at least one second apart after the second`: the round that sends a QM query sets the time of the NEXT query with the
    # raised delay (999 ms + jitter) -- evaluated for a QM round that starts with the initial delay
    if nxt:
        cfg_q = cfg_of(rq.node)
        lt_q = [n for n in cfg_q.nodes if n.kind == 'loop_test']
        first_set = next((n for n in cfg_q.nodes if n.kind == 'stmt' and n.ast is nxt[0]), None)

        def eff_d(node: Any, evl: Any) -> List[Any]:
            if node is first_set:
                v = evl.ev(ast.Name(id=roles['delay'], ctx=ast.Load()))
                return [('DELAY', 'UNKNOWN' if v is fd.UNKNOWN else v)]
            return []

        if lt_q and first_set is not None:
            atoms_q: Dict[str, Any] = {roles['first']: False, rq.params[3]: None, '._is_complete': False}
            for t in cfg_q.nodes:
                if t.kind == 'test' and isinstance(t.ast, ast.Compare) and {x.id for x in ast.walk(t.ast) if isinstance(x, ast.Name)} == {roles['next'], roles['now']}:
                    try:
                        atoms_q[norm(t.ast)] = lf.same_cmp(lf.comparison(prog, rq.module, t.ast, lambda x: {roles['next']: 'NEXT', roles['now']: 'NOW'}.get(x.id) if isinstance(x, ast.Name) else None), lf.parse_cmp('NEXT - NOW <= 0'))
                    except lf.NotLinear:
                        pass
                if t.kind == 'test' and isinstance(t.ast, ast.Compare) and {x.id for x in ast.walk(t.ast) if isinstance(x, ast.Name)} == {roles['last'], roles['now']}:
                    atoms_q[norm(t.ast)] = False
            oc_q, und_q = fd.run_paths(prog, rq.module, cfg_q, atoms_q, eff_d, start=lt_q[0], stop=lambda n: n is lt_q[0], init_locals={roles['delay']: 200}, loop_bound=1)
            seen_d = sorted({x[1] for t in oc_q for x in t if isinstance(x, tuple) and x[0] == 'DELAY'}, key=str)
            good_d = bool(seen_d) and all(isinstance(v, (int, float)) and v >= k for v in seen_d)
            obs.append(ob(R, rq, 'QM round: delay in force when the next-query time is set', 'a round that asks a QM question sets the next query at least the duplicate-question interval (999 ms, plus jitter) ahead', good_d, f'delay in force when the next-query time is set in a QM round that began with the initial 200 ms: {seen_d} (the raise to {k} comes after the computation, so the query after the first QM query follows it by 220-320 ms)'))
    rd = prog.func('zeroconf._services.info.ServiceInfo._get_random_delay')
    c = [x for x in walk_local_ordered(rd.node) if isinstance(x, ast.Call) and call_name(x) == 'randint']
    obs.append(ob(R, rd, c[0] if c else 'randint', 'the jitter is drawn from the 20-120 ms interval', len(c) == 1 and isinstance(c[0].args[0], ast.Starred) and norm(c[0].args[0].value) == '_AVOID_SYNC_DELAY_RANDOM_INTERVAL' and tuple(iv) == (20, 120)))
    raise_ = [n for n in walk_local_ordered(rq.node) if isinstance(n, ast.If) and 'QM_QUESTION' in norm(n.test) and any(isinstance(b, ast.Assign) and norm(b.targets[0]) == roles['delay'] and norm(b.value) == '_DUPLICATE_QUESTION_INTERVAL' for b in n.body)]
    obs.append(ob(R, rq, raise_[0].test if raise_ else 'if this_question_type is QM_QUESTION and delay < ...', 'after a QM query the delay is raised to the duplicate-question interval', len(raise_) == 1))
    if raise_:
        # ... as a table over (type of the round, delay in force): raised iff the round was QM and the delay is below the
        # interval; afterwards the delay is at least the interval in every QM case and untouched in every QU case
        QMs = fd.Evaluator(prog, rq.module, {}).ev(ast.Name(id='QM_QUESTION', ctx=ast.Load()))
        k_iv = prog.const('zeroconf.const', '_DUPLICATE_QUESTION_INTERVAL')
        from .c18 import round_type_values

        p_qt_r = rq.params[3]
        # the type tested is the type of the query just built in this round (not the caller's forced type, which is usually None):
        # the round's type is computed from (forced type, first?) and the test is evaluated with it
        for forced in (None, QU, QM):
            for is_first in (True, False):
                base = {p_qt_r: forced, roles['first']: is_first}
                rvs = round_type_values(ctx, roles, forced, is_first)
                round_v = next(iter(rvs)) if len(rvs) == 1 and 'UNKNOWN' not in rvs else fd.UNKNOWN
                is_qm = round_v == QMs
                for d0 in (200, k_iv - 1, k_iv, k_iv + 1, 5000):
                    atoms_r = {roles['qtype']: round_v, roles['delay']: d0} if roles['qtype'] else dict(base, **{roles['delay']: d0})
                    tv_r = fd.Evaluator(prog, rq.module, atoms_r).ev(raise_[0].test)
                    want_d = max(d0, k_iv) if is_qm else d0
                    got_d = None if tv_r is fd.UNKNOWN or round_v is fd.UNKNOWN else (k_iv if tv_r else d0)
                    obs.append(ob(R, rq, f'round of type {round_v} (forced={forced} first={is_first}), delay in force {d0} ms', f'the delay afterwards is {want_d} ms', got_d == want_d, f'the test evaluates to {tv_r}: delay {got_d}'))
    init_d = prog.func('zeroconf._services.info.ServiceInfo._get_initial_delay')
    obs.append(ob(R, init_d, 'return _LISTENER_TIME', 'the second query follows after 200 ms plus jitter', prog.const('zeroconf.const', '_LISTENER_TIME') == 200 and any(isinstance(r, ast.Return) and norm(r.value) == '_LISTENER_TIME' for r in walk_local_ordered(init_d.node))))
    gq = prog.func('zeroconf._services.info.ServiceInfo._generate_request_query')
    rows = []
    for c in walk_local_ordered(gq.node):
        if isinstance(c, ast.Call) and call_name(c) == '_add_question_with_known_answers':
            rows.append((prog.try_fold(gq.module, c.args[6])[1], xnorm(gq, c.args[5]), norm(c.args[8])))
    me_g = gq.params[0]
    inst, host = f'{me_g}._name', f'{me_g}.server or {me_g}._name'
    want = [(33, inst, 'True'), (16, inst, 'True'), (1, host, 'False'), (28, host, 'False')]
    obs.append(ob(R, gq, f'questions: {rows}', 'SRV and TXT for the instance are omitted when already known; A and AAAA for the host are asked with their known answers', rows == want))
    return obs


EXPLANATION = (
    'C13.KNOWN (decided): the two query builders select known answers from the cache by not-stale-at-query-time and add them with '
    'that same time; the TTL writer writes remaining TTL. C13.HISTORY (decided): decision tables of duplicate-question suppression in '
    'both builders; 999 ms window as a linear form. C13.QUFIRST (decided): decision tables of QU/QM selection in browser and lookup. '
    'C13.CONST (decided): lookup spacing constants. TC bit / splitting: C14. Not decided: behaviour over all cache contents and '
    'relative timings [X].'
)
EXPLANATION_ADDENDUM = (
    ' C13.HISTORY also requires what the history is consulted with and records to be the known-answer selection listed in the query, and the responder to record every QM question it can answer. C13.SPLIT (decided): the TC decision table of DNSOutgoing.packets, unicast queries included.'
)
EXPLANATION = EXPLANATION + EXPLANATION_ADDENDUM

RULES = [known, history, split, qufirst, const]

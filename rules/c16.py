"""C16 -- back-to-back duplicate datagrams change nothing."""
from __future__ import annotations

import ast
from typing import Any, Dict, List, Optional, Set, Tuple

from sa import AnalysisError
from sa import fd, lf
from sa.cf import cfg_of
from sa.pm import FuncInfo, call_name, norm, self_attr, walk_local_ordered
from sa.report import Ob, rule

from .common import attr_stores, ob, strip_ret, traces

PD = 'zeroconf._listener.AsyncListener._process_datagram_at_time'
MEM = ('data', 'last_time', 'last_message')


def mem_fields(ctx: Any) -> Tuple[str, ...]:
    """The duplicate memory: the attributes of the protocol object that the duplicate test reads (the bytes, the time and the
    message of the previous datagram -- and its source, when the test compares that too)."""
    f = ctx.prog.func(PD)
    me = f.params[0]
    extra: List[str] = []
    for t in cfg_of(f.node).nodes:
        if t.kind == 'test' and t.ast is not None and any(isinstance(c, ast.Call) and call_name(c) == 'has_qu_question' for c in ast.walk(t.ast)):
            for x in ast.walk(t.ast):
                a = self_attr(x, me)
                if a and a not in MEM and a not in extra and not any(isinstance(p_, ast.Call) and p_.func is x for p_ in ast.walk(t.ast)):
                    extra.append(a)
    return MEM + tuple(extra)


def source_field(ctx: Any) -> Tuple[Optional[str], Optional[str]]:
    """(attribute, parameter): the memory field that the duplicate test compares with the source-address parameter."""
    f = ctx.prog.func(PD)
    me = f.params[0]
    for x in ast.walk(f.node):
        if isinstance(x, ast.Compare) and len(x.ops) == 1 and isinstance(x.ops[0], (ast.Eq, ast.NotEq)):
            sides = [x.left, x.comparators[0]]
            attrs = [self_attr(s_, me) for s_ in sides]
            names = [s_.id for s_ in sides if isinstance(s_, ast.Name) and s_.id in f.params[5:]]
            if any(a and a not in MEM for a in attrs) and names:
                return next(a for a in attrs if a and a not in MEM), names[0]
    return None, None


def per_socket_protocol(ctx: Any, R: str, statement: str) -> Ob:
    """The protocol factory handed to create_datagram_endpoint constructs a fresh AsyncListener per socket."""
    prog = ctx.prog
    eng = prog.func('zeroconf._engine.AsyncEngine._async_create_endpoints')
    lam = [n for n in walk_local_ordered(eng.node) if isinstance(n, ast.Lambda) and isinstance(n.body, ast.Call) and call_name(n.body) == 'AsyncListener']
    ok = len(lam) == 1 and any(n.in_loop for n in cfg_of(eng.node).nodes if any(x is lam[0] for e in n.exprs() for x in ast.walk(e)))
    return ob(R, eng, lam[0] if lam else 'protocol factory of create_datagram_endpoint', statement, ok, '' if ok else 'the factory does not construct a new AsyncListener for each socket')


def _guard_anatomy(ctx: Any) -> Tuple[Any, str, str, str, Any]:
    f = ctx.prog.func(PD)
    me = f.params[0]
    p_now, p_data = f.params[3], f.params[4]
    dispatch = {'DNSIncoming': 'PARSE', 'async_updates_from_response': 'RESPONSE', 'handle_query_or_defer': 'QUERY'}
    mem = mem_fields(ctx)

    def eff(node: Any, evl: Any) -> List[Any]:
        out = []
        for c in fd.node_calls(node, evl):
            nm = call_name(c)
            if nm in dispatch:
                out.append(dispatch[nm])
        if node.kind == 'stmt':
            for t, st in attr_stores(node.ast):
                if self_attr(t, me) in mem:
                    out.append('MEM:' + t.attr)
        return out

    return f, me, p_now, p_data, eff


def memory_obligations(ctx: Any, R: str) -> List[Ob]:
    """The duplicate memory (bytes, time, message) is written as a whole before any dispatch on every path that is not
    suppressed, also for an invalid message: a partly updated memory compares a later datagram's bytes with one
    datagram and its time and QU-ness with another."""
    f, me, p_now, p_data, eff = _guard_anatomy(ctx)
    obs: List[Ob] = []
    # memory stored before dispatch, also for invalid messages
    for valid in (True, False):
        for is_query in (True, False):
            atoms = {p_data: b'new', f'{me}.data': b'old', '.valid': valid, '.is_query()': is_query, '.has_entries': True, 'debug': False, '.truncated': False}
            oc, und = traces(ctx, f, atoms, eff, loop_bound=1)
            ok = bool(oc)
            for t in oc:
                seq = [x for x in strip_ret(t)]
                mems = [i for i, x in enumerate(seq) if str(x).startswith('MEM')]
                disp = [i for i, x in enumerate(seq) if x in ('RESPONSE', 'QUERY')]
                if {seq[i] for i in mems} != {'MEM:' + m for m in mem_fields(ctx)}:
                    ok = False
                if disp and mems and max(mems) > min(disp):
                    ok = False
                if valid and not disp and is_query is False:
                    ok = False
                if not valid and disp:
                    ok = False
            obs.append(ob(R, f, f'not a duplicate: valid={valid} query={is_query}', 'the datagram is remembered (bytes, time, message) before any dispatch; an invalid message is remembered and not dispatched', ok, str(sorted(map(str, oc)))[:300]))
    return obs


def dispatching_function(ctx: Any) -> FuncInfo:
    """The method of the listener that hands a decoded datagram on (found by what it calls, not by its name)."""
    lst = ctx.prog.cls('zeroconf._listener.AsyncListener')
    cands = [m for m in lst.methods.values() if any(isinstance(c, ast.Call) and call_name(c) == 'async_updates_from_response' for c in walk_local_ordered(m.node))]
    if len(cands) != 1:
        raise AnalysisError(f'anchor vanished: the listener method that dispatches decoded datagrams (found {[m.name for m in cands]})')
    return cands[0]


def dispatch_obligations(ctx: Any, R: str, only: str = '') -> List[Ob]:
    """Where a datagram that passed the duplicate guard goes: a valid response to the record manager, a valid query to the query
    handler when the registry has entries, everything else nowhere -- decision table of the datagram processor over
    (decoded correctly, is a query, registry has entries)."""
    prog = ctx.prog
    f = dispatching_function(ctx)
    me = f.params[0]
    p_data = next((norm(c.args[0]) for c in walk_local_ordered(f.node) if isinstance(c, ast.Call) and call_name(c) == 'DNSIncoming' and c.args), 'data')
    dispatch = {'async_updates_from_response': 'RESPONSE', 'handle_query_or_defer': 'QUERY'}

    def eff(node: Any, evl: Any) -> List[Any]:
        return [dispatch[call_name(c)] for c in fd.node_calls(node, evl) if call_name(c) in dispatch]

    obs: List[Ob] = []
    for valid in (True, False):
        for query in (True, False):
            for has in (True, False):
                if only == 'response' and query:
                    continue
                if only == 'query' and not query:
                    continue
                atoms = {f'{me}.data == {p_data}': False, f'{p_data} == {me}.data': False, f'{me}.data != {p_data}': True, '.valid': valid, '.is_query()': query, '.has_entries': has, '.has_qu_question()': False}
                oc, und = traces(ctx, f, atoms, eff)
                got = {strip_ret(t) for t in oc}
                want = () if not valid else (('RESPONSE',) if not query else (('QUERY',) if has else ()))
                obs.append(ob(R, f, f'datagram decoded {"correctly" if valid else "with an error"}, {"query" if query else "response"}, registry {"has entries" if has else "empty"}', f'it is handed to {"nobody" if not want else ("the record manager" if want[0] == "RESPONSE" else "the query handler")}', got == {want} and not [u for u in und if 'len(' not in u and 'debug' not in u], f'dispatched on the feasible paths: {sorted(got)}; undecided {und}'))
    return obs


def duplicate_source_obligation(ctx: Any, R: str) -> Ob:
    f = ctx.prog.func(PD)
    src_attr, src_param = source_field(ctx)
    return ob(R, f, f'self.{src_attr} == {src_param}' if src_attr else 'self.data == data and ... (no comparison of the source)', 'the duplicate test compares the source of the datagram as well as its bytes', src_attr is not None, '' if src_attr else 'a byte-identical datagram from ANOTHER source within the interval is dropped: a second legacy-unicast querier sending the same query gets no reply at all')


@rule('C16.GUARD', 'D', expect_min=20)
def guard(ctx: Any) -> List[Ob]:
    """The duplicate guard of the datagram processor: the test comes before every
    effect; as a decision table over (same bytes, within the interval, a previous
    message exists, it had a QU question) the datagram is suppressed iff
    (yes, yes, yes, no); on every non-suppressed path the three memory fields
    are stored before any dispatch, also for invalid messages; the interval is a
    positive constant; a truncated packet equal to one already deferred is
    ignored."""
    R = 'C16.GUARD'
    prog = ctx.prog
    f = prog.func(PD)
    me = f.params[0]
    p_now, p_data = f.params[3], f.params[4]
    cfg = cfg_of(f.node)
    obs: List[Ob] = []
    iv = prog.const('zeroconf.const', '_DUPLICATE_PACKET_SUPPRESSION_INTERVAL')
    obs.append(ob(R, f, f'_DUPLICATE_PACKET_SUPPRESSION_INTERVAL = {iv}', 'the suppression interval is a positive constant', isinstance(iv, (int, float)) and iv > 0))
    dispatch = {'DNSIncoming': 'PARSE', 'async_updates_from_response': 'RESPONSE', 'handle_query_or_defer': 'QUERY'}
    mem_all = mem_fields(ctx)
    src_attr, src_param = source_field(ctx)
    # a datagram is a duplicate of the previous one only if it comes from the same source: the same bytes from another address
    # or port are another querier's datagram (a legacy unicast querier is owed its own unicast reply)
    obs.append(duplicate_source_obligation(ctx, R))

    def eff(node: Any, evl: Any) -> List[Any]:
        out = []
        for c in fd.node_calls(node, evl):
            nm = call_name(c)
            if nm in dispatch:
                out.append(dispatch[nm])
        if node.kind == 'stmt':
            for t, st in attr_stores(node.ast):
                if self_attr(t, me) in mem_all:
                    out.append('MEM:' + t.attr)
        return out

    class Prev:
        def __init__(self, qu: bool) -> None:
            self.qu = qu

    n_cells = 0
    for same, same_src in ((True, True), (True, False), (False, True)):
        for within in (True, False):
            for prev, prev_qu, prev_query in ((True, False, True), (True, True, True), (True, False, False), (True, True, False), (False, False, True)):
                if True:
                    if not same_src and src_attr is None:
                        continue
                    last_time = 10_000.0
                    now = last_time + (iv - 1 if within else iv + 1)
                    atoms: Dict[str, Any] = {
                        f'{me}.data': b'abc',
                        p_data: b'abc' if same else b'xyz',
                        **({f'{me}.{src_attr}': ('10.0.0.1', 5353), src_param: ('10.0.0.1', 5353) if same_src else ('10.0.0.9', 41000)} if src_attr else {}),
                        p_now: now,
                        f'{me}.last_time': last_time,
                        f'{me}.last_message': fd.Sym('message') if prev else None,
                        '.has_qu_question()': prev_qu,
                        f'{me}.last_message.is_query()': prev_query,
                        '.valid': True,
                        '.is_query()': False,
                        'debug': False,
                    }
                    oc, und = traces(ctx, f, atoms, eff, loop_bound=1)
                    suppressed = {not any(x in ('PARSE', 'RESPONSE', 'QUERY') or str(x).startswith('MEM') for x in strip_ret(t)) for t in oc}
                    # the exemption is for QUERIES with a QU question (two queriers may send the same bytes and each is owed its unicast
                    # answer); a response that echoes a QU question is a response, and its duplicate is a duplicate
                    want = same and same_src and within and prev and not (prev_qu and prev_query)
                    n_cells += 1
                    obs.append(ob(R, f, f'same bytes={same}{"" if same_src else " from another source"} within interval={within} previous message={prev}{"" if not prev else (" (a query)" if prev_query else " (a response)")} previous had QU={prev_qu}', f'datagram is {"ignored entirely" if want else "processed"}', suppressed == {want}, f'suppressed on {suppressed}; undecided {und}' + ('; a duplicated RESPONSE that carries a question with the QU bit is processed twice (listeners are called twice)' if prev_qu and not prev_query and suppressed != {want} else '')))
    # boundary of the interval: exactly at the interval is no longer a duplicate
    for delta, want in ((iv - 0.001, True), (iv, False)):
        atoms = {f'{me}.data': b'abc', p_data: b'abc', p_now: 10_000.0 + delta, f'{me}.last_time': 10_000.0, f'{me}.last_message': fd.Sym('m'), '.has_qu_question()': False, '.valid': True, '.is_query()': False, 'debug': False}
        if src_attr:
            atoms.update({f'{me}.{src_attr}': ('10.0.0.1', 5353), src_param: ('10.0.0.1', 5353)})
        oc, _ = traces(ctx, f, atoms, eff, loop_bound=1)
        suppressed = {not any(x in ('PARSE', 'RESPONSE', 'QUERY') for x in strip_ret(t)) for t in oc}
        obs.append(ob(R, f, f'identical datagram {delta} ms after the first', f'{"ignored" if want else "processed"}', suppressed == {want}))
    obs.extend(memory_obligations(ctx, R))
    # what is remembered is this datagram
    vals = {t.attr: norm(st.value) for t, st in attr_stores(f.node) if self_attr(t, me) in mem_all and isinstance(st, ast.Assign)}
    msgs = [st.targets[0].id for st in walk_local_ordered(f.node) if isinstance(st, ast.Assign) and isinstance(st.value, ast.Call) and call_name(st.value) == 'DNSIncoming' and isinstance(st.targets[0], ast.Name)]
    obs.append(ob(R, f, f'remembered: {vals}', 'the remembered bytes, time and message are those of the datagram just received', vals == {'data': p_data, 'last_time': p_now, 'last_message': msgs[0] if msgs else '?', **({src_attr: src_param} if src_attr else {})}))
    # the guard test dominates every effect
    tests = [n for n in cfg.nodes if n.kind == 'test' and any(self_attr(x, me) == 'data' for x in ast.walk(n.ast))]
    eff_nodes = [n for n in cfg.nodes if n.kind == 'stmt' and (any(self_attr(t, me) in mem_all for t, _ in attr_stores(n.ast)) or any(call_name(c) in dispatch for c in n.calls()))]
    obs.append(ob(R, f, tests[0].ast if tests else 'duplicate test', 'the duplicate test precedes every store and every dispatch', bool(tests) and all(cfg.dominated_by_any(e, tests) for e in eff_nodes)))
    # the exemption is about QU *questions*: the flag it reads is set only while the question section is decoded (the same
    # bit of the class word is the cache-flush bit of a record; a reader shared with the record sections would exempt
    # every response that carries a unique record from duplicate suppression)
    inc = prog.cls('zeroconf._protocol.incoming.DNSIncoming')
    hq_m = inc.methods.get('has_qu_question')
    flag = None
    if hq_m is not None:
        def _unwrap(v: ast.AST) -> ast.AST:
            while isinstance(v, ast.Call) and isinstance(v.func, ast.Name) and v.func.id == 'bool' and len(v.args) == 1:
                v = v.args[0]
            return v

        rvals = [_unwrap(r.value) for r in walk_local_ordered(hq_m.node) if isinstance(r, ast.Return) and r.value is not None]
        # the other way to say it: no flag at all, the predicate scans the decoded questions for one with the QU bit
        # (`for q in self._questions: if q.unique: return True` ... `return False`).  Then the list it scans takes the flag's
        # place: it is filled only while the question section is decoded
        hme = hq_m.params[0]
        scans = [lp for lp in walk_local_ordered(hq_m.node) if isinstance(lp, ast.For) and isinstance(lp.target, ast.Name) and self_attr(lp.iter, hme) is not None]
        if len(scans) == 1 and sorted(norm(v) for v in rvals) == ['False', 'True']:
            lp = scans[0]
            qv = lp.target.id
            body_ok = (len(lp.body) == 1 and isinstance(lp.body[0], ast.If) and not lp.body[0].orelse and norm(lp.body[0].test) in (f'{qv}.unique', f'{qv}.unicast')
                       and len(lp.body[0].body) == 1 and isinstance(lp.body[0].body[0], ast.Return) and norm(lp.body[0].body[0].value) == 'True' and not lp.orelse)
            lst = self_attr(lp.iter, hme)
            rq_, ro_ = inc.methods.get('_read_questions'), inc.methods.get('_read_others')
            if rq_ is None or ro_ is None:
                raise AnalysisError('anchor vanished: question / record readers')
            fillers = [g for g in inc.methods.values() if g.name != '__init__' and any(isinstance(c, ast.Call) and call_name(c) in ('append', 'extend', 'insert') and isinstance(c.func, ast.Attribute) and (self_attr(c.func.value, g.params[0]) == lst or (isinstance(c.func.value, ast.Name) and any(isinstance(st_, ast.Assign) and norm(st_.targets[0]) == c.func.value.id and self_attr(st_.value, g.params[0]) == lst for st_ in walk_local_ordered(g.node)))) for c in walk_local_ordered(g.node))]
            from_records_ = ctx.cg.closure([ro_], include_deferred=False)
            from_questions_ = ctx.cg.closure([rq_], include_deferred=False)
            obs.append(ob(R, hq_m, lp, 'the QU predicate the duplicate guard consults is true exactly when a decoded question carries the QU bit', body_ok))
            for g in fillers:
                okq = g in from_questions_ and g not in from_records_
                obs.append(ob(R, g, f'self.{lst}.append(...)', 'the list of questions the QU predicate scans is filled only from the decoding of the question section, never while records are read', okq))
            if not fillers:
                raise AnalysisError('anchor vanished: where the question list is filled')
            flag = ''
        rets = [self_attr(v, hq_m.params[0]) for v in rvals]
        flag = '' if flag == '' else (rets[0] if len(rets) == 1 else None)
        if flag is None and len(rvals) == 1:
            # the predicate reads more than the one flag: whatever else makes it true widens the exemption from duplicate
            # suppression beyond `a query containing a QU question` (a QM probe delivered twice is then defended twice)
            from sa import StructuralViolation

            raise StructuralViolation(hq_m.module.rel if hasattr(hq_m.module, 'rel') else 'src/zeroconf/_protocol/incoming.py', hq_m.qual, norm(rvals[0]), 'the QU predicate the duplicate guard consults is exactly the flag set while the question section is decoded', 'the predicate is a compound expression: the exemption of the guard covers more than queries with a QU question')
    if flag is None:
        raise AnalysisError('anchor vanished: the attribute returned by DNSIncoming.has_qu_question')
    setters = [g for g in inc.methods.values() if flag and any(self_attr(t, g.params[0]) == flag and not (isinstance(st, ast.Assign) and isinstance(st.value, ast.Constant) and st.value.value is False) for t, st in attr_stores(g.node)) and g.name != '__init__']
    rq, ro = inc.methods.get('_read_questions'), inc.methods.get('_read_others')
    if rq is None or ro is None or (flag and not setters):
        raise AnalysisError('anchor vanished: question / record readers or the setter of the QU flag')
    from_records = ctx.cg.closure([ro], include_deferred=False)
    from_questions = ctx.cg.closure([rq], include_deferred=False)
    for g in setters:
        okq = g in from_questions and g not in from_records
        obs.append(ob(R, g, f'self.{flag} = True', 'the QU flag is set only from the decoding of the question section, never while records are read', okq, '' if okq else f'{g.name} is reachable from the record reader: a cache-flush bit would count as a QU question'))
    # the memory is written in one place only: no other method (an exception handler, a connection callback) resets part of it
    lcls = prog.cls('zeroconf._listener.AsyncListener')
    stray = []
    for g in lcls.methods.values():
        if g.name == '__init__' or g is f:
            continue
        gm = g.params[0] if g.params else 'self'
        for t, st in attr_stores(g.node):
            if self_attr(t, gm) in mem_all:
                stray.append((g, st))
    obs.append(ob(R, stray[0][0] if stray else f, stray[0][1] if stray else 'self.data / self.last_time / self.last_message', 'the duplicate memory is written only by the datagram processor (as a whole); no other method resets a part of it', not stray, f'{stray[0][0].name} stores `{norm(stray[0][1])[:60]}`' if stray else ''))
    # the QU exemption may double a UNICAST answer only.  A copy that is let through because the previous message had a QU
    # question is answered by the QU routine, which multicasts when the record was not multicast within a quarter of its TTL;
    # that is repeated for the duplicate unless the first multicast has been noted where `recently multicast` is read (the
    # cache) before the copy is processed.
    from .c11 import QR, _bucket_eff

    qu_f = prog.func(QR + '.add_qu_question_response')
    qme = qu_f.params[0]
    # (once the record HAS been multicast recently -- the normal state, a responder hears its own announcements -- a copy that
    # is let through must find the QU routine answering by unicast alone, probe or not: the decision table of C11.ROUTE)
    from .c11 import qu_answer_table

    for o in qu_answer_table(ctx, R):
        if 'TTL=True' in str(o.construct):
            o.statement = 'a duplicated QU query for a recently multicast record is ' + o.statement + ' -- no multicast to double'
            obs.append(o)
    oc_q, _ = traces(ctx, qu_f, {f'{qme}._is_probe': False, '._has_mcast_within_one_quarter_ttl()': False}, _bucket_eff(qme), loop_bound=1, for_iter=lambda n, e: True)
    qu_multicasts = any('MCAST_NOW' in t for t in oc_q)
    has_exemption = any(isinstance(c, ast.Call) and call_name(c) == 'has_qu_question' for c in walk_local_ordered(f.node))
    answer_path = ctx.cg.closure([prog.func('zeroconf._handlers.query_handler.QueryHandler.handle_assembled_query')], include_deferred=False)
    notes_send = [g for g in answer_path if any(isinstance(c, ast.Call) and call_name(c) in ('async_add_records', '_async_add', 'set_created_ttl', 'reset_ttl') for c in walk_local_ordered(g.node))]
    doubled = has_exemption and qu_multicasts and not notes_send
    obs.append(ob(R, f, 'QU exemption of the duplicate guard -> add_qu_question_response -> multicast now', 'a duplicate that is processed because of a QU question cannot cause a second MULTICAST answer (only the unicast answer may be doubled)', not doubled, 'a duplicated QU query for a record that was not multicast within a quarter of its TTL is answered by multicast once per copy: the answer path records nothing that would make the record `recently multicast` for the second copy' if doubled else ''))
    obs.append(per_socket_protocol(ctx, R, 'each socket gets its own protocol object, so the duplicate memory is per socket'))
    # TC deferral ignores an identical packet: decided under C12.WIRING; re-checked minimally
    hq = prog.func('zeroconf._listener.AsyncListener.handle_query_or_defer')
    same = [n for n in walk_local_ordered(hq.node) if isinstance(n, ast.Compare) and '.data' in norm(n) and isinstance(n.ops[0], ast.Eq)]
    obs.append(ob(R, hq, same[0] if same else 'incoming.data == msg.data', 'a truncated packet identical to one already deferred from that source is not deferred again', len(same) == 1))
    return obs


EXPLANATION = (
    'C16.GUARD (decided): finite-domain decision table (12 cells + interval boundary) of the duplicate guard with concrete byte and '
    'time atoms -- suppressed iff same bytes, within the interval, a previous message exists and it had no QU question; the memory '
    'fields are stored before any dispatch on every non-suppressed path, also for invalid messages; the test dominates all effects; '
    'memory is per socket. A refreshed pointer produces no event: C04.CLASSIFY. Not decided: the metamorphic equivalence over whole '
    'histories [X].'
)
EXPLANATION_ADDENDUM = (
    ' The QU exemption flag is set only while the question section is decoded (never from the record reader, where the same bit means cache-flush).'
)
EXPLANATION = EXPLANATION + EXPLANATION_ADDENDUM

RULES = [guard]

"""C14 -- outgoing messages respect size limits and account for every section entry."""
from __future__ import annotations

import ast
import struct
from typing import Any, Dict, List, Optional, Set, Tuple

from sa import AnalysisError
from sa import fd, lf
from sa.cf import cfg_of
from sa.pm import FuncInfo, call_name, norm, self_attr, walk_local_ordered
from sa.report import Ob, rule

from .common import attr_stores, expand, inline_helpers, ob, strip_ret, traces

OUT = 'zeroconf._protocol.outgoing.DNSOutgoing'
OM = 'zeroconf._protocol.outgoing'


def width_of(ctx: Any, f: FuncInfo, e: ast.AST, depth: int = 0) -> Any:
    """Byte width of the bytes value of expression e: int, or ('len', text) for a caller-supplied value, or None."""
    prog = ctx.prog
    m = f.module
    if depth > 6:
        return None
    if isinstance(e, ast.Name):
        if e.id in f.params:
            return ('len', e.id)
        defs = [st for st in walk_local_ordered(f.node) if isinstance(st, ast.Assign) and any(isinstance(t, ast.Name) and t.id == e.id for t in st.targets)]
        ws = {repr(width_of(ctx, f, d.value, depth + 1)) for d in defs}
        if defs and len(ws) == 1:
            return width_of(ctx, f, defs[0].value, depth + 1)
        r = prog.resolve_name(m, e.id)
        if r and r[0] == 'const':
            return _module_width(ctx, r[1], r[3], depth + 1)
        return None
    if isinstance(e, ast.IfExp):
        a, b = width_of(ctx, f, e.body, depth + 1), width_of(ctx, f, e.orelse, depth + 1)
        return a if a == b else None
    if isinstance(e, ast.Subscript):
        base = e.value
        if isinstance(base, ast.Name):
            r = prog.resolve_name(m, base.id)
            if r and r[0] == 'const':
                return _module_width(ctx, r[1], r[3], depth + 1)
    if isinstance(e, ast.Call):
        fn = e.func
        if isinstance(fn, ast.Attribute) and fn.attr == 'get' and isinstance(fn.value, ast.Name):
            r = prog.resolve_name(m, fn.value.id)
            if r and r[0] == 'const':
                return _module_width(ctx, r[1], r[3], depth + 1)
        if isinstance(fn, ast.Name):
            r = prog.resolve_name(m, fn.id)
            if r and r[0] == 'const':
                return _module_width(ctx, r[1], r[3], depth + 1)
        if isinstance(fn, ast.Attribute) and isinstance(fn.value, ast.Name) and f.params and fn.value.id == f.params[0] and f.cls is not None:
            g = f.cls.find_method(fn.attr)
            if g is not None:
                rets = [r_.value for r_ in walk_local_ordered(g.node) if isinstance(r_, ast.Return) and r_.value is not None]
                ws = [width_of(ctx, g, r_, depth + 1) for r_ in rets]
                if ws and all(w == ws[0] for w in ws):
                    return ws[0]
    return None


def _module_width(ctx: Any, m: Any, v: ast.AST, depth: int) -> Any:
    """Width of the bytes produced by / stored in a module-level constant expression."""
    prog = ctx.prog
    if depth > 8:
        return None
    # Struct('>H').pack
    if isinstance(v, ast.Attribute) and v.attr == 'pack' and isinstance(v.value, ast.Call) and call_name(v.value) == 'Struct' and v.value.args:
        okc, fmt = prog.try_fold(m, v.value.args[0])
        if okc and isinstance(fmt, str):
            return struct.calcsize(fmt)
    if isinstance(v, ast.Call) and call_name(v) == 'tuple' and v.args and isinstance(v.args[0], ast.GeneratorExp):
        return _module_width(ctx, m, v.args[0].elt, depth + 1)
    if isinstance(v, ast.DictComp):
        return _module_width(ctx, m, v.value, depth + 1)
    if isinstance(v, ast.Call) and isinstance(v.func, ast.Name):
        r = prog.resolve_name(m, v.func.id)
        if r and r[0] == 'const':
            return _module_width(ctx, r[1], r[3], depth + 1)
    if isinstance(v, ast.Name):
        r = prog.resolve_name(m, v.id)
        if r and r[0] == 'const':
            return _module_width(ctx, r[1], r[3], depth + 1)
    return None


@rule('C14.ACCOUNT', 'D', expect_min=8)
def account(ctx: Any) -> List[Ob]:
    """Size bookkeeping: every primitive that appends bytes to the packet adds
    exactly the appended width to the running size on every path (widths derived
    from the Struct formats and len(value)); the length placeholder of a record
    is replaced by a value of the same width; the header is exactly six shorts
    = the 12 bytes pre-counted in the size."""
    R = 'C14.ACCOUNT'
    prog = ctx.prog
    out = prog.cls(OUT)
    obs: List[Ob] = []
    n_prims = 0
    for f in out.methods.values():
        me = f.params[0] if f.params else 'self'
        appends = [c for c in walk_local_ordered(f.node) if isinstance(c, ast.Call) and call_name(c) == 'append' and isinstance(c.func, ast.Attribute) and self_attr(c.func.value, me) == 'data']
        if not appends:
            continue
        n_prims += 1

        def eff(node: Any, evl: Any, f=f, me=me) -> List[Any]:
            res = []
            for c in node.calls():
                if call_name(c) == 'append' and isinstance(c.func, ast.Attribute) and self_attr(c.func.value, me) == 'data':
                    res.append(('APPEND', repr(width_of(ctx, f, c.args[0]))))
            if node.kind == 'stmt' and isinstance(node.ast, ast.AugAssign) and self_attr(node.ast.target, me) == 'size' and isinstance(node.ast.op, ast.Add):
                v = node.ast.value
                okc, k = prog.try_fold(f.module, v)
                if okc:
                    res.append(('SIZE', repr(k)))
                elif isinstance(v, ast.Call) and norm(v.func) == 'len' and isinstance(v.args[0], ast.Name):
                    res.append(('SIZE', repr(('len', v.args[0].id))))
                else:
                    res.append(('SIZE', '?' + norm(v)))
            return res

        oc, _ = traces(ctx, f, {}, eff)
        good = bool(oc)
        detail = []
        for t in oc:
            a = sorted(x[1] for x in t if isinstance(x, tuple) and x[0] == 'APPEND')
            s = sorted(x[1] for x in t if isinstance(x, tuple) and x[0] == 'SIZE')
            detail.append(f'appended {a} counted {s}')
            if a != s or 'None' in a:
                good = False
        obs.append(ob(R, f, f'{f.name}: self.data.append(...) / self.size += ...', 'the size grows by exactly the width of what is appended, on every path', good, '; '.join(sorted(set(detail)))))
    if n_prims < 3:
        raise AnalysisError('anchor vanished: write primitives appending to self.data')
    # no other function mutates size / data except the rollback and the per-packet reset and header insertion
    allowed_size = {'_write_byte', 'write_short', '_write_int', 'write_string', '_check_data_limit_or_rollback', '_reset_for_next_packet', '__init__'}
    for f in out.methods.values():
        me = f.params[0] if f.params else 'self'
        for t, st in attr_stores(f.node):
            if self_attr(t, me) == 'size':
                obs.append(ob(R, f, st, 'the running size is written only by the write primitives, the rollback and the per-packet reset', f.name in allowed_size))
    # placeholder replace
    wr = out.methods['_write_record']
    me = wr.params[0]
    rep = [c for c in walk_local_ordered(wr.node) if isinstance(c, ast.Call) and call_name(c) == '_replace_short']
    ok_rep = False
    if len(rep) == 1 and isinstance(rep[0].args[0], ast.Name):
        idx = rep[0].args[0].id
        body = wr.node.body
        for i, st in enumerate(body):
            if isinstance(st, ast.Assign) and any(isinstance(t, ast.Name) and t.id == idx for t in st.targets) and norm(st.value) == f'len({me}.data)':
                nxt = body[i + 1] if i + 1 < len(body) else None
                if isinstance(nxt, ast.Expr) and isinstance(nxt.value, ast.Call) and call_name(nxt.value) == 'write_short':
                    ok_rep = True
    rs = out.methods['_replace_short']
    w_rep = None
    for st in walk_local_ordered(rs.node):
        if isinstance(st, ast.Assign) and isinstance(st.targets[0], ast.Subscript) and self_attr(st.targets[0].value, rs.params[0]) == 'data':
            w_rep = width_of(ctx, rs, st.value)
    obs.append(ob(R, wr, rep[0] if rep else '_replace_short', 'the rdata-length placeholder (a short written right after its index is taken) is replaced by a 2-byte value', ok_rep and w_rep == 2, f'replacement width {w_rep}'))
    # rdlength = bytes written after the placeholder
    ok_len = False
    for lp in walk_local_ordered(wr.node):
        if isinstance(lp, ast.For) and isinstance(lp.iter, ast.Subscript) and self_attr(lp.iter.value, me) == 'data' and isinstance(lp.iter.slice, ast.Slice) and lp.iter.slice.upper is None:
            try:
                p = lf.poly(prog, wr.module, lp.iter.slice.lower, lambda x: x.id if isinstance(x, ast.Name) else None)
                ok_len = p == lf.parse_poly(f'{rep[0].args[0].id} + 1') and any(isinstance(b, ast.AugAssign) and norm(b.value) == f'len({norm(lp.target)})' for b in lp.body)
            except (lf.NotLinear, IndexError):
                pass
    obs.append(ob(R, wr, 'for d in self.data[index + 1:]: length += len(d)', 'the rdata length is the byte count of everything written after the placeholder', ok_len))
    # header
    pk = out.methods['packets']
    me = pk.params[0]

    def effh(node: Any, evl: Any) -> List[Any]:
        return ['HDR' for c in node.calls() if call_name(c) == '_insert_short_at_start'] + (['JOIN'] if any(call_name(c) == 'join' for c in node.calls()) else [])

    oc, _ = traces(ctx, pk, {f'{me}.state': 0, '.state': 0}, effh, loop_bound=1)
    per_packet = set()
    for t in oc:
        n = 0
        for x in strip_ret(t):
            if x == 'HDR':
                n += 1
            elif x == 'JOIN':
                per_packet.add(n)
                n = 0
    ins = out.methods['_insert_short_at_start']
    w_ins = None
    for c in walk_local_ordered(ins.node):
        if isinstance(c, ast.Call) and call_name(c) == 'insert' and len(c.args) == 2:
            w_ins = width_of(ctx, ins, c.args[1])
    hdr = prog.const('zeroconf.const', '_DNS_PACKET_HEADER_LEN')
    obs.append(ob(R, pk, '6 x self._insert_short_at_start(...)', f'every packet gets exactly six 2-byte header fields = the {hdr} bytes pre-counted in the size', per_packet == {6} and w_ins == 2 and hdr == 12, f'header shorts per packet on the paths: {sorted(per_packet)}, width {w_ins}'))
    for nm in ('__init__', '_reset_for_next_packet'):
        g = out.methods[nm]
        vals = [prog.try_fold(g.module, st.value) for t, st in attr_stores(g.node) if self_attr(t, g.params[0]) == 'size' and isinstance(st, (ast.Assign, ast.AnnAssign))]
        obs.append(ob(R, g, 'self.size = _DNS_PACKET_HEADER_LEN', 'a fresh packet starts with the header length already counted', vals == [(True, 12)], str(vals)))
    return obs


@rule('C14.LIMIT', 'D', expect_min=8)
def limit(ctx: Any) -> List[Ob]:
    """An entry stays in a packet only if the size check passed; the limit is 8966
    for the first entry of a packet and 1460 afterwards; anything above 8966 is
    dropped by the sender."""
    R = 'C14.LIMIT'
    prog = ctx.prog
    out = prog.cls(OUT)
    ck = out.methods['_check_data_limit_or_rollback']
    me = ck.params[0]
    obs: List[Ob] = []
    typ = prog.const('zeroconf.const', '_MAX_MSG_TYPICAL')
    absl = prog.const('zeroconf.const', '_MAX_MSG_ABSOLUTE')
    obs.append(ob(R, ck, f'_MAX_MSG_TYPICAL={typ}, _MAX_MSG_ABSOLUTE={absl}', 'limits are 1460 and 8966 bytes', typ == 1460 and absl == 8966))

    def eff(node: Any, evl: Any) -> List[Any]:
        res = []
        if node.kind == 'stmt':
            for t, st in attr_stores(node.ast):
                if self_attr(t, me) == 'allow_long' and isinstance(st, ast.Assign):
                    res.append(('ALLOW', norm(st.value)))
                if self_attr(t, me) == 'size':
                    res.append('ROLLBACK')
            if isinstance(node.ast, ast.Delete):
                res.append('ROLLBACK')
        return res

    for allow, size, want in ((True, 8966, True), (True, 8967, False), (False, 1460, True), (False, 1461, False), (True, 1461, True), (False, 8966, False)):
        atoms = {f'{me}.allow_long': allow, f'{me}.size': size, 'LOGGING_IS_ENABLED_FOR()': False}
        oc, und = traces(ctx, ck, atoms, eff, loop_bound=1)
        rets = {x[1] for t in oc for x in t if isinstance(x, tuple) and x[0] == 'ret'}
        rolled = {('ROLLBACK' in t) for t in oc}
        cleared = all(('ALLOW', 'False') in t for t in oc)
        obs.append(ob(R, ck, f'allow_long={allow} size={size}', f'entry {"kept" if want else "rolled back"}; allow_long cleared', rets == {want} and rolled == {not want} and cleared and not und, f'returns {rets}, rollback {rolled}, undecided {und}'))
    # allow_long set True only by constructor / per-packet reset
    for f in out.methods.values():
        for t, st in attr_stores(f.node):
            if self_attr(t, f.params[0]) == 'allow_long' and isinstance(st, (ast.Assign, ast.AnnAssign)) and norm(st.value) == 'True':
                obs.append(ob(R, f, st, 'only a fresh packet may take one over-long entry', f.name in ('__init__', '_reset_for_next_packet')))
    # every path of the entry writers returns the limit check
    for nm in ('_write_question', '_write_record'):
        g = out.methods[nm]
        rets = [r for r in walk_local_ordered(g.node) if isinstance(r, ast.Return)]
        good = bool(rets) and all(isinstance(r.value, ast.Call) and call_name(r.value) == '_check_data_limit_or_rollback' for r in rets)
        cfg = cfg_of(g.node)
        falls = [p for p, _ in cfg.exit.pred if p.kind != 'return']
        obs.append(ob(R, g, 'return self._check_data_limit_or_rollback(...)', 'the writer reports success only through the size check, on every path', good and not falls))
    # sender drop
    send = prog.func('zeroconf._core.Zeroconf.async_send')
    tests = [n for n in walk_local_ordered(send.node) if isinstance(n, ast.If) and isinstance(n.test, ast.Compare) and 'len(' in norm(n.test)]
    ok_drop = False
    for t in tests:
        try:
            p, op = lf.comparison(prog, send.module, t.test, lambda x: 'L' if isinstance(x, ast.Call) and norm(x.func) == 'len' else None)
            if lf.same_cmp((p, op), lf.parse_cmp('8966 - L < 0')):
                ok_drop = any(isinstance(b, ast.Return) for b in t.body)
        except lf.NotLinear:
            pass
    obs.append(ob(R, send, 'if len(packet) > _MAX_MSG_ABSOLUTE: ... return', 'the sender never transmits a datagram above 8966 bytes', ok_drop))
    return obs


def _section_offsets(pk: FuncInfo) -> Dict[str, str]:
    """offset variable of packets() -> the list attribute whose writer is started at that offset."""
    me = pk.params[0]
    out: Dict[str, str] = {}
    for st in walk_local_ordered(pk.node):
        if isinstance(st, ast.Assign) and isinstance(st.value, ast.Call) and call_name(st.value).startswith('_write_') and isinstance(st.targets[0], ast.Name):
            c = st.value
            if call_name(c) == '_write_records_from_offset' and len(c.args) == 2:
                out[norm(c.args[1])] = self_attr(c.args[0], me) or '?'
            elif len(c.args) == 1:
                out[norm(c.args[0])] = {'_write_questions_from_offset': 'questions', '_write_answers_from_offset': 'answers'}.get(call_name(c), '?')
    return out


def _remains_value(prog: Any, pk: FuncInfo, e: ast.AST, remain: Set[str], offs: Dict[str, str]) -> Optional[bool]:
    """Truth of `e` (single-definition locals expanded, one-expression helpers inlined) when exactly the sections in `remain`
    still have entries to write; None when `e` is not a boolean combination of `offset < len(self.<list>)` tests on matching pairs."""
    me = pk.params[0]
    x = inline_helpers(prog, pk, expand(pk, e))

    def ev(n: ast.AST) -> Optional[bool]:
        if isinstance(n, ast.BoolOp):
            vals = [ev(v) for v in n.values]
            if any(v is None for v in vals):
                return None
            return all(vals) if isinstance(n.op, ast.And) else any(vals)
        if isinstance(n, ast.UnaryOp) and isinstance(n.op, ast.Not):
            v = ev(n.operand)
            return None if v is None else not v
        if isinstance(n, ast.Compare) and len(n.ops) == 1:
            seen: Dict[str, str] = {}

            def sym(t: ast.AST) -> Optional[str]:
                if isinstance(t, ast.Call) and norm(t.func) == 'len' and len(t.args) == 1 and self_attr(t.args[0], me):
                    seen['l'] = self_attr(t.args[0], me) or ''
                    return 'LEN'
                if isinstance(t, ast.Name):
                    seen['o'] = t.id
                    return 'OFF'
                return None

            try:
                c = lf.comparison(prog, pk.module, n, sym)
            except lf.NotLinear:
                return None
            if 'l' not in seen or 'o' not in seen or offs.get(seen['o']) != seen['l']:
                return None
            if lf.same_cmp(c, lf.parse_cmp('OFF - LEN < 0')):
                return seen['l'] in remain
            if lf.same_cmp(c, lf.parse_cmp('LEN - OFF <= 0')):
                return seen['l'] not in remain
        return None

    return ev(x)


def _continuation(pk: FuncInfo) -> Optional[ast.AST]:
    """The expression that decides whether packets() goes round again: the test of its while loop, or, when that is a
    local, the value the loop body assigns to it."""
    loops = [n for n in walk_local_ordered(pk.node) if isinstance(n, ast.While)]
    if len(loops) != 1:
        return None
    t = loops[0].test
    if isinstance(t, ast.Constant) and t.value is True:
        # `while True: ...; if not <remains>: break`: the loop goes round again when no guard breaks out; the guard that
        # tests a local assigned in the loop from the remaining-entries expression is the continuation, negated
        for st in loops[0].body:
            if isinstance(st, ast.If) and not st.orelse and len(st.body) == 1 and isinstance(st.body[0], ast.Break) and isinstance(st.test, ast.UnaryOp) and isinstance(st.test.op, ast.Not):
                c = st.test.operand
                if isinstance(c, ast.Name):
                    defs = [s_.value for s_ in walk_local_ordered(loops[0]) if isinstance(s_, ast.Assign) and len(s_.targets) == 1 and isinstance(s_.targets[0], ast.Name) and s_.targets[0].id == c.id]
                    if len(defs) == 1 and isinstance(defs[0], (ast.Call, ast.Compare, ast.BoolOp)) and not (isinstance(defs[0], ast.Call) and norm(defs[0].func) == 'bool'):
                        return defs[0]
                elif isinstance(c, (ast.Call, ast.Compare, ast.BoolOp)):
                    return c
        return None
    if isinstance(t, ast.Name):
        defs = [st.value for st in walk_local_ordered(loops[0]) if isinstance(st, ast.Assign) and len(st.targets) == 1 and isinstance(st.targets[0], ast.Name) and st.targets[0].id == t.id]
        return defs[-1] if len(defs) == 1 else None
    return t


SECTIONS = [('questions', '_write_questions_from_offset'), ('answers', '_write_answers_from_offset'), ('authorities', '_write_records_from_offset'), ('additionals', '_write_records_from_offset')]


@rule('C14.SECTIONS', 'D', expect_min=10)
def sections(ctx: Any) -> List[Ob]:
    """Four-way consistency per section in packets(): the same variable is the
    count returned by the section's writer started at the section's offset, is
    inserted in the section's header slot, and is added to the section's
    offset; the more-to-add test compares each offset with the length of the
    same list; each writer counts an entry only after a successful write and
    stops at the first failure."""
    R = 'C14.SECTIONS'
    prog = ctx.prog
    out = prog.cls(OUT)
    pk = out.methods['packets']
    me = pk.params[0]
    obs: List[Ob] = []
    body = [n for n in walk_local_ordered(pk.node)]
    written: Dict[str, Tuple[str, str, str]] = {}  # count var -> (writer, list attr, offset var)
    for st in body:
        if isinstance(st, ast.Assign) and isinstance(st.value, ast.Call) and call_name(st.value).startswith('_write_') and isinstance(st.targets[0], ast.Name):
            c = st.value
            args = c.args
            lst = None
            off = None
            if call_name(c) == '_write_records_from_offset' and len(args) == 2:
                lst, off = self_attr(args[0], me), norm(args[1])
            elif len(args) == 1:
                off = norm(args[0])
                lst = {'_write_questions_from_offset': 'questions', '_write_answers_from_offset': 'answers'}.get(call_name(c))
            written[st.targets[0].id] = (call_name(c), lst or '?', off or '?')
    if len(written) != 4:
        raise AnalysisError(f'packets(): expected four section writer calls, found {sorted(written)}')
    # header insertion order: reverse of wire order
    inserts = [norm(c.args[0]) for c in body if isinstance(c, ast.Call) and call_name(c) == '_insert_short_at_start']
    count_inserts = [x for x in inserts if x in written]
    by_list = {v[1]: k for k, v in written.items()}
    want_order = [by_list.get(x, '?') for x in ('additionals', 'authorities', 'answers', 'questions')]
    obs.append(ob(R, pk, f'header counts inserted (reverse wire order): {count_inserts}', 'QDCOUNT/ANCOUNT/NSCOUNT/ARCOUNT slots carry the counts of questions/answers/authorities/additionals written', count_inserts == want_order, f'expected {want_order}'))
    # the insertion of the counts is followed by flags then id (so wire order is id, flags, qd, an, ns, ar)
    tail = [x for x in inserts if x not in written]
    # (each inserted in the arms of an `if`, or once with the choice made in the argument)
    tail_nodes = [c.args[0] for c in body if isinstance(c, ast.Call) and call_name(c) == '_insert_short_at_start' and norm(c.args[0]) not in written]

    def tail_kind(x: ast.AST) -> str:
        if isinstance(x, ast.IfExp):
            ks = {tail_kind(x.body), tail_kind(x.orelse)}
            return ks.pop() if len(ks) == 1 else '?'
        t_ = norm(x)
        return 'I' if t_ in ('0', f'{me}.id') else ('F' if 'flags' in t_ else '?')

    kinds_t = ''.join(tail_kind(x) for x in tail_nodes)
    obs.append(ob(R, pk, f'then flags/id: {tail}', 'flags then id are inserted after the counts (wire order id, flags, counts)', kinds_t in ('FI', 'FFII', 'FII', 'FFI'), str(tail)))
    # offsets advanced by the same variable
    for cnt, (writer, lst, off) in written.items():
        augs = [st for st in body if isinstance(st, ast.AugAssign) and isinstance(st.op, ast.Add) and norm(st.target) == off]
        obs.append(ob(R, pk, f'{off} += {cnt}', f'the {lst} offset advances by exactly the number of {lst} written into this packet', len(augs) == 1 and norm(augs[0].value) == cnt, str([norm(a) for a in augs])))
        # writer reads its own list from its offset
        w = out.methods[writer]
        wme = w.params[0]
        loops = [n for n in walk_local_ordered(w.node) if isinstance(n, ast.For)]
        src_ok = False
        if len(loops) == 1 and isinstance(loops[0].iter, ast.Subscript) and isinstance(loops[0].iter.slice, ast.Slice):
            base = loops[0].iter.value
            lo = loops[0].iter.slice.lower
            if writer == '_write_records_from_offset':
                src_ok = isinstance(base, ast.Name) and base.id == w.params[1] and lo is not None and norm(lo) == w.params[2] and loops[0].iter.slice.upper is None
            else:
                src_ok = self_attr(base, wme) == lst and lo is not None and norm(lo) == w.params[1] and loops[0].iter.slice.upper is None
        if not loops:
            # the indexed spelling: `pending = <list>[offset:]` and `while n < len(pending) and self._write_x(pending[n]): n += 1`
            wl = [n for n in walk_local_ordered(w.node) if isinstance(n, ast.While)]
            sl_defs = [(st_.targets[0].id, st_.value) for st_ in walk_local_ordered(w.node) if isinstance(st_, ast.Assign) and isinstance(st_.targets[0], ast.Name) and isinstance(st_.value, ast.Subscript) and isinstance(st_.value.slice, ast.Slice)]
            cnts = [norm(a_.target) for a_ in walk_local_ordered(w.node) if isinstance(a_, ast.AugAssign)]
            if len(wl) == 1 and len(sl_defs) == 1 and len(set(cnts)) == 1:
                pend, sv = sl_defs[0]
                base, lo = sv.value, sv.slice.lower
                if writer == '_write_records_from_offset':
                    from_off = isinstance(base, ast.Name) and base.id == w.params[1] and lo is not None and norm(lo) == w.params[2] and sv.slice.upper is None
                else:
                    from_off = self_attr(base, wme) == lst and lo is not None and norm(lo) == w.params[1] and sv.slice.upper is None
                tst = wl[0].test
                conj = tst.values if isinstance(tst, ast.BoolOp) and isinstance(tst.op, ast.And) else [tst]
                bound_ok = False
                try:
                    bound_ok = len(conj) == 2 and lf.same_cmp(lf.comparison(prog, w.module, conj[0], lambda x: 'N' if isinstance(x, ast.Name) and x.id == cnts[0] else ('LEN' if isinstance(x, ast.Call) and norm(x.func) == 'len' and norm(x.args[0]) == pend else None)), lf.parse_cmp('N - LEN < 0'))
                except lf.NotLinear:
                    bound_ok = False
                elem_ok = len(conj) == 2 and isinstance(conj[1], ast.Call) and call_name(conj[1]).startswith('_write_') and conj[1].args and norm(conj[1].args[0]) == f'{pend}[{cnts[0]}]'
                starts0 = [prog.try_fold(w.module, st_.value) for st_ in walk_local_ordered(w.node) if isinstance(st_, ast.Assign) and norm(st_.targets[0]) == cnts[0]]
                src_ok = bool(from_off and bound_ok and elem_ok and starts0 == [(True, 0)])
        obs.append(ob(R, w, f'for ... in {norm(loops[0].iter) if loops else "?"}', f'the {lst} writer iterates its list from the given offset', src_ok))
    # writers: count only after success, stop at first failure
    for writer in sorted({v[0] for v in written.values()}):
        w = out.methods[writer]

        def effw(node: Any, evl: Any) -> List[Any]:
            res = []
            if node.kind == 'stmt' and isinstance(node.ast, ast.AugAssign):
                res.append('COUNT')
            if node.kind == 'break':
                res.append('BREAK')
            return res

        oc_ok, _ = traces(ctx, w, {'._write_question()': True, '._write_record()': True}, effw, loop_bound=1, for_iter=lambda n, e: True)
        oc_fail, _ = traces(ctx, w, {'._write_question()': False, '._write_record()': False}, effw, loop_bound=1, for_iter=lambda n, e: True)
        g1 = {strip_ret(t) for t in oc_ok} == {('COUNT',)}
        g2 = {strip_ret(t) for t in oc_fail} == {('BREAK',)}
        if not any(isinstance(n_, ast.For) for n_ in walk_local_ordered(w.node)):
            # indexed spelling: the write is a conjunct of the loop test, so a failed write leaves the loop (no break needed)
            # and the count is the only statement of the body
            g1 = {strip_ret(t) for t in oc_ok} <= {('COUNT',), ()} and ('COUNT',) in {strip_ret(t) for t in oc_ok}
            g2 = {strip_ret(t) for t in oc_fail} == {()}
        rets = [r for r in walk_local_ordered(w.node) if isinstance(r, ast.Return)]
        cnt_var = next((norm(n.target) for n in walk_local_ordered(w.node) if isinstance(n, ast.AugAssign)), '?')
        obs.append(ob(R, w, 'if not self._write_...(x): break; written += 1', 'an entry is counted only after it was written and the section stops at the first entry that does not fit', g1 and g2 and len(rets) == 1 and norm(rets[0].value) == cnt_var, f'success {sorted(map(str, oc_ok))} failure {sorted(map(str, oc_fail))}'))
    # more-to-add: the loop goes round again exactly when some section still has entries to write
    import itertools

    offs = _section_offsets(pk)
    cont = _continuation(pk)
    lists = ['questions', 'answers', 'authorities', 'additionals']
    bad_rows = []
    if cont is not None and sorted(offs.values()) == sorted(lists):
        for k in range(5):
            for sub in itertools.combinations(lists, k):
                v = _remains_value(prog, pk, cont, set(sub), offs)
                if v is None or v != bool(sub):
                    bad_rows.append((list(sub), v))
    obs.append(ob(R, pk, cont if cont is not None else 'while has_more_to_add', 'packets() goes round again iff some section offset is below the length of that same section\'s list (all four sections)', cont is not None and sorted(offs.values()) == sorted(lists) and not bad_rows, f'remaining sections {bad_rows[0][0]} -> {bad_rows[0][1]}' if bad_rows else f'offsets {offs}'))
    # the message is marked finished only when everything has been written: an entry writer can raise (a label that cannot be
    # encoded); marking first would make every later call hand out the partial sequence (TC on its last datagram, entries missing)
    pk0 = prog.cls(OUT).methods['packets']
    pcfg = cfg_of(pk0.node)
    fin = [n for n in pcfg.nodes if n.kind == 'stmt' and any(self_attr(t, pk0.params[0]) == 'state' and isinstance(st, ast.Assign) and norm(st.value) != '0' for t, st in attr_stores(n.ast))]
    writers = [n for n in pcfg.nodes if any(call_name(c).startswith(('_write_', '_insert_', 'write_')) or call_name(c) in ('_reset_for_next_packet',) for c in n.calls())]
    early = [(f_, w_) for f_ in fin for w_ in writers if pcfg.can_reach(f_, w_)]
    unmarked = None
    if fin and writers:
        for w_ in writers:
            unmarked = unmarked or pcfg.path_avoiding(w_, lambda n: n is pcfg.exit, lambda n: n in fin)
    obs.append(ob(R, pk0, (unmarked[-2].ast if unmarked and len(unmarked) > 1 and unmarked[-2].ast is not None else (fin[0].ast if fin else 'self.state = STATE_FINISHED')), 'once something has been written, every normal way out of packets() marks the message finished (a later call returns the same sequence instead of building on top of it)', bool(fin) and unmarked is None, 'a path returns after writing without setting the finished mark' if unmarked else ''))
    obs.append(ob(R, pk0, fin[0].ast if fin else 'self.state = STATE_FINISHED', 'the finished mark is set after the last write (no writer can run -- and raise -- once it is set)', bool(fin) and not early, f'a writer at line {early[0][1].line} can run after the message was marked finished at line {early[0][0].line}' if early else ''))
    # every section is written from its first entry: the four offsets start at 0
    from .common import local_defs as _ld14

    d14 = _ld14(pk0)
    off_names = sorted({norm(a.target) for a in walk_local_ordered(pk0.node) if isinstance(a, ast.AugAssign) and isinstance(a.target, ast.Name) and 'offset' in a.target.id})
    starts = {n_: [prog.try_fold(pk0.module, v) for v in d14.get(n_, []) if v is not None][:1] for n_ in off_names}
    obs.append(ob(R, pk0, f'{", ".join(off_names)} = 0', 'every section is written out from its first entry (the offsets start at 0)', len(off_names) == 4 and all(v == [(True, 0)] for v in starts.values()), str(starts)))
    # a message that was already built is handed out as it is: nothing is written again, nothing is appended to the sequence
    sme14 = pk0.params[0]
    for finished in (True, False):
        st_atoms = {norm(t.ast): finished for t in pcfg.nodes if t.kind == 'test' and t.ast is not None and 'state' in norm(t.ast) and not t.in_loop}
        if not st_atoms:
            raise AnalysisError('anchor vanished: the already-finished test of packets()')
        oc_f, _ = fd.run_paths(prog, pk0.module, pcfg, st_atoms, lambda n, e: ['WRITE' for c in fd.node_calls(n, e) if call_name(c).startswith(('_write_', '_insert_')) or call_name(c) == 'append'], loop_bound=1)
        wrote = {('WRITE' in strip_ret(t)) for t in oc_f}
        obs.append(ob(R, pk0, f'packets() on a message that {"was already built" if finished else "has not been built"}', 'the stored sequence is returned untouched' if finished else 'the datagrams are built', wrote == ({False} if finished else {True}), f'writes on the paths: {sorted(wrote)}'))
    # one trip of the packet loop as a table over (entries remain?, anything written?): the datagram of the trip is handed out
    # exactly once; the builder is reset for the next datagram -- and the loop goes round -- exactly when entries remain and
    # the trip made progress; with entries remaining but no progress the loop is left (no endless sequence of empty datagrams);
    # with nothing remaining it ends without a reset
    lt = [n for n in pcfg.nodes if n.kind == 'loop_test']
    if len(lt) != 1:
        raise AnalysisError('anchor vanished: the packet loop of packets()')
    prog_defs = [st_ for st_ in walk_local_ordered(pk0.node) if isinstance(st_, ast.Assign) and isinstance(st_.targets[0], ast.Name) and isinstance(st_.value, ast.Call) and norm(st_.value.func) == 'bool' and st_.value.args and self_attr(st_.value.args[0], pk0.params[0]) == 'data']
    for more in (True, False):
        for progress in (True, False):
            atoms_t = {'._has_more_to_add()': more, '.is_query()': True, '.multicast': True}
            # (the remaining-entries test, whether a helper call or spelled out, is what the loop variable is assigned in the loop)
            if isinstance(lt[0].ast, ast.Name):
                for st_ in walk_local_ordered(pk0.node):
                    if isinstance(st_, ast.Assign) and isinstance(st_.targets[0], ast.Name) and st_.targets[0].id == lt[0].ast.id and not (isinstance(st_.value, ast.Constant)):
                        atoms_t[norm(st_.value)] = more
            if prog_defs:
                atoms_t[norm(prog_defs[0].value)] = progress

            def eff_t(n: Any, e: Any) -> List[Any]:
                out_ = []
                for c in fd.node_calls(n, e):
                    if call_name(c) == 'append' and isinstance(c.func, ast.Attribute) and ('packets' in norm(c.func.value)):
                        out_.append('HANDOUT')
                    if call_name(c) == '_reset_for_next_packet':
                        out_.append('RESET')
                if n in fin:
                    out_.append('FIN')
                return out_

            oc_t, und_t = fd.run_paths(prog, pk0.module, pcfg, atoms_t, eff_t, start=lt[0], stop=lambda n: n is lt[0], init_locals={norm(lt[0].ast): True} if isinstance(lt[0].ast, ast.Name) else None, loop_bound=1)
            got_t = {tuple(x for x in strip_ret(t) if x in ('HANDOUT', 'RESET', 'FIN')) for t in oc_t}
            # (a trip that neither resets nor finishes has come back to the loop test with nothing remaining: the loop ends there)
            # (with `while True` the loop is left by a break, straight to the finished mark)
            ends_at_test = not (isinstance(lt[0].ast, ast.Constant) and lt[0].ast.value is True)
            want_t = {('HANDOUT', 'RESET')} if (more and progress) else ({('HANDOUT',) if ends_at_test else ('HANDOUT', 'FIN')} if progress else {('HANDOUT', 'FIN')})
            obs.append(ob(R, pk0, f'one datagram built: entries remain={more}, something was written={progress}', f'effects {sorted(want_t)[0]}', bool(prog_defs) and got_t == want_t, f'got {sorted(got_t)}; tests left open (logging): {und_t}'))
    return obs


@rule('C14.TC', 'D', expect_min=4)
def tc(ctx: Any) -> List[Ob]:
    """The TC flag is set on a datagram iff more entries remain and the message is a
    query (responses never set it); the id is 0 iff multicast."""
    R = 'C14.TC'
    prog = ctx.prog
    out = prog.cls(OUT)
    pk = out.methods['packets']
    me = pk.params[0]
    tcbit = prog.const('zeroconf.const', '_FLAGS_TC')
    obs: List[Ob] = [ob(R, pk, f'_FLAGS_TC = {tcbit:#x}', 'TC is bit 0x0200 of the flags', tcbit == 0x0200)]

    def eff(node: Any, evl: Any) -> List[Any]:
        res = []
        for c in node.calls():
            if call_name(c) == '_insert_short_at_start' and c.args:
                # by value: the message's flags are FL (no TC bit), its id the symbol ID; what is written is FL, FL | TC, 0 or ID
                v = evl.ev(c.args[0])
                if isinstance(v, int) and not isinstance(v, bool) and (v & ~tcbit) == FL and FL != 0:
                    res.append('FLAGS|TC' if v & tcbit else 'FLAGS')
                elif v == 0 and not isinstance(v, bool) and isinstance(v, int):
                    res.append('ID:0')
                elif v == IDSYM:
                    res.append(f'ID:{me}.id')
        return res

    FL = 0x8400 & ~tcbit
    IDSYM = fd.Sym('ID')

    offs = _section_offsets(pk)
    # what remains is stated per section: every test `offset < len(self.<list>)` and every one-expression helper over such
    # tests that packets() evaluates gets its value from the scenario
    probes = [n for n in walk_local_ordered(pk.node) if isinstance(n, (ast.Compare, ast.Call)) and _remains_value(prog, pk, n, set(), offs) is not None]
    if not probes:
        raise AnalysisError('packets(): no test of the form `offset < len(self.<section list>)` found')
    for remain in ([], ['questions'], ['answers'], ['authorities'], ['additionals']):
        more = bool(remain)
        for query in (True, False):
            for mc in (True, False):
                atoms = {'.is_query()': query, f'{me}.multicast': mc, f'{me}.state': 0, 'LOGGING_IS_ENABLED_FOR()': False, '.data': [b'x'], f'{me}.flags': FL, f'{me}.id': IDSYM}
                for n in probes:
                    atoms[norm(n)] = _remains_value(prog, pk, n, set(remain), offs)
                oc, und = traces(ctx, pk, atoms, eff, loop_bound=1)
                first = set()
                for t in oc:
                    seq = [x for x in strip_ret(t) if isinstance(x, str)]
                    first.add(tuple(seq[:2]))
                want = ('FLAGS|TC' if (more and query) else 'FLAGS', 'ID:0' if mc else f'ID:{me}.id')
                obs.append(ob(R, pk, f'remaining={remain or None} query={query} multicast={mc}', f'flags word {want[0]}, id {want[1]}', first == {want}, f'got {sorted(first)}'))
    return obs


@rule('C14.ROLLBACK', 'N', expect_min=4)
def rollback14(ctx: Any) -> List[Ob]:
    """An entry that does not fit is removed without trace (data, size, compression table), so the
    datagrams of a split message stay well formed (same rule as C01.ROLLBACK)."""
    from .c01 import rollback as rb

    out = rb.fn(ctx)
    for o in out:
        o.rule = 'C14.ROLLBACK'
    return out


EXPLANATION = (
    'C14.ACCOUNT (decided): byte widths of everything appended to a packet are derived from the Struct formats / len(value) and must '
    'equal the size increments on every path; header = six shorts = 12 pre-counted bytes. C14.LIMIT (decided): decision table of the '
    'size check over allow_long x size at the boundaries 1460/1461/8966/8967; sender drop above 8966. C14.SECTIONS (decided): four-way '
    'consistency of count variable, header slot, offset and list per section; writers count after success and stop at the first failure. '
    'C14.TC (decided): TC iff more remains and the message is a query; id 0 iff multicast. Not decided: actual byte sizes [X].'
)
RULES = [account, limit, sections, tc, rollback14]

"""C20 -- record identity: equal records hash equal; case, TTL and flush bit ignored."""
from __future__ import annotations

import ast
from typing import Any, Dict, List, Optional, Set, Tuple

from sa import AnalysisError, StructuralViolation
from sa.pm import ClassInfo, FuncInfo, NotConst, norm, self_attr, walk_local_ordered, call_name
from sa.cf import cfg_of
from sa.report import Ob, rule

from .common import attr_stores, first_param, ob, single_return_expr

R = 'C20.CONGRUENCE'

# Identity sets stated by the property (RFC 6762 record identity): name (case-
# insensitively), type, class and rdata; PTR target and SRV target host
# case-insensitively; IPv6 scope included.  One row per record kind.
BASE = {'key', 'type', 'class_'}
IDENTITY: Dict[str, Set[str]] = {
    'DNSQuestion': set(BASE),
    'DNSAddress': BASE | {'address', 'scope_id'},
    'DNSHinfo': BASE | {'cpu', 'os'},
    'DNSPointer': BASE | {'alias_key'},
    'DNSText': BASE | {'text'},
    'DNSService': BASE | {'priority', 'weight', 'port', 'server_key'},
    'DNSNsec': BASE | {'next_name', 'rdtypes'},
}
NEVER = {'ttl', 'created', 'unique'}
LOWERED_TWINS = {'key': 'name', 'alias_key': 'alias', 'server_key': 'server'}


def _eq_fields(ctx: Any, cls: ClassInfo, f: FuncInfo, depth: int = 0) -> Tuple[Set[str], List[str], List[str]]:
    """Fields compared between self and other in the boolean return expression
    of `f`; also isinstance guards seen; also unclassified conjuncts."""
    if depth > 4:
        raise AnalysisError(f'{f.where()}: equality helper chain too deep')
    me = first_param(f)
    params = f.params
    other = params[1] if len(params) > 1 else None
    expr = single_return_expr(f)
    fields: Set[str] = set()
    guards: List[str] = []
    odd: List[str] = []

    def conj(e: ast.AST) -> None:
        if isinstance(e, ast.BoolOp) and isinstance(e.op, ast.And):
            for v in e.values:
                conj(v)
            return
        if isinstance(e, ast.Compare) and len(e.ops) == 1 and isinstance(e.ops[0], ast.Eq):
            a, b = e.left, e.comparators[0]
            fa, fb = self_attr(a, me), self_attr(b, other or '')
            if fa is None and fb is None:
                fa, fb = self_attr(b, me), self_attr(a, other or '')
            if fa is not None and fb is not None and fa == fb:
                fields.add(fa)
                return
            odd.append(norm(e))
            return
        if isinstance(e, ast.Call):
            fn = e.func
            if isinstance(fn, ast.Name) and fn.id == 'isinstance' and len(e.args) == 2 and norm(e.args[0]) == other:
                r = ctx.prog.resolve_expr(f.module, e.args[1])
                guards.append(r[1].full if r and r[0] == 'class' else norm(e.args[1]))
                return
            if (
                isinstance(fn, ast.Attribute)
                and isinstance(fn.value, ast.Name)
                and fn.value.id == me
                and len(e.args) == 1
                and norm(e.args[0]) == other
            ):
                helper = cls.find_method(fn.attr)
                if helper is None:
                    odd.append(norm(e))
                    return
                hf, hg, ho = _eq_fields(ctx, cls, helper, depth + 1)
                fields.update(hf)
                guards.extend(hg)
                odd.extend(ho)
                return
        odd.append(norm(e))

    conj(expr)
    return fields, guards, odd


def _init_chain_fields(ctx: Any, cls: ClassInfo) -> Tuple[Dict[str, Tuple[str, ast.AST, FuncInfo]], Dict[str, str]]:
    """Walk K.__init__ and the super().__init__ chain.  Returns
    (field -> (kind, value expr, function)) for every `self.F = ...` store and
    (param name of K.__init__ -> field it is stored into *unchanged*)."""
    stores: Dict[str, Tuple[str, ast.AST, FuncInfo]] = {}
    top_param_to_field: Dict[str, str] = {}

    def walk(c: ClassInfo, init: FuncInfo, binding: Dict[str, Optional[str]], depth: int) -> None:
        # binding: param of this __init__ -> name of the top-level param it carries unchanged (or None)
        if depth > 6:
            raise AnalysisError('init chain too deep')
        me = first_param(init)
        for st in walk_local_ordered(init.node):
            if isinstance(st, (ast.Assign, ast.AnnAssign)):
                tgts = st.targets if isinstance(st, ast.Assign) else [st.target]
                val = st.value
                for t in tgts:
                    fa = self_attr(t, me)
                    if fa is None or val is None:
                        continue
                    stores[fa] = ('store', val, init)
                    if isinstance(val, ast.Name) and binding.get(val.id):
                        top_param_to_field.setdefault(binding[val.id], fa)  # type: ignore[arg-type]
            elif isinstance(st, ast.Call):
                fn = st.func
                # super().__init__(...)
                if (
                    isinstance(fn, ast.Attribute)
                    and fn.attr == '__init__'
                    and isinstance(fn.value, ast.Call)
                    and norm(fn.value.func) == 'super'
                ):
                    base_init = None
                    base_cls = None
                    for b in c.mro()[1:]:
                        if '__init__' in b.methods:
                            base_init, base_cls = b.methods['__init__'], b
                            break
                    if base_init is None:
                        continue
                    bparams = base_init.params[1:]
                    nb: Dict[str, Optional[str]] = {}
                    for i, a in enumerate(st.args):
                        if i < len(bparams):
                            nb[bparams[i]] = binding.get(a.id) if isinstance(a, ast.Name) else None
                    for kw in st.keywords:
                        if kw.arg:
                            nb[kw.arg] = binding.get(kw.value.id) if isinstance(kw.value, ast.Name) else None
                    walk(base_cls, base_init, nb, depth + 1)  # type: ignore[arg-type]
                # self._helper(param)  e.g. _set_class
                elif isinstance(fn, ast.Attribute) and isinstance(fn.value, ast.Name) and fn.value.id == me:
                    helper = c.find_method(fn.attr)
                    if helper is not None and fn.attr != '__init__':
                        hp = helper.params[1:]
                        nb = {}
                        for i, a in enumerate(st.args):
                            if i < len(hp):
                                nb[hp[i]] = binding.get(a.id) if isinstance(a, ast.Name) else None
                        walk(c, helper, nb, depth + 1)

    init = cls.find_method('__init__')
    if init is None:
        raise AnalysisError(f'{cls.full} has no __init__')
    walk(cls, init, {p: p for p in init.params[1:]}, 0)
    return stores, top_param_to_field


def _hash_fields(ctx: Any, cls: ClassInfo) -> Tuple[Set[str], List[str], Optional[ast.AST]]:
    init = cls.methods.get('__init__')
    if init is None:
        raise AnalysisError(f'{cls.full}: no own __init__ (stored hash expected there)')
    me = first_param(init)
    stores, p2f = _init_chain_fields(ctx, cls)
    hexpr = None
    for st in walk_local_ordered(init.node):
        if isinstance(st, ast.Assign) and any(self_attr(t, me) == '_hash' for t in st.targets):
            hexpr = st.value
    if hexpr is None:
        raise StructuralViolation(init.module.rel, init.qual, 'self._hash = hash((...))', f'{cls.name} computes and stores the hash that __hash__ returns', 'no `self._hash = ...` store in __init__: __hash__ returns a value that is never set')
    from .common import inline_helpers

    hexpr = inline_helpers(ctx.prog, init, hexpr)  # `self._identity_hash(a, b)` -> the tuple hash the helper computes
    if not (isinstance(hexpr, ast.Call) and norm(hexpr.func) == 'hash' and len(hexpr.args) == 1 and isinstance(hexpr.args[0], ast.Tuple)):
        raise AnalysisError(f'{cls.full}.__init__: `_hash` is not hash((...tuple...)): {norm(hexpr)}')
    fields: Set[str] = set()
    odd: List[str] = []
    # a local that is stored into a field as it is (`k = x.lower(); self.k = k; ... hash((..., k))`) stands for that field
    from .common import local_defs as _ld20

    ldefs = _ld20(init)
    p2f = dict(p2f)
    for st in walk_local_ordered(init.node):
        if isinstance(st, ast.Assign) and len(st.targets) == 1 and self_attr(st.targets[0], me) and isinstance(st.value, ast.Name) and st.value.id not in init.params and len(ldefs.get(st.value.id, [])) == 1:
            p2f.setdefault(st.value.id, st.targets[0].attr)
    for el in hexpr.args[0].elts:
        if isinstance(el, ast.Starred):
            el = el.value
        fa = self_attr(el, me)
        if fa is not None:
            fields.add(fa)
        elif isinstance(el, ast.Name) and el.id in p2f:
            fields.add(p2f[el.id])
        else:
            odd.append(norm(el))
    return fields, odd, hexpr


@rule(R, 'D', expect_min=40)
def congruence(ctx: Any) -> List[Ob]:
    """For DNSQuestion and the six record classes: the fields compared by __eq__
    equal the fields hashed into the stored hash equal the identity set the
    property states; __eq__ is guarded by isinstance of the class itself;
    __hash__ returns the stored hash; hashed fields are written only during
    construction; class is stored masked; case-insensitive name fields are the
    lowered twins; ttl / created / unique take part in neither."""
    prog = ctx.prog
    obs: List[Ob] = []
    rec = prog.cls('zeroconf._dns.DNSRecord')
    entry = prog.cls('zeroconf._dns.DNSEntry')
    classes = [prog.cls('zeroconf._dns.DNSQuestion')] + sorted(rec.all_subclasses(), key=lambda c: c.name)
    ctx.counters['record_classes'] = [c.name for c in classes]
    if len(classes) < 7:
        raise AnalysisError(f'expected DNSQuestion + 6 record classes, found {[c.name for c in classes]}')
    all_identity_fields: Set[str] = set()
    for c in classes:
        if c.name not in IDENTITY:
            obs.append(ob(R, c, f'class {c.name}', 'a record kind must have an identity row in the oracle table (new record class without stated identity)', False))
            continue
        want = IDENTITY[c.name]
        all_identity_fields |= want
        # record kinds must not derive from one another (isinstance would then equate kinds)
        others = [b for b in c.mro()[1:] if b in classes]
        obs.append(ob(R, c, f'class {c.name}({", ".join(norm(b) for b in c.base_exprs)})', 'record kinds do not derive from one another', not others, f'derives from {[b.name for b in others]}' if others else ''))
        eqf = c.methods.get('__eq__')
        if eqf is None:
            obs.append(ob(R, c, f'class {c.name}', '__eq__ is defined by the class itself', False, 'inherited __eq__'))
            continue
        E, guards, odd = _eq_fields(ctx, c, eqf)
        obs.append(ob(R, eqf, single_return_expr(eqf), f'__eq__ is guarded by isinstance(other, {c.name}) exactly', guards == [c.full], f'guards: {guards}'))
        obs.append(ob(R, eqf, single_return_expr(eqf), '__eq__ is a conjunction of same-field comparisons (nothing else decides equality)', not odd, f'unclassified conjuncts: {odd}' if odd else ''))
        H, hodd, hexpr = _hash_fields(ctx, c)
        init = c.methods['__init__']
        obs.append(ob(R, init, hexpr, 'every element of the hashed tuple is an identity field stored unchanged', not hodd, f'not a stored field: {hodd}' if hodd else ''))
        obs.append(ob(R, eqf, f'E({c.name}) = {sorted(E)}', f'fields compared by __eq__ = identity set {sorted(want)}', E == want, f'missing {sorted(want - E)} extra {sorted(E - want)}' if E != want else ''))
        obs.append(ob(R, init, f'H({c.name}) = {sorted(H)}', f'fields hashed = identity set {sorted(want)}', H == want, f'missing {sorted(want - H)} extra {sorted(H - want)}' if H != want else ''))
        obs.append(ob(R, init, f'E = {sorted(E)} ; H = {sorted(H)}', 'equal records hash equal: H is a subset of E (and E = H)', H <= E and E == H, f'hashed but not compared: {sorted(H - E)}; compared but not hashed: {sorted(E - H)}' if E != H else ''))
        bad = (E | H) & NEVER
        obs.append(ob(R, c, f'{c.name}: E|H = {sorted(E | H)}', 'ttl, created and the cache-flush/QU bit take no part in identity', not bad, f'{sorted(bad)} takes part' if bad else ''))
        hf = c.methods.get('__hash__')
        ok = False
        if hf is not None:
            try:
                ok = self_attr(single_return_expr(hf), first_param(hf)) == '_hash'
            except AnalysisError:
                ok = False
        obs.append(ob(R, hf or c, '__hash__', '__hash__ is defined next to __eq__ and returns the stored hash', ok))
        # lowered twins
        stores, _ = _init_chain_fields(ctx, c)
        for low, raw in LOWERED_TWINS.items():
            if low not in want:
                continue
            st = stores.get(low)
            good = False
            txt = f'self.{low} = ?'
            if st is not None:
                from .common import expand as _xp20

                v = _xp20(st[2], st[1]) if isinstance(st[2], FuncInfo) else st[1]  # read through a local that names the value
                txt = f'self.{low} = {norm(v)}'
                good = (
                    isinstance(v, ast.Call)
                    and isinstance(v.func, ast.Attribute)
                    and v.func.attr == 'lower'
                    and not v.args
                    and raw in stores
                    and norm(v.func.value) == norm(stores[raw][1])
                )
            obs.append(ob(R, (st[2] if st else init), txt, f'`{low}` is the lower-cased twin of `{raw}` (case-insensitive identity)', good))
    # class_ stored masked, unique derived from the top bit
    sc = entry.find_method('_set_class')
    if sc is None:
        raise AnalysisError('anchor vanished: DNSEntry._set_class')
    me = first_param(sc)
    mask_ok = uniq_ok = False
    for t, st in attr_stores(sc.node):
        if self_attr(t, me) == 'class_' and isinstance(st, ast.Assign) and isinstance(st.value, ast.BinOp) and isinstance(st.value.op, ast.BitAnd):
            for side in (st.value.left, st.value.right):
                okf, v = prog.try_fold(sc.module, side)
                if okf and v == 0x7FFF:
                    mask_ok = True
        if self_attr(t, me) == 'unique' and isinstance(st, ast.Assign):
            v = st.value
            if isinstance(v, ast.Compare) and len(v.ops) == 1 and isinstance(v.ops[0], ast.NotEq):
                sides = [v.left, v.comparators[0]]
                band = [x for x in sides if isinstance(x, ast.BinOp) and isinstance(x.op, ast.BitAnd)]
                zero = [x for x in sides if prog.try_fold(sc.module, x) == (True, 0)]
                if len(band) == 1 and len(zero) == 1:
                    bits = [prog.try_fold(sc.module, s) for s in (band[0].left, band[0].right)]
                    uniq_ok = any(b[0] and b[1] == 0x8000 for b in bits)
    obs.append(ob(R, sc, 'self.class_ = class_ & _CLASS_MASK', 'class is stored with the top (flush/QU) bit masked off (0x7FFF), so the bit cannot leak into identity', mask_ok))
    obs.append(ob(R, sc, 'self.unique = class_ & _CLASS_UNIQUE != 0', 'the flush/QU flag is exactly the top bit (0x8000) of the wire class', uniq_ok))
    # immutability of hashed fields: written only in the construction chain
    allowed: Set[str] = set()
    for c in classes + [entry, rec]:
        for nm in ('__init__', '_set_class'):
            if nm in c.methods:
                allowed.add(c.methods[nm].full)
    watch = all_identity_fields | {'_hash'}
    n_sites = 0
    entry_family = {entry} | set(entry.all_subclasses())
    for f in prog.functions.values():
        for t, st in attr_stores(f.node):
            if t.attr not in watch:
                continue
            # receiver class
            recv_classes: List[str] = []
            if isinstance(t.value, ast.Name) and f.cls is not None and f.params and t.value.id == f.params[0]:
                recv_classes = [f.cls.full]
            else:
                td = ctx.ty.type_of(f.module.name, t.value)
                recv_classes = ctx.ty.inst_names(td)
                if not recv_classes:
                    recv_classes = ['?']
            fam = [rc for rc in recv_classes if rc == '?' or (rc in prog.classes and prog.classes[rc] in entry_family)]
            if not fam:
                continue
            n_sites += 1
            ok = f.full in allowed
            obs.append(ob(R, f, st, f'identity field `{t.attr}` of a record is written only during construction (else the stored hash goes stale)', ok, '' if ok else f'receiver may be {fam}'))
    ctx.counters['identity_field_store_sites'] = n_sites
    return obs


@rule('C20.ONECOPY', 'N', expect_min=2)
def onecopy(ctx: Any) -> List[Ob]:
    """Identity is what keys the cache: every keyed store of records (Dict[DNSRecord, DNSRecord]) writes the record
    under itself and drops an equal key first, so each index holds exactly one object per identity and a later copy
    that differs only in TTL, creation time or flush bit replaces the earlier one in every index (the same
    obligations as C05.KV, here for the clause `the same record - for the cache`)."""
    from .c05 import kv_obligations, lookups as _lookups

    obs = kv_obligations(ctx, 'C20.ONECOPY')
    # ... and the store it is written into is the index bucket of its key -- the one every lookup reads (a record put into a
    # dictionary that is no longer, or not yet, linked from the index is invisible to the record it should have replaced)
    for o in _lookups.fn(ctx):
        if 'is stored in' in o.statement:
            o.rule = 'C20.ONECOPY'
            obs.append(o)
    # `Questions are identified by case-insensitive name, type and class`, for the one map that is keyed by questions: the
    # duplicate-question history.  Every key it is stored or looked up under is the question itself (so its own hash and
    # equality -- the congruence tables -- decide) or is built from lower-cased parts; a key built from the name as spelled makes
    # the same question in another spelling a different entry
    from sa.ky import Lowered, key_sites

    low = Lowered(ctx)
    qh = ctx.prog.cls('zeroconf._history.QuestionHistory')
    n_keys = 0
    for f in sorted(qh.methods.values(), key=lambda g: g.name):
        me = f.params[0] if f.params else 'self'
        for d, k, how in key_sites(f, lambda e, me=me: self_attr(e, me) == '_history'):
            n_keys += 1
            td = ctx.ty.type_of(f.module.name, k)
            names = ctx.ty.inst_names(td) if td else []
            if any(n_.endswith('.DNSQuestion') or n_.endswith('.DNSEntry') for n_ in names):
                obs.append(ob('C20.ONECOPY', f, k, f'the history is keyed ({how}) by the question itself: its hash and equality decide', True))
                continue
            loop_vars = {t.id for lp in walk_local_ordered(f.node) if isinstance(lp, ast.For) for t in ast.walk(lp.target) if isinstance(t, ast.Name)}
            if isinstance(k, ast.Name) and k.id in loop_vars:
                obs.append(ob('C20.ONECOPY', f, k, f'the key ({how}) is one the history already holds (taken from an iteration over its own keys)', True))
                continue
            parts = list(k.elts) if isinstance(k, ast.Tuple) else [k]
            bad = []
            for part in parts:
                tdp = ctx.ty.type_of(f.module.name, part)
                if tdp and tdp[0] == 'inst' and tdp[1] in ('builtins.int', 'builtins.bool'):
                    continue
                okl, whyl = low.is_lowered(f, part)
                if not okl:
                    bad.append(f'`{norm(part)}`: {whyl}')
            obs.append(ob('C20.ONECOPY', f, k, f'a history key ({how}) that is not the question itself is built from lower-cased text and numbers only', not bad, '; '.join(bad)[:300]))
    if n_keys < 2:
        raise AnalysisError(f'anchor vanished: keyed accesses to QuestionHistory._history (found {n_keys})')
    # `the same record ... for duplicate removal in replies`: the routines that take duplicates out of what is sent decide by
    # identity alone (membership, pop by key, ==) -- they neither read a TTL / creation time / flush bit nor go through the
    # known-answer predicates, which compare TTLs (a goodbye copy, TTL 0, must still purge the queued full-TTL copy)
    dedupers = [
        ctx.prog.func('zeroconf._handlers.multicast_outgoing_queue.MulticastOutgoingQueue._remove_answers_from_queue'),
        ctx.prog.func('zeroconf._handlers.answers._add_answers_additionals'),
    ]
    for d_ in dedupers:
        reads = sorted({x.attr for x in ast.walk(d_.node) if isinstance(x, ast.Attribute) and x.attr in ('ttl', 'created', 'unique') and isinstance(x.ctx, ast.Load)})
        preds = sorted({call_name(c) for c in ast.walk(d_.node) if isinstance(c, ast.Call) and call_name(c) in ('suppresses', 'suppressed_by', '_suppressed_by_answer', 'is_stale', 'is_expired', 'is_recent', 'get_remaining_ttl', 'DNSRRSet')})
        obs.append(ob('C20.ONECOPY', d_, f'{d_.name}: duplicates by identity', 'duplicates are taken out of a reply by record identity alone (no TTL, creation time or flush bit is consulted)', not reads and not preds, f'reads {reads}; predicates {preds}'))
    return obs


RAW_CASE_EXEMPT = {
    # (function qual): reason -- a site that compares spellings on purpose and is not an identity decision
    'DNSQuestion.answered_by': 'a matching predicate of the public API (does this record answer the question), not record identity; left as the library defines it',
    'DNSCache.current_entry_with_name_and_alias': 'conflict detection compares the proposed instance name with the cached pointer target as spelled (C09 quantifies over the same spelling)',
}
_SPELLED = {'name', 'alias', 'server'}  # NSEC next_name is rdata compared as spelled (the property lower-cases only owner, PTR target and SRV target)


@rule('C20.SCOPE', 'N', expect_min=2)
def scope(ctx: Any) -> List[Ob]:
    """`IPv6 scope included`: the scope id is part of the identity of an address record, so it must be a property of the
    RECORD, not of the socket a copy arrived on: wherever the library constructs a DNSAddress, a scope is passed only for
    an AAAA record; an A record is built without one (else the same A record received over the IPv6 socket and over the
    IPv4 socket, or built locally, are different records)."""
    R = 'C20.SCOPE'
    prog = ctx.prog
    init = prog.cls('zeroconf._dns.DNSAddress').find_method('__init__')
    ps = init.params[1:]
    if 'scope_id' not in ps or 'type_' not in ps:
        raise AnalysisError('anchor vanished: DNSAddress.__init__(…, type_, …, scope_id, …)')
    obs: List[Ob] = []
    for f in prog.functions.values():
        for c in walk_local_ordered(f.node):
            if not (isinstance(c, ast.Call) and call_name(c) == 'DNSAddress'):
                continue
            bound = {ps[i]: a for i, a in enumerate(c.args) if i < len(ps)}
            bound.update({k.arg: k.value for k in c.keywords if k.arg})
            sc = bound.get('scope_id')
            if sc is None or (isinstance(sc, ast.Constant) and sc.value is None):
                obs.append(ob(R, f, c, 'no scope is attached to the record built here', True))
                continue
            # a scope is passed: the record must be an AAAA record at this point
            okt, tv = prog.try_fold(f.module, bound['type_']) if 'type_' in bound else (False, None)
            is_aaaa = okt and tv == 28
            if not is_aaaa:
                cfg = cfg_of(f.node)
                host = next((n for n in cfg.nodes if any(x is c for x in n.calls())), None)
                tt = norm(bound['type_']) if 'type_' in bound else '?'
                for t in cfg.nodes:
                    if host is not None and t.kind == 'test' and isinstance(t.ast, ast.Compare) and len(t.ast.ops) == 1 and isinstance(t.ast.ops[0], ast.Eq) and cfg.dominates(t, host):
                        sides = [t.ast.left, t.ast.comparators[0]]
                        if any(norm(x) == tt for x in sides) and any(prog.try_fold(f.module, x) == (True, 28) for x in sides) and all(s_ is host or cfg.dominates(s_, host) for s_, lab in t.succ if lab is True):
                            is_aaaa = True
            obs.append(ob(R, f, c, 'a scope id is attached only to AAAA records', is_aaaa, '' if is_aaaa else f'`{norm(sc)}` is attached to a record that is not known to be AAAA here (an A record would get the scope of the receiving socket)'))
    return obs


@rule('C20.CASE', 'N', expect_min=1)
def case(ctx: Any) -> List[Ob]:
    """Identity decisions never go through a name as spelled: in the classes that decide whether two records are the same
    record (the record classes, the known-answer set, the cache, the question history) no equality / membership test and
    no set or dict key is built from `.name`, `.alias` or `.server` -- only from the lower-cased twins
    (`key`, `alias_key`, `server_key`) or from whole records.  A pre-filter on the spelled name in front of a hash lookup
    makes records that are equal (and hash equal) distinct again for that consumer."""
    R = 'C20.CASE'
    prog = ctx.prog
    scope_classes = [c for c in prog.classes.values() if c.full.startswith('zeroconf._dns.') or c.full in ('zeroconf._cache.DNSCache', 'zeroconf._history.QuestionHistory')]
    obs: List[Ob] = []
    n_funcs = 0
    for c in sorted(scope_classes, key=lambda x: x.full):
        for f in c.methods.values():
            if f.name in ('__repr__', '__str__', 'to_string', '_entry_to_string', 'write') or f.name.startswith('__repr'):
                continue
            n_funcs += 1
            sites = []
            for n in walk_local_ordered(f.node):
                if isinstance(n, ast.Compare) and any(isinstance(o, (ast.Eq, ast.NotEq, ast.In, ast.NotIn)) for o in n.ops):
                    for x in [n.left] + list(n.comparators):
                        if isinstance(x, ast.Attribute) and x.attr in _SPELLED:
                            sites.append((n, x))
                elif isinstance(n, (ast.SetComp, ast.DictComp)):
                    k = n.elt if isinstance(n, ast.SetComp) else n.key
                    if isinstance(k, ast.Attribute) and k.attr in _SPELLED:
                        sites.append((n, k))
                elif isinstance(n, ast.Call) and isinstance(n.func, ast.Attribute) and n.func.attr in ('add', 'setdefault', 'get', 'pop', 'discard') and n.args and isinstance(n.args[0], ast.Attribute) and n.args[0].attr in _SPELLED:
                    sites.append((n, n.args[0]))
                elif isinstance(n, ast.Subscript) and isinstance(n.slice, ast.Attribute) and n.slice.attr in _SPELLED:
                    sites.append((n, n.slice))
            for n, x in sites:
                why = RAW_CASE_EXEMPT.get(f.qual)
                obs.append(ob(R, f, n, 'identity is decided on lower-cased keys, never on a name as spelled' if why is None else f'spelling compared on purpose: {why}', why is not None, f'`{norm(x)}` is the name as spelled; records whose names differ only in case are the same record'))
    obs.append(ob(R, ('src/zeroconf/_dns.py', '<identity consumers>'), f'{n_funcs} methods of the record classes, DNSRRSet, DNSCache and QuestionHistory', 'no further use of a spelled name as a comparison operand or container key', True))
    return obs


EXPLANATION = (
    'C20.CONGRUENCE (decided structurally): for DNSQuestion and each of the six record classes the set of fields '
    'compared by __eq__ (through _eq and _dns_entry_matches), the set of fields hashed into the stored _hash and the '
    "identity set the property states are extracted from the AST and must be equal; isinstance guards, __hash__, "
    'masking of the class field, lower-cased twins and construction-only writes of hashed fields are checked. '
    'This decides the property for all pairs of records under assumption A1 (builtin hash/eq congruence). '
    'C20.ONECOPY (necessary): the cache indexes hold one object per identity (an equal key is dropped before the store). '
    'C20.CASE (necessary): the identity consumers (record classes, known-answer set, cache, question history) never compare or key on a name as spelled.'
)
RULES = [congruence, onecopy, scope, case]

"""C08 -- withdrawn services stay withdrawn: complete goodbyes, no resurrection."""
from __future__ import annotations

import ast
from typing import Any, Dict, List, Optional, Set, Tuple

from sa import AnalysisError
from sa import fd
from sa.cf import cfg_of
from sa.pm import FuncInfo, call_name, norm, self_attr, walk_local_ordered
from sa.report import Ob, rule

from .common import attr_stores, ob, strip_ret, traces

ZC = 'zeroconf._core.Zeroconf'
BUILDERS = {'dns_pointer': 'PTR', 'dns_service': 'SRV', 'dns_text': 'TXT', 'get_address_and_nsec_records': 'ADDR+NSEC'}


@rule('C08.GOODBYE', 'N', expect_min=10)
def goodbye(ctx: Any) -> List[Ob]:
    """Goodbye completeness: the one function that fills announcements and goodbyes
    adds PTR, SRV, TXT and (unless the host is shared) address+NSEC records and
    threads its override TTL into every builder; unregistering removes the
    service from the registry before asking whether another service still uses
    the host, passes TTL 0 and that answer on; goodbyes are sent three times."""
    R = 'C08.GOODBYE'
    prog = ctx.prog
    zc = prog.cls(ZC)
    obs: List[Ob] = []
    f = zc.methods['_add_broadcast_answer']
    me, p_out, p_info, p_ttl, p_addr = f.params[:5]
    aliases = {p_ttl}

    def is_ttl(v: ast.AST) -> bool:
        """the override TTL itself, a local that holds it, or an identity spelled as a conditional
        (`None if ttl is None else ttl`)"""
        if isinstance(v, ast.Name):
            return v.id in aliases
        if isinstance(v, ast.IfExp) and isinstance(v.test, ast.Compare) and len(v.test.ops) == 1 and is_ttl(v.test.left) and norm(v.test.comparators[0]) == 'None':
            if isinstance(v.test.ops[0], ast.Is):
                return norm(v.body) == 'None' and is_ttl(v.orelse)
            if isinstance(v.test.ops[0], ast.IsNot):
                return norm(v.orelse) == 'None' and is_ttl(v.body)
        return False

    for st in walk_local_ordered(f.node):
        if isinstance(st, ast.Assign) and isinstance(st.targets[0], ast.Name) and is_ttl(st.value):
            aliases.add(st.targets[0].id)
    seen: Dict[str, ast.Call] = {}
    for c in walk_local_ordered(f.node):
        if isinstance(c, ast.Call) and call_name(c) in BUILDERS and isinstance(c.func, ast.Attribute) and norm(c.func.value) == p_info:
            seen[call_name(c)] = c
    for b, lab in BUILDERS.items():
        c = seen.get(b)
        threaded = False
        if c is not None:
            arg = (c.args[0] if c.args else next((k.value for k in c.keywords if k.arg == 'override_ttl'), None))
            threaded = arg is not None and is_ttl(arg)
        obs.append(ob(R, f, c if c is not None else f'{p_info}.{b}(...)', f'the {lab} record is added with the override TTL (0 for a goodbye)', c is not None and threaded, '' if c is not None else 'builder not called'))

    def eff(node: Any, evl: Any) -> List[Any]:
        return [BUILDERS[call_name(c)] for c in fd.node_calls(node, evl) if call_name(c) in BUILDERS]

    for addr in (True, False):
        oc, und = traces(ctx, f, {p_addr: addr}, eff, loop_bound=1, for_iter=lambda n, e: True)
        got = {frozenset(strip_ret(t)) for t in oc}
        want = {'PTR', 'SRV', 'TXT'} | ({'ADDR+NSEC'} if addr else set())
        obs.append(ob(R, f, f'broadcast_addresses={addr}', f'records added: {sorted(want)}', got == {frozenset(want)}, f'got {[sorted(x) for x in got]}'))
    # every record obtained is actually added
    adds = [c for c in walk_local_ordered(f.node) if isinstance(c, ast.Call) and call_name(c) == 'add_answer_at_time']
    obs.append(ob(R, f, f'{len(adds)} x out.add_answer_at_time(...)', 'each of the four kinds is added to the message', len(adds) == 4 and all(norm(c.func.value) == p_out for c in adds)))
    # ... with its TTL as it stands: the time handed to the message is 0 (`no ageing`); any other value makes the writer store
    # the remaining lifetime relative to that instant instead of the TTL of the record (0 for a goodbye)
    bad_t = [c for c in adds if not (len(c.args) == 2 and prog.try_fold(f.module, c.args[1])[0] and prog.try_fold(f.module, c.args[1])[1] == 0)]
    obs.append(ob(R, f, bad_t[0] if bad_t else 'out.add_answer_at_time(record, 0)', 'announcement and goodbye records are written with their own TTL (time argument 0), not aged against a clock value', bool(adds) and not bad_t))
    # single source of announcements/goodbyes
    for g in zc.methods.values():
        if g is f or g.name == 'generate_service_query':
            continue
        direct = [c for c in walk_local_ordered(g.node) if isinstance(c, ast.Call) and call_name(c) in BUILDERS and isinstance(c.func, ast.Attribute)]
        fills = [c for c in walk_local_ordered(g.node) if isinstance(c, ast.Call) and call_name(c) in ('add_answer_at_time', 'add_answer', 'add_additional_answer', 'add_authorative_answer')]
        if direct and fills:
            obs.append(ob(R, g, direct[0], 'announcements and goodbyes are filled only by _add_broadcast_answer', False))
    # unregister: removal precedes the shared-host lookup; ttl 0 and the answer are passed on
    u = zc.methods['async_unregister_service']
    cfg = cfg_of(u.node)
    rem = cfg.nodes_calling('async_remove')
    look = cfg.nodes_calling('async_get_infos_server')
    obs.append(ob(R, u, 'self.registry.async_remove(info) ... self.registry.async_get_infos_server(...)', 'the service is removed from the registry before checking whether another service uses its host (else its addresses are never withdrawn)', bool(rem) and bool(look) and all(cfg.dominated_by_any(l, rem) for l in look)))
    bc = [c for c in walk_local_ordered(u.node) if isinstance(c, ast.Call) and call_name(c) == '_async_broadcast_service']
    ok_bc = False
    if len(bc) == 1 and len(bc[0].args) == 4:
        ttl_ok = prog.try_fold(u.module, bc[0].args[2]) == (True, 0)
        from .common import expand as _xp

        # the flag, read through the locals that name it: `not <entries>` / `not bool(<entries>)` where <entries> is the
        # registry's look-up by the service's server key
        d0 = _xp(u, bc[0].args[3])
        neg = isinstance(d0, ast.UnaryOp) and isinstance(d0.op, ast.Not)
        src0 = None
        if neg:
            inner = d0.operand
            src0 = inner.args[0] if isinstance(inner, ast.Call) and norm(inner.func) == 'bool' and len(inner.args) == 1 else inner
        ok_bc = bool(ttl_ok and neg and isinstance(src0, ast.Call) and call_name(src0) == 'async_get_infos_server' and src0.args and norm(src0.args[0]).endswith('server_key'))
    obs.append(ob(R, u, bc[0] if bc else '_async_broadcast_service', 'the goodbye is broadcast with TTL 0, with addresses exactly when no other registered service uses the host', ok_bc))
    # broadcast loop count and argument threading
    b = zc.methods['_async_broadcast_service']
    k = prog.const('zeroconf._core', '_REGISTER_BROADCASTS')
    loops = [n for n in walk_local_ordered(b.node) if isinstance(n, ast.For)]
    ok_l = k == 3 and len(loops) == 1 and isinstance(loops[0].iter, ast.Call) and norm(loops[0].iter.func) == 'range' and norm(loops[0].iter.args[0]) == '_REGISTER_BROADCASTS'
    gen = [c for c in ast.walk(b.node) if isinstance(c, ast.Call) and call_name(c) == 'generate_service_broadcast']
    ok_l = ok_l and len(gen) == 1 and [norm(a) for a in gen[0].args] == [b.params[1], b.params[3], b.params[4]]
    sends = [c for c in ast.walk(loops[0]) if isinstance(c, ast.Call) and call_name(c) == 'async_send'] if loops else []
    obs.append(ob(R, b, 'for i in range(_REGISTER_BROADCASTS): ... self.async_send(self.generate_service_broadcast(info, ttl, broadcast_addresses))', 'the broadcast is sent three times with the TTL and address choice it was given', ok_l and len(sends) == 1))
    gsb = zc.methods['generate_service_broadcast']
    call = [c for c in walk_local_ordered(gsb.node) if isinstance(c, ast.Call) and call_name(c) == '_add_broadcast_answer']
    obs.append(ob(R, gsb, call[0] if call else '_add_broadcast_answer', 'the TTL and address choice reach the record builders', len(call) == 1 and [norm(a) for a in call[0].args[1:]] == gsb.params[1:4]))
    # `removes the service from the registry`: whatever description object the caller passes, a registered name is taken out of
    # the service table and both indexes (the removal table of C03.INDEX) -- else the host keeps answering for a service it has
    # just said goodbye for
    from .c03 import index as _c03_index

    for o in _c03_index.fn(ctx):
        if str(o.construct).startswith('removal of a name that is') or 'un-index a service is read from the registered entry' in o.statement:
            o.rule = R
            obs.append(o)
    # what is purged from the outgoing queues is what is said goodbye to: the address / NSEC records join the withdrawn set under
    # the very condition that puts them into the goodbye
    if bc and len(bc[0].args) == 4:
        addr_var = norm(bc[0].args[3])
        wd = [c for c in walk_local_ordered(u.node) if isinstance(c, ast.Call) and call_name(c) == 'get_address_and_nsec_records']
        cfg_u = cfg_of(u.node)
        ok_w = bool(wd)
        why_w = '' if wd else 'the address / NSEC records of the service are never withdrawn from the queues'
        for w in wd:
            wn = [n for n in cfg_u.nodes if any(c is w for c in n.calls())]
            tests = [t for t in cfg_u.nodes if t.kind == 'test' and norm(t.ast) == addr_var]
            neg = [t for t in cfg_u.nodes if t.kind == 'test' and isinstance(t.ast, ast.UnaryOp) and isinstance(t.ast.op, ast.Not) and norm(t.ast.operand) == addr_var]
            if not wn or not (any(cfg_u.only_through_edge(t, True, wn[0]) for t in tests) or any(cfg_u.only_through_edge(t, False, wn[0]) for t in neg)):
                ok_w, why_w = False, f'`{norm(w)[:60]}` is not reached exactly when `{addr_var}` holds'
        obs.append(ob(R, u, wd[0] if wd else 'withdrawn.update(info.get_address_and_nsec_records())', 'the records withdrawn from the outgoing queues include the address / NSEC records exactly when the goodbye carries them', ok_w, why_w))
    # unregister all
    ga = zc.methods['generate_unregister_all_services']
    cfg_g = cfg_of(ga.node)
    fills = cfg_g.nodes_calling('_add_broadcast_answer')
    rems = [n for n in cfg_g.nodes if any(call_name(c) == 'async_remove' and any(isinstance(x, ast.Attribute) and self_attr(x, ga.params[0]) == 'registry' for x in ast.walk(c.func)) for c in n.calls())]
    snap = [st for st in walk_local_ordered(ga.node) if isinstance(st, ast.Assign) and isinstance(st.value, ast.Call) and call_name(st.value) == 'async_get_service_infos']
    same = bool(rems) and bool(snap) and all(any(norm(c.args[0]) == norm(snap[0].targets[0]) for c in n.calls() if call_name(c) == 'async_remove' and c.args) for n in rems)
    unavoid = bool(fills) and bool(rems) and all(cfg_g.path_avoiding(fl, lambda n: n is cfg_g.exit, lambda n: n in rems) is None for fl in fills)
    obs.append(ob(R, ga, rems[0].ast if rems else 'self.registry.async_remove(service_infos)', 'every service the closing goodbye is built for is removed from the registry before the routine returns (else it is still answered for after its goodbye)', same and unavoid, '' if rems else 'no registry removal'))
    if snap:
        sv = norm(snap[0].targets[0])

        def eff_g(node: Any, evl: Any) -> List[Any]:
            return ['FILL' for c in fd.node_calls(node, evl) if call_name(c) == '_add_broadcast_answer']

        oc_some, und_s = traces(ctx, ga, {sv: ['svc']}, eff_g, loop_bound=1, for_iter=lambda n, e: True)
        oc_none, und_n = traces(ctx, ga, {sv: []}, eff_g, loop_bound=1, for_iter=lambda n, e: False)
        some_ok = bool(oc_some) and all('FILL' in t and not any(isinstance(x, tuple) and x[0] == 'ret' and x[1] is None for x in t) for t in oc_some)
        none_ok = bool(oc_none) and all('FILL' not in t and any(isinstance(x, tuple) and x[0] == 'ret' and x[1] is None for x in t) for t in oc_none)
        obs.append(ob(R, ga, snap[0], 'with services registered the closing routine returns their goodbye message; with none it returns nothing', some_ok and none_ok and not und_s and not und_n, f'registered: {sorted(map(str, oc_some))[:2]}; none: {sorted(map(str, oc_none))[:2]}; undecided {und_s + und_n}'))
    obs.append(closing_goodbye_obligation(ctx, R))
    ua = zc.methods['async_unregister_all_services']
    loops = [n for n in walk_local_ordered(ua.node) if isinstance(n, ast.For)]
    ok_u = len(loops) == 1 and isinstance(loops[0].iter, ast.Call) and norm(loops[0].iter.args[0]) == '_REGISTER_BROADCASTS' and any(isinstance(c, ast.Call) and call_name(c) == 'async_send' for c in ast.walk(loops[0]))
    obs.append(ob(R, ua, 'for i in range(_REGISTER_BROADCASTS): ... self.async_send(out)', 'the closing goodbye is sent three times', ok_u))
    # the address / NSEC goodbyes are copies of the set the service hands out for its host (shared with C03.ADDRNSEC)
    from .c03 import address_set_obligations

    obs.extend(address_set_obligations(ctx, R))
    return obs


def closing_goodbye_obligation(ctx: Any, R: str) -> Ob:
    """At close every registered service is withdrawn with TTL 0, its own address and NSEC records included (address sets and
    the NSEC record are per service, also when services share a host name)."""
    prog = ctx.prog
    ga = prog.cls(ZC).methods['generate_unregister_all_services']
    call = [c for c in walk_local_ordered(ga.node) if isinstance(c, ast.Call) and call_name(c) == '_add_broadcast_answer']
    ok_a = len(call) == 1 and prog.try_fold(ga.module, call[0].args[2]) == (True, 0) if call and len(call[0].args) >= 3 else False
    why = ''
    if ok_a and len(call[0].args) + len(call[0].keywords) > 3:
        extra = (list(call[0].args[3:]) + [k.value for k in call[0].keywords])[0]
        okx, vx = prog.try_fold(ga.module, extra)
        if not (okx and vx is True):
            ok_a = False
            why = f'the address / NSEC records are added conditionally (`{norm(extra)[:60]}`)'
    return ob(R, ga, call[0] if call else '_add_broadcast_answer', 'closing withdraws every service with TTL 0, addresses included', ok_a, why)


def _deferred_stores(ctx: Any) -> Dict[str, str]:
    """Zeroconf attribute -> class, for attributes holding a container of AnswerGroup."""
    prog = ctx.prog
    out: Dict[str, str] = {}
    owners = []
    for c in prog.classes.values():
        init = c.methods.get('__init__')
        if init is None:
            continue
        for st in walk_local_ordered(init.node):
            if isinstance(st, ast.AnnAssign) and st.annotation is not None and 'AnswerGroup' in norm(st.annotation):
                owners.append(c)
    zi = prog.func(ZC + '.__init__')
    for st in walk_local_ordered(zi.node):
        if isinstance(st, ast.Assign) and isinstance(st.value, ast.Call) and isinstance(st.targets[0], ast.Attribute):
            r = prog.resolve_expr(zi.module, st.value.func)
            if r and r[0] == 'class' and r[1] in owners:
                out[st.targets[0].attr] = r[1].full
    return out


def _purge_methods(ctx: Any, cls_full: str) -> List[FuncInfo]:
    """Methods that drop queued answers without sending them."""
    c = ctx.prog.cls(cls_full)
    out = []
    for f in c.methods.values():
        me = f.params[0] if f.params else 'self'
        sends = any(isinstance(x, ast.Call) and call_name(x) == 'async_send' for x in walk_local_ordered(f.node))
        drops = False
        for x in walk_local_ordered(f.node):
            if isinstance(x, ast.Call) and isinstance(x.func, ast.Attribute):
                if x.func.attr in ('pop', 'clear') and isinstance(x.func.value, ast.Attribute) and x.func.value.attr == 'answers':
                    drops = True
                if x.func.attr == 'clear' and self_attr(x.func.value, me) == 'queue':
                    drops = True
            if isinstance(x, ast.Delete) and any('answers' in norm(t) for t in x.targets):
                drops = True
        if drops and not sends:
            out.append(f)
    return out


@rule('C08.PURGE', 'N', expect_min=2)
def purge(ctx: Any) -> List[Ob]:
    """Withdrawal purges deferred answers: every function that removes services
    from the registry must afterwards, on all paths, drop the answers still
    waiting in each outgoing queue (else an answer queued up to 1.2 s earlier is
    multicast with a positive TTL after the last goodbye)."""
    R = 'C08.PURGE'
    prog = ctx.prog
    obs: List[Ob] = []
    stores = _deferred_stores(ctx)
    ctx.counters['deferred_answer_stores'] = stores
    if len(stores) < 2:
        raise AnalysisError(f'expected the two outgoing queues, found {stores}')
    purgers: Set[str] = set()
    for cf in set(stores.values()):
        purgers |= {f.full for f in _purge_methods(ctx, cf)}
    rem = prog.func('zeroconf._services.registry.ServiceRegistry.async_remove')
    sites = [s for s in ctx.cg.callers_of(rem) if s.caller.cls is None or s.caller.cls.full != 'zeroconf._services.registry.ServiceRegistry']
    if not sites:
        raise AnalysisError('anchor vanished: call sites of ServiceRegistry.async_remove')
    for s in sites:
        f = s.caller
        cfg = cfg_of(f.node)
        node = next(n for n in cfg.nodes if any(c is s.node for c in n.calls()))
        covered: Dict[int, Set[str]] = {}

        def stores_purged_by(call_site: Any, depth: int = 0) -> Set[str]:
            """queue attributes purged by executing this call (directly or through a helper of the same class)."""
            got: Set[str] = set()
            c = call_site.node
            if any(t.full in purgers for t in call_site.targets):
                recv = c.func.value if isinstance(c.func, ast.Attribute) else None
                if recv is not None:
                    for a in stores:
                        if any(isinstance(x, ast.Attribute) and x.attr == a for x in ast.walk(recv)):
                            got.add(a)
                    if isinstance(recv, ast.Name):
                        # loop variable over a tuple of queues
                        for lp in walk_local_ordered(call_site.caller.node):
                            if isinstance(lp, ast.For) and isinstance(lp.target, ast.Name) and lp.target.id == recv.id:
                                for a in stores:
                                    if any(isinstance(x, ast.Attribute) and x.attr == a for x in ast.walk(lp.iter)):
                                        got.add(a)
            elif depth < 2:
                for t in call_site.targets:
                    if t.cls is not None and t.cls is call_site.caller.cls:
                        for s2 in ctx.cg.sites_in(t):
                            got |= stores_purged_by(s2, depth + 1)
            return got

        purge_nodes: Dict[str, List[Any]] = {a: [] for a in stores}
        for n in cfg.nodes:
            for cs in ctx.cg.sites_in(f):
                if any(c is cs.node for c in n.calls()):
                    for a in stores_purged_by(cs):
                        purge_nodes[a].append(n)
        for a in sorted(stores):
            w = cfg.must_pass_before_exit(node, lambda n, a=a: n in purge_nodes[a])
            obs.append(ob(R, f, s.node, f'after the registry removal every path drops the answers still queued in `{a}`', w is None, f'answers queued in `{a}` survive the withdrawal and are multicast with their normal TTL after the last goodbye' if w is not None else ''))
    from .c12 import purge_covers_all

    obs.extend(purge_covers_all(ctx, R))
    # the records to purge are walked once per queue (and per pending group): whatever a withdrawal hands to the purge helpers
    # must be re-iterable, else the second queue is purged with an exhausted iterator
    from .common import iteration_weight, one_shot_sources, param_may_be_iterator

    n_multi = 0
    for root in {s.caller for s in sites}:
        for g in ctx.cg.closure([root], include_deferred=False):
            for p in g.params[1:] if g.cls is not None else g.params:
                w8, where = iteration_weight(g, p)
                if w8 < 2 or not param_may_be_iterator(prog, g, p):
                    continue
                n_multi += 1
                for cs in ctx.cg.callers_of(g):
                    idx = g.params.index(p) - (1 if g.cls is not None and isinstance(cs.node.func, ast.Attribute) else 0)
                    arg = cs.node.args[idx] if 0 <= idx < len(cs.node.args) else next((k.value for k in cs.node.keywords if k.arg == p), None)
                    if arg is None:
                        continue
                    src = one_shot_sources(cs.caller, arg)
                    obs.append(ob(R, cs.caller, cs.node, f'`{p}` of {g.name} is iterated more than once per call (line {getattr(where[0], "lineno", 0)}), so the argument must be re-iterable', not src, f'`{norm(src[0])[:70]}` is a one-shot iterator: it is exhausted after the first pass' if src else ''))
    if n_multi == 0:
        raise AnalysisError('anchor vanished: no purge helper iterates its records more than once (expected: once per queue)')
    # a description that is registered again starts from rebuilt records: its record memos are dropped on every path of the
    # clearing routine the registry calls before inserting (shared with C03.MEMO)
    from .c03 import memo_clear_obligations

    obs.extend(memo_clear_obligations(ctx, R))
    return obs


@rule('C08.COMPLETE', 'N', expect_min=3)
def complete(ctx: Any) -> List[Ob]:
    """The blocking API returns only after the whole sequence has been transmitted.  The async register / update /
    unregister routines hand back the broadcast task (announcements or goodbyes run in the background); every blocking
    wrapper must wait for that task as well (sibling agreement: they all go through await_awaitable), else the caller
    can close the instance after the first goodbye and the remaining two are dropped by the closed gate."""
    R = 'C08.COMPLETE'
    prog = ctx.prog
    zc = prog.cls(ZC)
    obs: List[Ob] = []
    background = {}
    for n, f in zc.methods.items():
        if f.is_async and any(isinstance(r, ast.Return) and isinstance(r.value, ast.Call) and call_name(r.value) in ('ensure_future', 'create_task') for r in walk_local_ordered(f.node)):
            background[n] = f
    if len(background) < 3:
        raise AnalysisError(f'anchor vanished: async routines that return their broadcast task (found {sorted(background)})')
    for n, f in sorted(zc.methods.items()):
        if f.is_async:
            continue
        for c in walk_local_ordered(f.node):
            if isinstance(c, ast.Call) and call_name(c) == 'run_coro_with_timeout' and c.args:
                inner = c.args[0]
                direct = isinstance(inner, ast.Call) and call_name(inner) in background
                wrapped = isinstance(inner, ast.Call) and call_name(inner) == 'await_awaitable' and inner.args and isinstance(inner.args[0], ast.Call) and call_name(inner.args[0]) in background
                if direct or wrapped:
                    tgt = call_name(inner if direct else inner.args[0])
                    obs.append(ob(R, f, c, f'{n}() blocks until the broadcast task returned by {tgt} has finished (all three transmissions made)', wrapped, f'the task returned by {tgt} is not awaited: {n}() returns before the sequence has been transmitted' if direct else ''))
    # the blocking `withdraw everything` runs the async routine to its end (close() relies on it: C17.GOODBYE)
    ua = zc.methods.get('unregister_all_services')
    if ua is None:
        raise AnalysisError('anchor vanished: Zeroconf.unregister_all_services')
    uacfg = cfg_of(ua.node)
    runs = [n for n in uacfg.nodes if any(call_name(c) == 'run_coro_with_timeout' and c.args and isinstance(c.args[0], ast.Call) and call_name(c.args[0]) == 'async_unregister_all_services' for c in n.calls())]
    byp_ua = uacfg.must_pass_before_exit(uacfg.entry, lambda n: n in runs) if runs else [uacfg.entry]
    obs.append(ob(R, ua, runs[0].ast if runs else 'run_coro_with_timeout(self.async_unregister_all_services(), ...)', 'unregister_all_services() blocks until async_unregister_all_services has run (on every path)', bool(runs) and byp_ua is None))
    # the async closing routines wait for the goodbye sequence itself: the coroutine that withdraws every service is the
    # direct operand of an `await`.  Handed to a wrapper that can cancel it (wait_for, a timeout scope, shield-less gather
    # with a deadline) the sequence is cut short whenever it takes longer than the quiet 250 ms -- a registration that
    # completes during the goodbyes makes it go round again -- and the remaining goodbyes are never sent
    parents: Dict[int, ast.AST] = {}
    sites = 0
    for cls_full in (ZC, 'zeroconf.asyncio.AsyncZeroconf'):
        for n, f in sorted(prog.cls(cls_full).methods.items()):
            if not f.is_async:
                continue
            for a in ast.walk(f.node):
                for ch in ast.iter_child_nodes(a):
                    parents[id(ch)] = a
            for c in walk_local_ordered(f.node):
                if isinstance(c, ast.Call) and call_name(c) == 'async_unregister_all_services':
                    sites += 1
                    par = parents.get(id(c))
                    scope = [a for a in _ancestors(parents, c) if isinstance(a, (ast.AsyncWith, ast.With)) and any(isinstance(x, ast.Call) and call_name(x) in ('timeout', 'timeout_at', 'wait_for', 'move_on_after', 'fail_after') for it in a.items for x in ast.walk(it.context_expr))]
                    obs.append(ob(R, f, par if par is not None else c, f'{n}() awaits the goodbye sequence itself (no deadline that can cancel it part-way)', isinstance(par, ast.Await) and not scope, f'the coroutine is handed to `{norm(par.func) if isinstance(par, ast.Call) else type(par).__name__}`' if not isinstance(par, ast.Await) else ('under a timeout scope' if scope else '')))
    if sites < 1:
        raise AnalysisError('anchor vanished: an async closing routine that calls async_unregister_all_services')
    # the asyncio front-end is a thin wrapper: each of its service routines awaits the routine of the same name on the wrapped
    # instance with the arguments it was given, on every path, and hands back what it got (the broadcast task)
    az = prog.cls('zeroconf.asyncio.AsyncZeroconf')
    for wn in ('async_register_service', 'async_unregister_service', 'async_update_service', 'async_unregister_all_services'):
        wm = az.methods.get(wn)
        if wm is None:
            raise AnalysisError(f'anchor vanished: AsyncZeroconf.{wn}')
        wcfg_ = cfg_of(wm.node)
        dele = [n for n in wcfg_.nodes if any(isinstance(x, ast.Await) and isinstance(x.value, ast.Call) and call_name(x.value) == wn and isinstance(x.value.func, ast.Attribute) and self_attr(x.value.func.value, wm.params[0]) == 'zeroconf' and (not wm.params[1:2] or (x.value.args and norm(x.value.args[0]) == wm.params[1])) for e in n.exprs() for x in ast.walk(e))]
        byp_d = wcfg_.must_pass_before_exit(wcfg_.entry, lambda n: n in dele) if dele else [wcfg_.entry]
        returns_it = wn == 'async_unregister_all_services' or all(n.kind == 'return' for n in dele)
        obs.append(ob(R, wm, dele[0].ast if dele else f'await self.zeroconf.{wn}(...)', f'AsyncZeroconf.{wn} awaits the wrapped instance\'s {wn} with the description it was given, on every path' + ('' if wn == 'async_unregister_all_services' else ', and returns its result'), bool(dele) and byp_d is None and returns_it))
    return obs


def _ancestors(parents: Dict[int, ast.AST], n: ast.AST) -> List[ast.AST]:
    out = []
    while id(n) in parents:
        n = parents[id(n)]
        out.append(n)
    return out


@rule('C08.REVALIDATE', 'N', expect_min=1)
def revalidate(ctx: Any) -> List[Ob]:
    """An announcement in flight does not outlive the registration: the broadcast task sleeps between transmissions, and
    while it sleeps the service may be unregistered (its goodbyes take 250 ms, the announcements 450 ms).  After every
    suspension, a transmission of the service's records with their normal TTL must be preceded by a fresh look at the
    registry (goodbye copies -- override TTL 0 -- are exempt)."""
    R = 'C08.REVALIDATE'
    prog = ctx.prog
    zc = prog.cls(ZC)
    obs: List[Ob] = []
    for n, f in sorted(zc.methods.items()):
        if not f.is_async:
            continue
        gen = [c for c in walk_local_ordered(f.node) if isinstance(c, ast.Call) and call_name(c) == 'generate_service_broadcast']
        if not gen:
            continue
        me = f.params[0]
        ttl_args = {norm(c.args[1]) for c in gen if len(c.args) > 1}
        ttl_p = next((p for p in f.params if p in ttl_args), None)

        def eff(node: Any, evl: Any, me: str = me) -> List[Any]:
            out = []
            if any(isinstance(c.func, ast.Attribute) and any(isinstance(x, ast.Attribute) and self_attr(x, me) == 'registry' for x in ast.walk(c.func)) for c in fd.node_calls(node, evl)):
                out.append('REGISTRY')  # a registry lookup that is actually evaluated (short-circuit aware)
            if any(isinstance(x, ast.Await) for e in node.exprs() for x in ast.walk(e)):
                out.append('SUSPEND')
            if any(call_name(c) == 'async_send' for c in node.calls()):
                out.append('SEND')
            return out

        atoms = {ttl_p: None} if ttl_p else {}
        oc, und = traces(ctx, f, atoms, eff, loop_bound=2, for_iter=lambda nd, e: True)
        bad = []
        for t in oc:
            seq = [x for x in strip_ret(t)]
            for i, x in enumerate(seq):
                if x == 'SEND' and 'SUSPEND' in seq[:i]:
                    last = max(j for j in range(i) if seq[j] == 'SUSPEND')
                    if 'REGISTRY' not in seq[last:i]:
                        bad.append(tuple(seq))
                        break
        obs.append(ob(R, f, gen[0], f'{n}: after each wait the task checks that the service is still registered before it transmits the records with their normal TTL', bool(oc) and not bad, f'effect sequence {bad[0]}: an announcement can follow the goodbyes of a service unregistered while the task slept' if bad else ''))
        # the re-check is about THIS service object: the entry found under the name is compared with it by identity (the name
        # may have been registered again by another object -- a restart on a new port -- whose own task announces it)
        info_p = next((p_ for p_ in f.params[1:] if p_ in {norm(c.args[0]) for c in gen if c.args}), None)
        cmps = [t for t in walk_local_ordered(f.node) if isinstance(t, ast.Compare) and any(isinstance(x, ast.Attribute) and self_attr(x, me) == 'registry' for x in ast.walk(t))]
        ident = [t for t in cmps if len(t.ops) == 1 and isinstance(t.ops[0], (ast.Is, ast.IsNot)) and any(isinstance(x, ast.Name) and x.id == info_p for x in [t.left] + list(t.comparators))]
        # membership of the object among the registered ones is the same test as long as a service description does not define
        # its own equality (list / set membership then falls back to identity)
        si = prog.cls('zeroconf._services.info.ServiceInfo')
        if not any('__eq__' in c_.methods for c_ in si.mro()):
            ident += [t for t in cmps if len(t.ops) == 1 and isinstance(t.ops[0], (ast.In, ast.NotIn)) and isinstance(t.left, ast.Name) and t.left.id == info_p]
        obs.append(ob(R, f, cmps[0] if cmps else gen[0], f'{n}: the registry entry is compared with the service object being announced (`is` / `is not`), not merely tested for presence', bool(ident), '' if ident else 'the guard only tests that SOME service is registered under the name: after a re-registration by another object the old task keeps announcing the withdrawn records'))
        # decision table of the broadcast task over (goodbye copy or normal TTL) x (this object still registered): goodbyes are
        # always transmitted in full -- the service has just been removed from the registry, that is what a goodbye is -- and an
        # announcement is transmitted in full exactly while the object stays registered
        if ttl_p and cmps:
            def count_iter(node: Any, evl: Any) -> Any:
                it = node.ast.iter
                if isinstance(it, ast.Call) and norm(it.func) == 'range' and len(it.args) == 1 and isinstance(node.ast.target, ast.Name):
                    k = evl.ev(it.args[0])
                    cur = evl.locals.get(node.ast.target.id)
                    if isinstance(k, int):
                        return (0 if not isinstance(cur, int) else cur + 1) < k
                return None

            def eff_send(node: Any, evl: Any) -> List[Any]:
                return ['SEND' for c in fd.node_calls(node, evl) if call_name(c) == 'async_send']

            want_n = prog.const('zeroconf._core', '_REGISTER_BROADCASTS')
            for goodbye_copy in (True, False):
                for registered in (True, False):
                    atoms_t: Dict[str, Any] = {ttl_p: 0 if goodbye_copy else None}
                    for t in cmps:
                        if len(t.ops) == 1:
                            atoms_t[norm(t)] = (not registered) if isinstance(t.ops[0], (ast.IsNot, ast.NotIn, ast.NotEq)) else registered
                    oc_t, und_t = traces(ctx, f, atoms_t, eff_send, loop_bound=want_n + 2, for_iter=count_iter)
                    sends = sorted({sum(1 for x in t if x == 'SEND') for t in oc_t})
                    want = [want_n] if (goodbye_copy or registered) else [0]
                    obs.append(ob(R, f, f'{n}: {"goodbye copies (TTL 0)" if goodbye_copy else "normal TTL"}, service object {"still" if registered else "no longer"} registered', f'the records are transmitted {want[0]} times', sends == want and not und_t, f'transmissions on the feasible paths: {sends}; undecided {und_t}'))
    if not obs:
        raise AnalysisError('anchor vanished: coroutine that broadcasts a service')
    return obs


@rule('C08.GATE', 'D', expect_min=2)
def gate(ctx: Any) -> List[Ob]:
    """Nothing is transmitted after close (same rule as C17.GATE)."""
    from .c17 import gate as g

    out = g.fn(ctx)
    for o in out:
        o.rule = 'C08.GATE'
    return out


EXPLANATION = (
    'C08.GOODBYE (necessary condition): the single function that fills announcements and goodbyes calls all four record builders and '
    'threads the override TTL into each (argument flow); unregistering removes before the shared-host lookup, passes TTL 0; three '
    'broadcasts. C08.PURGE (necessary): containers of deferred answers are discovered by type; every caller of the registry removal '
    'must afterwards on all paths reach a queue-purging method for each container. C08.GATE (decided): C17.GATE. Not decided: the '
    'trace-level statement over all interleavings [X].'
)
EXPLANATION_ADDENDUM = (
    ' C08.COMPLETE (necessary): each blocking wrapper waits for the broadcast task its async routine returns (sibling agreement). C08.REVALIDATE (necessary): after every suspension the broadcast task looks the service up in the registry before it transmits records with their normal TTL. C08.PURGE also requires the purge to visit every queued group and every record, and whatever is handed to a multi-pass helper to be re-iterable.'
)
EXPLANATION = EXPLANATION + EXPLANATION_ADDENDUM

RULES = [goodbye, purge, complete, revalidate, gate]

"""C05 -- record cache: all lookup paths agree with an RFC 6762 section 10 model."""
from __future__ import annotations

import ast
from typing import Any, Dict, List, Optional, Set, Tuple

from sa import AnalysisError
from sa import fd, lf
from sa.cf import cfg_of
from sa.ky import Lowered, key_sites
from sa.pm import FuncInfo, call_name, norm, self_attr, walk_local_ordered
from sa.report import Ob, rule

from .common import local_defs, attr_stores, ob, receiver_classes, single_return_expr, strip_ret, traces

CACHE = 'zeroconf._cache.DNSCache'
REC = 'zeroconf._dns.DNSRecord'
INDEXES = ('cache', 'service_cache')


def _resolve_alias(f: FuncInfo, e: ast.AST) -> str:
    """Normalised text of e with single-assignment local aliases substituted."""
    if isinstance(e, ast.Name):
        defs = [st.value for st in walk_local_ordered(f.node) if isinstance(st, ast.Assign) and len(st.targets) == 1 and isinstance(st.targets[0], ast.Name) and st.targets[0].id == e.id]
        if len(defs) == 1:
            return norm(defs[0])
    return norm(e)


def _record_dict_stores(ctx: Any) -> List[Tuple[FuncInfo, ast.Assign, ast.Subscript]]:
    """Every `d[k] = v` in the package where d : Dict[DNSRecord, DNSRecord]."""
    out = []
    for f in ctx.prog.functions.values():
        for st in walk_local_ordered(f.node):
            if not isinstance(st, ast.Assign):
                continue
            for t in st.targets:
                if isinstance(t, ast.Subscript):
                    td = ctx.ty.type_of(f.module.name, t.value)
                    if td and td[0] == 'inst' and td[1] == 'builtins.dict' and len(td[2]) == 2:
                        k, v = td[2]
                        if k and v and k[0] == 'inst' and v[0] == 'inst' and k[1] == REC and v[1] == REC:
                            out.append((f, st, t))
    return out


@rule('C05.KV', 'N', expect_min=2)
def kv(ctx: Any) -> List[Ob]:
    """Key-is-value invariant of the record stores (Dict[DNSRecord, DNSRecord]):
    some readers return the key object, others the value object, so they agree
    for all histories only if every write keeps key and value the same object.
    Each store d[k] = v must have k and v the same expression, and on every
    path to it either the key is known absent or the old entry is dropped first
    (CPython keeps the OLD key object when an equal key is overwritten)."""
    return kv_obligations(ctx, 'C05.KV')


def kv_obligations(ctx: Any, R: str) -> List[Ob]:
    obs: List[Ob] = []
    for f, st, t in _record_dict_stores(ctx):
        same = norm(t.slice) == norm(st.value)
        obs.append(ob(R, f, st, 'key and value of the stored entry are the same object', same))
        cfg = cfg_of(f.node)
        node = next((n for n in cfg.nodes if n.ast is st), None)
        if node is None:
            raise AnalysisError(f'{f.where()}: store not found in CFG')
        dtext = _resolve_alias(f, t.value)
        ktext = norm(t.slice)

        def drops(n: Any) -> bool:
            a = n.ast
            if n.kind != 'stmt':
                return False
            for x in walk_local_ordered(a):
                if isinstance(x, ast.Delete):
                    for tg in x.targets:
                        if isinstance(tg, ast.Subscript) and _resolve_alias(f, tg.value) == dtext and norm(tg.slice) == ktext:
                            return True
                if isinstance(x, ast.Call) and isinstance(x.func, ast.Attribute) and x.func.attr == 'pop' and x.args and _resolve_alias(f, x.func.value) == dtext and norm(x.args[0]) == ktext:
                    return True
            return False

        # membership atoms: assume the key IS present; every feasible path to the store must drop it first
        atoms: Dict[str, Any] = {}
        for x in walk_local_ordered(f.node):
            if isinstance(x, ast.Compare) and len(x.ops) == 1 and isinstance(x.ops[0], (ast.In, ast.NotIn)) and norm(x.left) == ktext and _resolve_alias(f, x.comparators[0]) == dtext:
                atoms[norm(x)] = isinstance(x.ops[0], ast.In)

        def eff(n: Any, evl: Any) -> List[Any]:
            if n is node:
                return ['STORE']
            return ['DROP'] if drops(n) else []

        oc, _ = traces(ctx, f, atoms, eff)
        bad = [tr for tr in oc if 'STORE' in tr and 'DROP' not in tr[: tr.index('STORE')]]
        obs.append(ob(R, f, st, 'an equal key already present is dropped before the store (else the stale key object survives and purge / by-key readers see the old created/ttl)', not bad, 'overwrite of a possibly-present key keeps the old key object' if bad else ''))
    return obs


def index_shape_obligations(ctx: Any, R: str) -> List[Ob]:
    """Every index of the record cache maps its key to a *collection* of records (a keyed store per name / per host):
    several records legitimately share an owner name, a target host or an instance name (a type and its subtypes point at
    the same instance), so an index that keeps a single record per key silently loses all but the last one -- and the
    removal of one drops the entry for the others."""
    prog = ctx.prog
    cache = prog.cls(CACHE)
    init = cache.methods['__init__']
    me = init.params[0]
    recs = {c.name for c in prog.classes.values() if c.full.startswith('zeroconf._dns.')}
    obs: List[Ob] = []
    for st in walk_local_ordered(init.node):
        if not (isinstance(st, ast.AnnAssign) and self_attr(st.target, me)):
            continue
        ann = st.annotation
        if isinstance(ann, ast.Name) and ann.id in init.module.assigns:
            ann = init.module.assigns[ann.id]  # a module-level type alias
        if isinstance(ann, ast.Constant) and isinstance(ann.value, str):
            try:
                ann = ast.parse(ann.value, mode='eval').body
            except SyntaxError:
                continue
        if not (isinstance(ann, ast.Subscript) and norm(ann.value).split('.')[-1] in ('Dict', 'dict', 'DefaultDict', 'OrderedDict') and isinstance(ann.slice, ast.Tuple) and len(ann.slice.elts) == 2):
            continue
        k, v = ann.slice.elts
        mentions_records = any(isinstance(x, ast.Name) and x.id in recs for x in ast.walk(ann))
        if not mentions_records:
            continue
        single = isinstance(v, ast.Name) and v.id in recs and not (isinstance(k, ast.Name) and k.id in recs)
        obs.append(ob(R, init, st, f'index `{st.target.attr}` keeps a collection of records per key', not single, f'`{st.target.attr}: {norm(ann)}` keeps ONE record per key: records that share the key overwrite each other' if single else ''))
    if len(obs) < 2:
        raise AnalysisError('anchor vanished: annotated record indexes in DNSCache.__init__')
    return obs


@rule('C05.TWOINDEX', 'N', expect_min=5)
def twoindex(ctx: Any) -> List[Ob]:
    """Sibling agreement of add and remove on the two indexes: the service-host
    index is maintained under the same isinstance(record, DNSService) condition
    with the same key attributes on both sides; removing the last entry of a
    bucket deletes the bucket."""
    R = 'C05.TWOINDEX'
    prog = ctx.prog
    add = prog.func(CACHE + '._async_add')
    rem = prog.func(CACHE + '._async_remove')
    obs: List[Ob] = []

    def profile(f: FuncInfo) -> Dict[str, Set[Tuple[str, str]]]:
        """index attr -> set of (key attr, guard text) used with it."""
        me = f.params[0]
        prof: Dict[str, Set[Tuple[str, str]]] = {}
        cfg = cfg_of(f.node)
        for n in cfg.nodes:
            for x in (y for e in n.exprs() for y in walk_local_ordered(e)):
                idx = key = None
                if isinstance(x, ast.Call) and isinstance(x.func, ast.Attribute) and x.func.attr in ('setdefault', 'get', 'pop') and self_attr(x.func.value, me) in INDEXES and x.args:
                    idx, key = self_attr(x.func.value, me), x.args[0]
                elif isinstance(x, ast.Call) and call_name(x) == '_remove_key' and x.args and self_attr(x.args[0], me) in INDEXES:
                    idx, key = self_attr(x.args[0], me), x.args[1]
                elif isinstance(x, ast.Subscript) and self_attr(x.value, me) in INDEXES:
                    idx, key = self_attr(x.value, me), x.slice
                if idx is None:
                    continue
                guards = sorted(
                    norm(d.ast) for d in cfg.nodes
                    if d.kind == 'test' and cfg.dominates(d, n) and d is not n and any(cfg.dominates(s, n) or s is n for s, lab in d.succ if lab is True)
                )
                prof.setdefault(idx, set()).add((key.attr if isinstance(key, ast.Attribute) else norm(key), ' and '.join(guards)))
        return prof

    obs.extend(index_shape_obligations(ctx, R))
    pa, pr = profile(add), profile(rem)
    for idx in INDEXES:
        obs.append(ob(R, add, f'self.{idx}: add uses {sorted(pa.get(idx, []))}', f'add and remove maintain `{idx}` under the same condition with the same key attribute', pa.get(idx) == pr.get(idx) and bool(pa.get(idx)), f'remove uses {sorted(pr.get(idx, []))}'))
    want = {'cache': {('key', '')}, 'service_cache': {('server_key', 'isinstance(record, DNSService)')}}
    for idx in INDEXES:
        got = pa.get(idx, set())
        okk = {k for k, _ in got} == {k for k, _ in want[idx]}
        obs.append(ob(R, add, f'self.{idx} keyed by {sorted(k for k, _ in got)}', f'`{idx}` is keyed by the record\'s {sorted(k for k, _ in want[idx])}', okk))
    # bucket hygiene in the shared removal helper
    rk = prog.func('zeroconf._cache._remove_key')
    p = rk.params
    cfg = cfg_of(rk.node)
    from .common import expand as _xp

    # read through a local that names the bucket (`store = cache[key]`)
    bucket = f'{p[0]}[{p[1]}]'
    dels = [n for n in cfg.nodes if n.kind == 'stmt' and isinstance(n.ast, ast.Delete)]
    inner = [n for n in dels if any(isinstance(t, ast.Subscript) and norm(_xp(rk, t.value)) == bucket for t in n.ast.targets)]
    outer = [n for n in dels if any(isinstance(t, ast.Subscript) and norm(_xp(rk, t)) == bucket for t in n.ast.targets)]
    good = False
    if inner and outer:
        # after the inner delete, the outer delete is executed exactly when the bucket is empty
        o = outer[0]
        tests = [d for d in cfg.nodes if d.kind == 'test' and cfg.dominates(d, o)]
        for d in tests:
            t = d.ast
            empty_true = isinstance(t, ast.UnaryOp) and isinstance(t.op, ast.Not) and norm(_xp(rk, t.operand)) == bucket
            if empty_true and any(cfg.dominates(s, o) or s is o for s, lab in d.succ if lab is True) and cfg.dominates(inner[0], d):
                good = True
    obs.append(ob(R, rk, 'if not cache[key]: del cache[key]', 'removing the last record of a name deletes the now-empty bucket', good))
    return obs


@rule('C05.KEYS', 'D', expect_min=10)
def keys(ctx: Any) -> List[Ob]:
    """Every key used to read or write the name index and the service-host index
    is lower-cased (result of .lower(), or a lowered twin attribute)."""
    R = 'C05.KEYS'
    prog = ctx.prog
    low = Lowered(ctx)
    obs: List[Ob] = []
    c = prog.cls(CACHE)
    for f in c.methods.values():
        me = f.params[0] if f.params else 'self'
        # an index may be reached through a local alias (`cache = self.cache`)
        aliases = {n_ for n_, vs in local_defs(f).items() if vs and all(v is not None and self_attr(v, me) in INDEXES for v in vs)}
        for d, k, how in key_sites(f, lambda e, me=me, aliases=aliases: self_attr(e, me) in INDEXES or (isinstance(e, ast.Name) and e.id in aliases)):
            ok, why = low.is_lowered(f, k)
            obs.append(ob(R, f, f'{norm(d)} {how} {norm(k)}', 'index key is lower-cased', ok, why))
        for x in walk_local_ordered(f.node):
            if isinstance(x, ast.Call) and call_name(x) == '_remove_key' and len(x.args) >= 2 and self_attr(x.args[0], me) in INDEXES:
                ok, why = low.is_lowered(f, x.args[1])
                obs.append(ob(R, f, x, 'index key is lower-cased', ok, why))
    return obs



def reset_ttl_obligations(ctx: Any, R: str) -> List[Ob]:
    """What a refresh of a cached record does (shared by C05.REFRESH and C10.CONST: the browser plans its refresh queries from
    the received copy, so the cache has to hold that copy's lifetime too)."""
    rec = ctx.prog.cls(REC)
    obs: List[Ob] = []
    # reset_ttl copies (created, ttl) of the other record; set_created_ttl stores them to the right fields
    rt = rec.methods['reset_ttl']
    calls = [c for c in walk_local_ordered(rt.node) if isinstance(c, ast.Call) and call_name(c) == 'set_created_ttl']
    other = rt.params[1]
    good = len(calls) == 1 and [norm(a) for a in calls[0].args] == [f'{other}.created', f'{other}.ttl']
    obs.append(ob(R, rt, calls[0] if calls else 'reset_ttl', 'a refresh takes creation time and TTL from the received record', good))
    # ... whatever the two lifetimes are: a received copy with a shorter (or longer) lifetime replaces the cached one too -- RFC
    # 6762 10 lets a responder lower a TTL, and a cache that keeps the longer lifetime disagrees with every lookup path's model
    oc_rt, _ = traces(ctx, rt, {}, lambda node, evl: ['SET' for c in fd.node_calls(node, evl) if call_name(c) == 'set_created_ttl'], loop_bound=1)
    per_path = sorted({strip_ret(t).count('SET') for t in oc_rt})
    obs.append(ob(R, rt, 'reset_ttl(other)', 'the refresh is unconditional: every path through reset_ttl stores the received lifetime exactly once', per_path == [1], f'stores per path: {per_path}'))
    return obs


@rule('C05.OWN', 'D', expect_min=6)
def own(ctx: Any) -> List[Ob]:
    """Ownership: the two index dictionaries (and their buckets) are mutated only
    inside the cache module; a record's created/ttl are written only by the
    constructor and set_created_ttl, whose callers are exactly the pointer floor
    and the refresh in response ingestion and the flush mark in the cache."""
    R = 'C05.OWN'
    prog = ctx.prog
    obs: List[Ob] = []
    MUT = {'pop', 'popitem', 'clear', 'update', 'setdefault', '__setitem__', '__delitem__'}

    def is_record_store(td: Any) -> bool:
        if not td or td[0] != 'inst' or td[1] != 'builtins.dict' or len(td[2]) != 2:
            return False
        k, v = td[2]
        if k and k[0] == 'inst' and k[1] == REC:
            return bool(v and v[0] == 'inst' and v[1] == REC)
        return bool(k and k[0] == 'inst' and k[1] == 'builtins.str' and is_record_store(v))

    n = 0
    for f in prog.functions.values():
        inside = f.module.name == 'zeroconf._cache'
        for x in walk_local_ordered(f.node):
            tgt = None
            if isinstance(x, (ast.Assign, ast.AugAssign, ast.Delete)):
                tg = x.targets if isinstance(x, (ast.Assign, ast.Delete)) else [x.target]
                for t in tg:
                    if isinstance(t, ast.Subscript) and is_record_store(ctx.ty.type_of(f.module.name, t.value)):
                        tgt = t
            elif isinstance(x, ast.Call) and isinstance(x.func, ast.Attribute) and x.func.attr in MUT and is_record_store(ctx.ty.type_of(f.module.name, x.func.value)):
                tgt = x
            if tgt is None:
                continue
            # DNSRRSet's private lookup table is its own structure, not the cache
            if f.cls is not None and f.cls.name == 'DNSRRSet':
                continue
            n += 1
            obs.append(ob(R, f, x, 'the cache stores are mutated only by the cache module', inside))
    ctx.counters['cache_mutation_sites'] = n
    # created / ttl writers
    rec = prog.cls(REC)
    fam = {c.full for c in [rec] + rec.all_subclasses()}
    allowed_w = {REC + '.__init__', REC + '.set_created_ttl'}
    for f in prog.functions.values():
        for t, st in attr_stores(f.node):
            if t.attr not in ('created', 'ttl'):
                continue
            rc = receiver_classes(ctx, f, t.value)
            if not (set(rc) & fam or '?' in rc):
                continue
            obs.append(ob(R, f, st, 'a record\'s lifetime fields are written only by its constructor and set_created_ttl', f.full in allowed_w))
    # owner table of the lifetime setters
    owners = {
        'zeroconf._handlers.record_manager.RecordManager.async_updates_from_response': 'pointer-TTL floor and refresh of an existing entry during ingestion',
        'zeroconf._cache.DNSCache.async_mark_unique_records_older_than_1s_to_expire': 'cache-flush mark',
        REC + '.reset_ttl': 'reset_ttl delegates to set_created_ttl',
    }
    for nm in ('set_created_ttl', 'reset_ttl'):
        f = rec.methods.get(nm)
        if f is None:
            raise AnalysisError(f'anchor vanished: DNSRecord.{nm}')
        for s in ctx.cg.callers_of(f):
            obs.append(ob(R, s.caller, s.node, f'{nm} is called only from its owners (floor/refresh in ingestion, flush mark in the cache)', s.caller.full in owners, owners.get(s.caller.full, 'not in the owner table')))
    obs.extend(reset_ttl_obligations(ctx, R))
    sc = rec.methods['set_created_ttl']
    me, a, b = sc.params[0], sc.params[1], sc.params[2]
    st = {t.attr: norm(s.value) for t, s in attr_stores(sc.node) if isinstance(s, ast.Assign)}
    obs.append(ob(R, sc, 'self.created = created; self.ttl = ttl', 'set_created_ttl stores its arguments in the matching fields', st == {'created': a, 'ttl': b}, str(st)))
    return obs


PREDICATE_BINDINGS = {
    'zeroconf._cache.DNSCache.async_expire': ({'is_expired'}, 'purge removes exactly the fully elapsed records'),
    'zeroconf._cache.DNSCache.async_mark_unique_records_older_than_1s_to_expire': ({'is_expired'}, 'the flush mark leaves alone what has run out or runs out within the second (it only ever shortens a lifetime)'),
    'zeroconf._services.info.ServiceInfo._process_record_threadsafe': ({'is_expired'}, 'lookups reject expired records'),
    'zeroconf._services.info.ServiceInfo._get_ip_addresses_from_cache_lifo': ({'is_expired'}, 'addresses loaded from the cache are unexpired'),
    'zeroconf._handlers.record_manager.RecordManager.async_updates_from_response': ({'is_expired'}, 'ingestion classifies goodbyes by full expiry'),
    'zeroconf._services.browser.generate_service_query': ({'is_stale'}, 'known answers need more than half their TTL'),
    'zeroconf._services.info.ServiceInfo._add_question_with_known_answers': ({'is_stale'}, 'known answers need more than half their TTL'),
    'zeroconf._handlers.query_handler._QueryResponse._has_mcast_within_one_quarter_ttl': ({'is_recent'}, 'QU routing uses the quarter-TTL test'),
    'zeroconf._cache.DNSCache.current_entry_with_name_and_alias': ({'is_expired'}, 'conflict detection ignores expired pointers'),
    'zeroconf._handlers.record_manager.RecordManager._async_update_matching_records': ({'is_expired'}, 'a new listener is primed with unexpired records only'),
    'zeroconf._services.browser._ServiceBrowserBase.async_update_records': ({'is_expired'}, 'browser classifies removal by full expiry'),
    'zeroconf._protocol.outgoing.DNSOutgoing.add_answer_at_time': ({'is_expired'}, 'expired records are not sent as answers'),
}
LIFETIME = {'is_expired', 'is_stale', 'is_recent'}


def purge_report_obligations(ctx: Any, R: str) -> List[Ob]:
    """Every listener is told about every purged (and every received) record: the notification routine hands one
    collection to each listener in turn, so what its callers pass must survive more than one walk."""
    from .common import shared_argument_obligations

    out = shared_argument_obligations(ctx, R, ctx.prog.func('zeroconf._handlers.record_manager.RecordManager.async_updates'), 'handed to every listener in turn')
    if not out:
        raise AnalysisError('anchor vanished: RecordManager.async_updates does not hand its records to each listener in a loop')
    return out



def cache_methods_reached(ctx: Any, roots: Any) -> Set[str]:
    """Qualified names of the DNSCache methods that the given functions call, closed under the calls those methods make to
    other methods of the cache (a read method that delegates to another one relies on that one for the key)."""
    todo, seen = [], set()
    for g in roots:
        for cs in ctx.cg.sites_in(g):
            for t in cs.targets:
                if t.cls is not None and t.cls.full == CACHE:
                    todo.append(t)
    while todo:
        t = todo.pop()
        if t.qual in seen:
            continue
        seen.add(t.qual)
        for cs in ctx.cg.sites_in(t):
            for t2 in cs.targets:
                if t2.cls is not None and t2.cls.full == CACHE:
                    todo.append(t2)
    return seen


@rule('C05.PURGE', 'D', expect_min=12)
def purge(ctx: Any) -> List[Ob]:
    """The purge selects by is_expired(now), removes exactly that selection and
    returns exactly it; the periodic cleanup reports each purged record once as
    (r, r); and each consumer of record lifetime calls the predicate the
    property assigns to it (expired / stale / recent)."""
    R = 'C05.PURGE'
    prog = ctx.prog
    obs: List[Ob] = []
    f = prog.func(CACHE + '.async_expire')
    now = f.params[1]
    me = f.params[0]
    cfg = cfg_of(f.node)
    rets = [n for n in cfg.nodes if n.kind == 'return']
    # the selection variable: the name returned on the path that scans
    sel_names = sorted({n.ast.value.id for n in rets if isinstance(n.ast.value, ast.Name)})
    early = [n for n in rets if not isinstance(n.ast.value, ast.Name)]
    obs.append(ob(R, f, f'return {sel_names}', 'the purge returns the selection it computed', len(sel_names) == 1))
    selv = sel_names[0] if sel_names else '?'
    rem = [c for c in walk_local_ordered(f.node) if isinstance(c, ast.Call) and call_name(c) in ('async_remove_records', '_async_remove')]
    obs.append(ob(R, f, rem[0] if rem else 'async_remove_records', 'the purge removes exactly the selection it returns', len(rem) == 1 and [norm(a) for a in rem[0].args] == [selv]))

    def is_expiry_test(cond: ast.AST, rvar: str) -> bool:
        """cond is `r.is_expired(now)` or an equivalent `r.get_expiration_time(100) <= now`."""
        if isinstance(cond, ast.Call) and call_name(cond) == 'is_expired' and norm(cond.func.value) == rvar and [norm(a) for a in cond.args] == [now]:
            return True
        if isinstance(cond, ast.Compare):
            from .common import expand

            e = expand(f, cond)

            def sym(x: ast.AST) -> Optional[str]:
                if isinstance(x, ast.Call) and call_name(x) == 'get_expiration_time' and norm(x.func.value) == rvar and len(x.args) == 1 and prog.try_fold(f.module, x.args[0]) == (True, 100):
                    return 'EXP'
                if isinstance(x, ast.Name) and x.id == now:
                    return 'NOW'
                return None

            try:
                return lf.same_cmp(lf.comparison(prog, f.module, e, sym), lf.parse_cmp('EXP - NOW <= 0'))
            except lf.NotLinear:
                return False
        return False

    good = False
    sel = None
    for st in walk_local_ordered(f.node):
        if isinstance(st, (ast.Assign, ast.AnnAssign)) and norm(st.targets[0] if isinstance(st, ast.Assign) else st.target) == selv and isinstance(st.value, ast.ListComp):
            sel = st.value
    if isinstance(sel, ast.ListComp) and len(sel.generators) == 2:
        g0, g1 = sel.generators
        over_all = isinstance(g0.iter, ast.Call) and isinstance(g0.iter.func, ast.Attribute) and g0.iter.func.attr == 'values' and self_attr(g0.iter.func.value, me) == 'cache' and not g0.ifs
        per_rec = norm(g1.iter) == norm(g0.target) and len(g1.ifs) == 1
        good = over_all and per_rec and is_expiry_test(g1.ifs[0], norm(g1.target)) and norm(sel.elt) == norm(g1.target)
    else:
        # explicit loops: for bucket in self.cache.values(): for r in bucket: if <expired>: sel.append(r)
        for lp in walk_local_ordered(f.node):
            if isinstance(lp, ast.For) and isinstance(lp.iter, ast.Call) and isinstance(lp.iter.func, ast.Attribute) and lp.iter.func.attr == 'values' and self_attr(lp.iter.func.value, me) == 'cache':
                inner = [x for x in lp.body if isinstance(x, ast.For) and norm(x.iter) == norm(lp.target)]
                if len(inner) == 1:
                    rvar = norm(inner[0].target)
                    for t in ast.walk(inner[0]):
                        if isinstance(t, ast.If) and is_expiry_test(t.test, rvar):
                            apps = [c for b in t.body for c in ast.walk(b) if isinstance(c, ast.Call) and call_name(c) == 'append' and norm(c.func.value) == selv and [norm(a) for a in c.args] == [rvar]]
                            others = [c for c in ast.walk(f.node) if isinstance(c, ast.Call) and call_name(c) in ('append', 'extend', 'insert') and isinstance(c.func, ast.Attribute) and norm(c.func.value) == selv]
                            good = len(apps) == 1 and len(others) == 1
    obs.append(ob(R, f, sel if sel is not None else 'selection loop', 'the selection is every cached record r with r.is_expired(now), over all names', good))
    # a purge that can return without scanning relies on state: every writer of a record's lifetime must maintain that state
    for e_ in early:
        guards = [t for t in cfg.nodes if t.kind == 'test' and cfg.dominates(t, e_)]
        gattrs = sorted({x.attr for t in guards for x in ast.walk(t.ast) if isinstance(x, ast.Attribute) and self_attr(x, me)})
        rec = prog.cls(REC)
        writers = set()
        for nm in ('set_created_ttl', 'reset_ttl'):
            for s_ in ctx.cg.callers_of(rec.methods[nm]):
                if s_.caller.cls is not rec:
                    writers.add(s_.caller)
        writers.add(prog.func(CACHE + '._async_add'))
        stale = []
        for w in sorted(writers, key=lambda x: x.full):
            stored = {t.attr for t, _ in attr_stores(w.node)}
            missing = [a for a in gattrs if a not in stored]
            if missing or not gattrs:
                stale.append(f'{w.qual} changes record lifetimes without maintaining {missing or "the guard state"}')
        obs.append(ob(R, f, e_.ast, f'a purge that returns without scanning (guard on {gattrs}) is sound only if every writer of a record lifetime maintains that state', not stale, '; '.join(stale)))
    # periodic cleanup
    g = prog.func('zeroconf._engine.AsyncEngine._async_cache_cleanup')
    ru = [c for c in walk_local_ordered(g.node) if isinstance(c, ast.Call) and call_name(c) == 'RecordUpdate']
    okru = len(ru) == 1 and len(ru[0].args) == 2 and norm(ru[0].args[0]) == norm(ru[0].args[1])
    comp = next((c for c in walk_local_ordered(g.node) if isinstance(c, (ast.ListComp, ast.GeneratorExp)) and ru and c.elt is ru[0]), None)
    src_ok = comp is not None and isinstance(comp.generators[0].iter, ast.Call) and call_name(comp.generators[0].iter) == 'async_expire' and not comp.generators[0].ifs and len(comp.generators) == 1
    obs.append(ob(R, g, ru[0] if ru else 'RecordUpdate', 'each purged record is reported exactly once, as (record, record)', okru and src_ok))

    obs.extend(purge_report_obligations(ctx, R))

    def effc(node: Any, evl: Any) -> List[Any]:
        return [call_name(c) for c in node.calls() if call_name(c) in ('async_expire', 'async_updates', 'async_updates_complete', '_async_schedule_next_cache_cleanup')]

    oc, _ = traces(ctx, g, {}, effc)
    got = {tuple(x for x in strip_ret(t) if x != 'async_expire') for t in oc}
    obs.append(ob(R, g, 'cleanup sequence', 'purge is reported to listeners once (updates then complete) and the next purge is scheduled, on every path', got == {('async_updates', 'async_updates_complete', '_async_schedule_next_cache_cleanup')}, str(sorted(got))))
    okc, iv = prog.try_fold(g.module, ast.Name(id='_CACHE_CLEANUP_INTERVAL', ctx=ast.Load()))
    obs.append(ob(R, g, '_CACHE_CLEANUP_INTERVAL', 'the purge period is 10 s', okc and iv == 10, f'folds to {iv}'))
    # predicate bindings
    vanished: List[Tuple[str, Set[str], str]] = []  # (owner prefix, predicates, why) of table entries whose function is gone
    for full, (want, why) in PREDICATE_BINDINGS.items():
        if full not in prog.functions:
            vanished.append((full.rsplit('.', 1)[0], set(want), why))
            continue
        h = prog.func(full)
        used = {call_name(c) for c in ast.walk(h.node) if isinstance(c, ast.Call) and call_name(c) in LIFETIME and isinstance(c.func, ast.Attribute)}
        obs.append(ob(R, h, f'lifetime predicates used: {sorted(used)}', f'{why} (expects {sorted(want)})', used == want))
    # no other consumer of the lifetime predicates exists unclassified
    for f2 in prog.functions.values():
        if f2.full in PREDICATE_BINDINGS or f2.cls is not None and f2.cls.full == REC:
            continue
        used = {call_name(c) for c in walk_local_ordered(f2.node) if isinstance(c, ast.Call) and call_name(c) in LIFETIME and isinstance(c.func, ast.Attribute)}
        if used:
            # a consumer that took over from a table entry that no longer exists (renamed / merged within the same class or
            # module) inherits that entry's binding
            heir = next((v for v in vanished if f2.full.rsplit('.', 1)[0] == v[0] and used == v[1]), None)
            if heir is not None:
                obs.append(ob(R, f2, f'lifetime predicates used: {sorted(used)}', f'{heir[2]} (expects {sorted(heir[1])}; takes the place of a consumer that no longer exists)', True))
                continue
            obs.append(ob(R, f2, f'lifetime predicates used: {sorted(used)}', 'every consumer of record lifetime is in the binding table (a new consumer must be classified)', False, 'not in the binding table'))
    return obs


@rule('C05.REFRESH', 'N', expect_min=1)
def refresh(ctx: Any) -> List[Ob]:
    """A refreshed record gets the creation time and the (floored) TTL of the record just received --
    otherwise it is purged before its latest TTL runs out."""
    from .c06 import refresh_obligations

    obs = refresh_obligations(ctx, 'C05.REFRESH')
    # the flush mark itself is applied whenever a record of the datagram carried the cache-flush bit -- also when the datagram
    # produced nothing else (every record a goodbye for something never cached): rows of the post-loop effect table of C06.ORDER
    from .c06 import ingest_anatomy, order as _order

    from .c06 import pair_per_live_record as _pairs

    for o in _pairs(ctx, 'C05.REFRESH'):
        if o.statement.startswith('every record queued for the cache'):
            obs.append(o)
    from .c06 import floorflush as _floorflush

    for o in _floorflush.fn(ctx):
        if o.construct.startswith('age='):
            o.rule = 'C05.REFRESH'
            obs.append(o)
    uq = set(ingest_anatomy(ctx)['unique'])
    for o in _order.fn(ctx):
        if o.construct.startswith('collections non-empty') and any(repr(u) in o.construct for u in uq):
            o.rule = 'C05.REFRESH'
            o.statement += ' -- older records of a flushed rrset are marked to expire whatever else the datagram holds'
            obs.append(o)
    return obs


LIFETIME_FORMS = {
    'is_expired': 'created + 1000*ttl - now <= 0',
    'is_stale': 'created + 500*ttl - now <= 0',
    'is_recent': 'now - created - 250*ttl < 0',
}


@rule('C05.LIFETIME', 'D', expect_min=5)
def lifetime(ctx: Any) -> List[Ob]:
    """The one-line lifetime predicates, normalised to linear forms:
    is_expired == created + 1000*ttl - now <= 0; is_stale == created + 500*ttl - now <= 0;
    is_recent == created + 250*ttl - now > 0; get_expiration_time(p) == created + 10*p*ttl;
    get_remaining_ttl == max(0, (created + 1000*ttl - now) / 1000)."""
    R = 'C05.LIFETIME'
    prog = ctx.prog
    rec = prog.cls(REC)
    obs: List[Ob] = []
    for nm, want in LIFETIME_FORMS.items():
        f = rec.methods.get(nm)
        if f is None:
            raise AnalysisError(f'anchor vanished: DNSRecord.{nm}')
        e = single_return_expr(f)
        now = f.params[1]
        sym = lf.default_sym(f.params[0])
        try:
            got = lf.comparison(prog, f.module, e, lambda x: 'now' if isinstance(x, ast.Name) and x.id == now else sym(x))
            ok = lf.same_cmp(got, lf.parse_cmp(want))
            why = f'normal form: {lf.p_str(got[0])} {got[1]} 0'
        except lf.NotLinear as ex:
            ok, why = False, f'not a linear comparison: {ex}'
        obs.append(ob(R, f, e, f'{nm}(now) is exactly `{want}`', ok, why))
    f = rec.methods.get('get_expiration_time')
    if f is None:
        raise AnalysisError('anchor vanished: DNSRecord.get_expiration_time')
    e = single_return_expr(f)
    sym = lf.default_sym(f.params[0])
    pct = f.params[1]
    try:
        got_p = lf.poly(prog, f.module, e, lambda x: 'p' if isinstance(x, ast.Name) and x.id == pct else sym(x))
        ok = got_p == lf.parse_poly('created + 10*p*ttl')
        why = lf.p_str(got_p)
    except lf.NotLinear as ex:
        ok, why = False, str(ex)
    obs.append(ob(R, f, e, 'get_expiration_time(p) is created + 10*p*ttl ms (p percent of the TTL)', ok, why))
    f = rec.methods.get('get_remaining_ttl')
    if f is None:
        raise AnalysisError('anchor vanished: DNSRecord.get_remaining_ttl')
    now = f.params[1]
    sym0 = lf.default_sym(f.params[0])
    sym = lambda x: 'now' if isinstance(x, ast.Name) and x.id == now else sym0(x)  # noqa: E731
    env: Dict[str, Any] = {}
    ok, why = False, ''
    try:
        for st in f.node.body:
            if isinstance(st, ast.Assign) and isinstance(st.targets[0], ast.Name):
                env[st.targets[0].id] = lf.poly(prog, f.module, st.value, sym, env)
        try:
            e = single_return_expr(f, skip_assigns=True)
        except AnalysisError as ex:
            raise lf.NotLinear(f'the result is not one expression ({ex})')
        want_p = lf.parse_poly('(created + 1000*ttl - now) / 1000')
        if isinstance(e, ast.IfExp):
            tp, top = lf.comparison(prog, f.module, e.test, sym, env)
            a = lf.poly(prog, f.module, e.body, sym, env)
            b = lf.poly(prog, f.module, e.orelse, sym, env)
            # `0 if remain < 0 else remain`  or  `remain if remain > 0 else 0` (and <=, >= variants)
            if not a and b == want_p:
                ok = lf.same_cmp((tp, '<'), (want_p, '<')) and top in ('<', '<=')
            elif not b and a == want_p:
                ok = lf.same_cmp((tp, '<'), (lf.p_scale(want_p, -1), '<')) and top in ('<', '<=')
            why = f'test {lf.p_str(tp)} {top} 0; arms {lf.p_str(a)} / {lf.p_str(b)}'
        elif isinstance(e, ast.Call) and norm(e.func) == 'max' and len(e.args) == 2:
            ps = [lf.poly(prog, f.module, a, sym, env) for a in e.args]
            ok = ({} in ps) and (want_p in ps)
            why = ' , '.join(lf.p_str(p) for p in ps)
    except lf.NotLinear as ex:
        why = f'not the linear form: {ex}'
    obs.append(ob(R, f, 'get_remaining_ttl', 'remaining TTL is max(0, (created + 1000*ttl - now) / 1000) seconds', ok, why))
    return obs


# ------------------------------------------------------------------------------------------------------------- C05.LOOKUPS
_ABSENT = object()


def _element_selection(ctx: Any, f: FuncInfo, atoms: Dict[str, Any]) -> Tuple[Set[bool], Set[Any], List[str]]:
    """Evaluate a reader of the cache under `atoms` (one bucket element per loop trip).  Returns (set of `an element was
    selected` over all feasible paths, set of returned values, undecided tests).  An element is selected when it is appended /
    added to the result, yielded, returned from inside the loop over the bucket, or passes every `if` of a comprehension."""
    loop_vars: Set[str] = set()
    for n in walk_local_ordered(f.node):
        if isinstance(n, (ast.For, ast.comprehension)):
            loop_vars |= {x.id for x in ast.walk(n.target) if isinstance(x, ast.Name)}
    und: List[str] = []

    def comp_take(e: ast.AST, evl: Any) -> List[Any]:
        out: List[Any] = []
        for c in ast.walk(e):
            if isinstance(c, (ast.ListComp, ast.SetComp, ast.GeneratorExp, ast.DictComp)):
                ok: Any = True
                for g in c.generators:
                    for cond in g.ifs:
                        v = evl.ev(cond)
                        if v is fd.UNKNOWN:
                            und.append(norm(cond))
                            ok = None
                        elif not evl._truth(v) and ok is not None:
                            ok = False
                if ok:
                    out.append('TAKE')
        return out

    def eff(node: Any, evl: Any) -> List[Any]:
        out: List[Any] = []
        for c in fd.node_calls(node, evl):
            if call_name(c) in ('append', 'add', 'insert', 'appendleft'):
                out.append('TAKE')
        a = node.ast
        if node.kind == 'stmt' and isinstance(a, ast.Expr) and isinstance(a.value, (ast.Yield, ast.YieldFrom)):
            out.append('TAKE')
        if node.kind == 'return' and a.value is not None and isinstance(a.value, ast.Name) and a.value.id in loop_vars:
            out.append('TAKE')
        for x in node.exprs():
            out.extend(comp_take(x, evl))
        return out

    oc, u = traces(ctx, f, atoms, eff, loop_bound=1, for_iter=lambda n, e: True)
    took = {('TAKE' in t) for t in oc}
    rets = {x[1] for t in oc for x in t if isinstance(x, tuple) and x and x[0] == 'ret'}
    return took, rets, list(u) + und


@rule('C05.LOOKUPS', 'D', expect_min=30)
def lookups(ctx: Any) -> List[Ob]:
    """Every lookup path of the cache selects with the reference model's predicate: the by-details readers (found by their
    (name, type, class) signature) take a record of the name's bucket iff BOTH its type and its class are the ones asked for
    and return nothing for an unknown name; the whole-bucket readers return the whole bucket; the exact-record readers look
    the record up by identity (equality) in the bucket of its own key; the conflict lookup takes a live pointer with the
    alias asked for; names() lists the keys of the name index; add / remove of several records visit every record."""
    R = 'C05.LOOKUPS'
    prog = ctx.prog
    cache = prog.cls(CACHE)
    obs: List[Ob] = []
    readers = {n: m for n, m in cache.methods.items() if not n.startswith('__')}
    # (a) by-details readers: signature (self, name, type, class)
    bydet = [m for m in readers.values() if len(m.params) == 4 and any(self_attr(x, m.params[0]) == 'cache' for x in ast.walk(m.node))]
    if len(bydet) < 3:
        raise AnalysisError(f'anchor vanished: by-details readers of the cache (found {[m.name for m in bydet]})')
    for m in sorted(bydet, key=lambda m: m.name):
        p_t, p_c = m.params[2], m.params[3]
        for same_t in (True, False):
            for same_c in (True, False):
                took, rets, und = _element_selection(ctx, m, {p_t: 12, p_c: 1, '.type': 12 if same_t else 33, '.class_': 1 if same_c else 255, '.get()': {'r': 'r'}})
                want = same_t and same_c
                obs.append(ob(R, m, f'cached record: type {"equal" if same_t else "different"}, class {"equal" if same_c else "different"}', f'it is {"returned" if want else "not returned"} by this by-details lookup', took == {want} and not und, f'selected on {sorted(took)}; undecided {und}'))
        took, rets, und = _element_selection(ctx, m, {'.get()': None, p_t: 12, p_c: 1})
        empty = all(r in (None, (), '[]', '{}', 'set()') or r == [] for r in rets)
        obs.append(ob(R, m, 'name not in the cache', 'nothing is returned for a name the cache does not hold', took <= {False} and empty and bool(rets), f'selected on {sorted(took)}, returns {sorted(map(repr, rets))}'))
    # (b) whole-bucket readers: one name parameter, no filter
    whole = [m for m in readers.values() if len(m.params) == 2 and m.name.lstrip('_').startswith(('entries_with', 'async_entries_with'))]
    if len(whole) < 4:
        raise AnalysisError(f'anchor vanished: whole-bucket readers of the cache (found {[m.name for m in whole]})')
    for m in sorted(whole, key=lambda m: m.name):
        gets = [c for c in ast.walk(m.node) if isinstance(c, ast.Call) and isinstance(c.func, ast.Attribute) and c.func.attr == 'get' and self_attr(c.func.value, m.params[0]) in INDEXES and c.args]
        ok = False
        why = f'{len(gets)} index lookups'
        if len(gets) == 1:
            bc = norm(gets[0])
            dflt = fd.Evaluator(prog, m.module, {}).ev(gets[0].args[1]) if len(gets[0].args) > 1 else None
            bucket = {'r1': 'r1', 'r2': 'r2'}
            _, rp, up = _element_selection(ctx, m, {bc: bucket})
            _, ra, ua = _element_selection(ctx, m, {bc: dflt}) if dflt is not fd.UNKNOWN else (set(), {'UNKNOWN'}, [])
            pres = {repr(x) if not isinstance(x, str) else x for x in rp}
            absn = {repr(x) if not isinstance(x, str) else x for x in ra}
            ok = len(pres) == 1 and pres <= {repr(bucket), repr(list(bucket)), repr(tuple(bucket))} and len(absn) == 1 and absn <= {'{}', '[]', '()'} and not up and not ua
            why = f'present -> {sorted(pres)}; absent -> {sorted(absn)}; undecided {up + ua}'
        obs.append(ob(R, m, gets[0] if gets else m.name, 'the whole bucket of the key is returned (every record, no filter), and an empty collection for an unknown key', ok, why))
    # (c) exact-record readers
    for name in ('async_get_unique', 'get'):
        m = cache.methods.get(name)
        if m is None:
            raise AnalysisError(f'anchor vanished: DNSCache.{name}')
        ent = m.params[1]
        # every bucket is selected with the entry's own key; the record is looked up by the entry itself (dict lookup) or by equality
        key_args = [norm(c.args[0]) for c in ast.walk(m.node) if isinstance(c, ast.Call) and isinstance(c.func, ast.Attribute) and c.func.attr == 'get' and self_attr(c.func.value, m.params[0]) == 'cache' and c.args]
        obs.append(ob(R, m, f'self.cache.get({ent}.key ...)', 'the bucket searched is the one of the entry\'s own lower-cased key', bool(key_args) and all(k == f'{ent}.key' for k in key_args), f'keys {key_args}'))
    g = cache.methods['get']
    ent = g.params[1]
    for uniq in (True, False):
        for eq in (True, False):
            atoms = {'isinstance()': uniq, '.__eq__()': eq, '.get()': {'r': 'r'}}
            for c in ast.walk(g.node):
                if isinstance(c, ast.Compare) and len(c.ops) == 1 and isinstance(c.ops[0], (ast.Eq, ast.NotEq)) and ent in (norm(c.left), norm(c.comparators[0])):
                    atoms[norm(c)] = eq if isinstance(c.ops[0], ast.Eq) else not eq
            took, rets, und = _element_selection(ctx, g, atoms)
            if uniq:
                # dictionary lookup of the entry itself
                direct = [c for c in ast.walk(g.node) if isinstance(c, ast.Call) and isinstance(c.func, ast.Attribute) and c.func.attr == 'get' and c.args and norm(c.args[0]) == ent]
                obs.append(ob(R, g, f'unique record type, stored copy {"equal" if eq else "different"}', 'a unique record is looked up by the entry itself in its bucket', bool(direct) and not und, f'undecided {und}'))
            else:
                obs.append(ob(R, g, f'shared record type, stored copy {"equal" if eq else "different"}', f'the stored copy is {"returned" if eq else "skipped"}', took == {eq} and not und and (eq or rets <= {None}), f'selected on {sorted(took)}; returns {sorted(map(repr, rets))}; undecided {und}'))
    u = cache.methods['async_get_unique']
    direct = [c for c in ast.walk(u.node) if isinstance(c, ast.Call) and isinstance(c.func, ast.Attribute) and c.func.attr == 'get' and c.args and norm(c.args[0]) == u.params[1]]
    bucket_calls = {norm(c) for c in ast.walk(u.node) if isinstance(c, ast.Call) and isinstance(c.func, ast.Attribute) and c.func.attr == 'get' and self_attr(c.func.value, u.params[0]) == 'cache'}
    res_abs: Set[Any] = set()
    res_pre: Set[Any] = set()
    und_u: List[str] = []
    for bc in bucket_calls:
        _, r1, u1 = _element_selection(ctx, u, {bc: None, u.params[1]: 'r'})
        _, r2, u2 = _element_selection(ctx, u, {bc: {'r': 'STORED'}, u.params[1]: 'r'})
        res_abs |= r1
        res_pre |= r2
        und_u += u1 + u2
    obs.append(ob(R, u, direct[0] if direct else 'store.get(entry)', 'the unique lookup returns the stored copy found by the entry itself, and None when the name is unknown', len(direct) == 1 and len(bucket_calls) == 1 and res_abs == {None} and res_pre == {'STORED'} and not und_u, f'unknown name -> {sorted(map(repr, res_abs))}; stored -> {sorted(map(repr, res_pre))}; undecided {und_u}'))
    # (d) the conflict lookup: a live pointer with the alias asked for
    ce = cache.methods.get('current_entry_with_name_and_alias')
    if ce is None:
        raise AnalysisError('anchor vanished: DNSCache.current_entry_with_name_and_alias')
    p_alias = ce.params[2]
    ptr = prog.const('zeroconf.const', '_TYPE_PTR')
    for is_ptr in (True, False):
        for expired in (True, False):
            for same in (True, False):
                atoms = {'.type': ptr if is_ptr else 33, '.is_expired()': expired, '.alias': 'a', p_alias: 'a' if same else 'b', '.alias_key': 'a', '.entries_with_name()': ['r'], '.get()': {'r': 'r'}}
                took, rets, und = _element_selection(ctx, ce, atoms)
                want = is_ptr and not expired and same
                obs.append(ob(R, ce, f'cached record: {"pointer" if is_ptr else "other type"}, {"expired" if expired else "live"}, alias {"equal" if same else "different"}', f'it {"is" if want else "is not"} reported as the current holder of the name', took == {want} and not und, f'selected on {sorted(took)}; undecided {und}'))
    # (e) names(): the keys of the name index
    nm = cache.methods.get('names')
    if nm is None:
        raise AnalysisError('anchor vanished: DNSCache.names')
    e = single_return_expr(nm)
    v = fd.Evaluator(prog, nm.module, {f'{nm.params[0]}.cache': {'n1': {}, 'n2': {}}, f'{nm.params[0]}.cache.keys()': ['n1', 'n2']}).ev(e.args[0]) if isinstance(e, ast.Call) and norm(e.func) in ('list', 'sorted', 'tuple') and len(e.args) == 1 else fd.UNKNOWN
    obs.append(ob(R, nm, e, 'names() lists every key of the name index', v is not fd.UNKNOWN and sorted(v) == ['n1', 'n2'], f'evaluates to {v!r}'))
    # (f) add / remove of several records visit every record (no short-circuit, no early exit), and every add stores
    for outer, inner in (('async_add_records', '_async_add'), ('async_remove_records', '_async_remove')):
        m = cache.methods[outer]

        def eff(node: Any, evl: Any, inner: str = inner) -> List[Any]:
            out: List[Any] = ['ITER'] if node.kind == 'for' else []
            out += ['DO' for c in fd.node_calls(node, evl) if call_name(c) == inner]
            return out

        bad = []
        for res in (True, False):
            oc, _ = traces(ctx, m, {f'.{inner}()': res}, eff, loop_bound=2, for_iter=lambda n, e: True)
            for t in oc:
                # the for node is visited once more than it iterates
                if sum(1 for x in t if x == 'DO') != max(0, sum(1 for x in t if x == 'ITER') - 1) or 'DO' not in t:
                    bad.append((res, strip_ret(t)))
        obs.append(ob(R, m, f'for entry in entries: self.{inner}(entry)', f'every record handed in is passed to {inner} (whatever the earlier ones returned)', not bad, f'paths {bad[:2]}'))
    add = cache.methods['_async_add']
    rec = add.params[1]
    for is_srv in (True, False):
        for present in (True, False):
            atoms = {'isinstance()': is_srv}
            for c in ast.walk(add.node):
                if isinstance(c, ast.Compare) and len(c.ops) == 1 and isinstance(c.ops[0], (ast.In, ast.NotIn)) and norm(c.left) == rec:
                    atoms[norm(c)] = present if isinstance(c.ops[0], ast.In) else not present
                if isinstance(c, ast.Call) and norm(c.func) == 'isinstance' and len(c.args) == 2 and 'DNSService' not in norm(c.args[1]):
                    atoms[norm(c)] = False

            def eff_store(node: Any, evl: Any) -> List[Any]:
                out = []
                a = node.ast
                if node.kind == 'stmt' and isinstance(a, ast.Assign):
                    for t in a.targets:
                        if isinstance(t, ast.Subscript) and norm(t.slice) == rec and norm(a.value) == rec:
                            d = _resolve_alias(add, t.value)
                            out.append('SRV' if 'service_cache' in d else ('NAME' if 'cache' in d else 'OTHER'))
                return out

            oc, und = traces(ctx, add, atoms, eff_store)
            want = ('NAME', 'SRV') if is_srv else ('NAME',)
            got = {tuple(sorted(set(strip_ret(t)))) for t in oc}
            obs.append(ob(R, add, f'record {"is" if is_srv else "is not"} an SRV record, equal copy {"present" if present else "absent"}', f'the record is stored in {" and ".join("the name index" if w == "NAME" else "the host index" for w in want)}', got == {tuple(sorted(want))}, f'stores on the paths: {sorted(got)}'))
    return obs


EXPLANATION = (
    'C05.KV (necessary condition): every store into a Dict[DNSRecord, DNSRecord] (found by type) keeps key and value the same '
    'object and drops an equal key first -- the invariant without which by-key readers (purge, by-details lookups) and by-value '
    'readers (unique lookup, refresh) disagree. C05.TWOINDEX (necessary): add/remove sibling agreement and bucket hygiene. '
    'C05.KEYS (decided): lower-case provenance of every index key. C05.OWN (decided): who may mutate the stores and the lifetime '
    'fields (owner table). C05.REFRESH (necessary): a refresh copies the received record\'s current (created, ttl), not a stale snapshot. C05.PURGE (decided): purge selects/removes/returns one list by is_expired(now); cleanup reports each once; '
    'each lifetime consumer uses the predicate the property assigns. C05.LIFETIME (decided): lifetime predicates normalised to linear '
    'forms and compared with RFC 6762 section 10 (100 % / 50 % / 25 % of TTL). Not decided: agreement with the reference model over '
    'all histories [X].'
)
EXPLANATION_ADDENDUM = (
    ' C05.TWOINDEX also requires every cache index to keep a collection of records per key. C05.REFRESH also decides the flush-set table (every record with the cache-flush bit feeds it, whatever its TTL) and that the pointer floor precedes every use of the record. C05.PURGE also requires the purge report to be re-iterable for every listener.'
)
EXPLANATION_ADDENDUM += (
    ' C05.LOOKUPS (decided): decision tables of every lookup path of the cache (by name/type/class, whole bucket by name and by SRV target host, exact record, conflict lookup, names) against the reference model\'s selection predicate; multi-record add / remove visit every record and an add stores in both indexes.'
)
EXPLANATION = EXPLANATION + EXPLANATION_ADDENDUM

RULES = [kv, twoindex, keys, own, purge, refresh, lifetime, lookups]

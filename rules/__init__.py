"""One module per property; each exports RULES and EXPLANATION."""

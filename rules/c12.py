"""C12 -- reply timing: jitter, aggregation, one-second protection, truncated queries."""
from __future__ import annotations

import ast
from typing import Any, Dict, List, Optional, Set, Tuple

from sa import AnalysisError
from sa import fd, lf
from sa.cf import cfg_of
from sa.pm import FuncInfo, call_name, norm, self_attr, walk_local_ordered
from sa.report import Ob, rule

from .common import local_defs, attr_stores, expand, ob, strip_ret, traces

MQ = 'zeroconf._handlers.multicast_outgoing_queue.MulticastOutgoingQueue'
LS = 'zeroconf._listener.AsyncListener'


def _env_polys(prog: Any, f: FuncInfo, sym: Any) -> Dict[str, Any]:
    env: Dict[str, Any] = {}
    for st in walk_local_ordered(f.node):
        if isinstance(st, ast.Assign) and isinstance(st.targets[0], ast.Name):
            try:
                env[st.targets[0].id] = lf.poly(prog, f.module, st.value, sym, env)
            except lf.NotLinear:
                pass
    return env


@rule('C12.WINDOW', 'D', expect_min=12)
def window(ctx: Any) -> List[Ob]:
    """The send window of queued multicast answers as linear forms with folded
    constants: send_after - now = random[20,120] + additional delay, send_before -
    now = aggregation delay + additional delay; the two queues are built with
    (0, 500) and (1000, 200), giving [20,120]/500 ms and [1020,1120]/1200 ms;
    the timer is armed with the same random delay; the last-second test is
    now - created < 1000; truncated queries wait a random 400-500 ms."""
    R = 'C12.WINDOW'
    prog = ctx.prog
    obs: List[Ob] = []
    q = prog.cls(MQ)
    add = q.methods['async_add']
    me, now = add.params[0], add.params[1]

    def sym(x: ast.AST) -> Optional[str]:
        a = self_attr(x, me)
        if a:
            return a
        if isinstance(x, ast.Name):
            return 'NOW' if x.id == now else x.id
        if isinstance(x, ast.Call) and call_name(x) in ('RAND_INT', 'randint'):
            return 'RAND'
        return None

    env = _env_polys(prog, add, sym)
    ctor = [c for c in walk_local_ordered(add.node) if isinstance(c, ast.Call) and call_name(c) == 'AnswerGroup']
    if len(ctor) != 1 or len(ctor[0].args) != 3:
        raise AnalysisError('anchor vanished: AnswerGroup(send_after, send_before, answers)')
    try:
        after = lf.poly(prog, add.module, ctor[0].args[0], sym, env)
        before = lf.poly(prog, add.module, ctor[0].args[1], sym, env)
        ok_a = after == lf.parse_poly('NOW + RAND + _additional_delay')
        ok_b = before == lf.parse_poly('NOW + _aggregation_delay + _additional_delay')
        why = f'send_after = {lf.p_str(after)}; send_before = {lf.p_str(before)}'
    except lf.NotLinear as e:
        ok_a = ok_b = False
        why = str(e)
    obs.append(ob(R, add, 'send_after = now + random + additional', 'an answer is not sent before a random delay plus the additional (flood protection) delay after the query', ok_a, why))
    obs.append(ob(R, add, 'send_before = now + aggregation + additional', 'an answer is sent no later than the aggregation delay plus the additional delay after the query', ok_b, why))
    rnd = [c for c in walk_local_ordered(add.node) if isinstance(c, ast.Call) and call_name(c) in ('RAND_INT', 'randint')]
    ok_r = len(rnd) == 1 and [self_attr(a, me) for a in rnd[0].args] == ['_multicast_delay_random_min', '_multicast_delay_random_max']
    obs.append(ob(R, add, rnd[0] if rnd else 'RAND_INT', 'the random delay is drawn between the configured minimum and maximum', ok_r))
    init = q.methods['__init__']
    st = {t.attr: s.value for t, s in attr_stores(init.node) if isinstance(s, ast.Assign)}
    iv = prog.const('zeroconf._handlers.answers', 'MULTICAST_DELAY_RANDOM_INTERVAL')
    ok_i = tuple(iv) == (20, 120) and norm(st.get('_multicast_delay_random_min')) == 'MULTICAST_DELAY_RANDOM_INTERVAL[0]' and norm(st.get('_multicast_delay_random_max')) == 'MULTICAST_DELAY_RANDOM_INTERVAL[1]'
    obs.append(ob(R, init, f'MULTICAST_DELAY_RANDOM_INTERVAL = {tuple(iv)}', 'the random delay interval is 20-120 ms', ok_i))
    ok_p = norm(st.get('_additional_delay')) == init.params[2] and norm(st.get('_aggregation_delay')) == init.params[3]
    obs.append(ob(R, init, 'self._additional_delay = additional_delay; self._aggregation_delay = max_aggregation_delay', 'the queue stores its two delays from the constructor arguments in order', ok_p))
    zi = prog.func('zeroconf._core.Zeroconf.__init__')
    qs = {}
    for s_ in walk_local_ordered(zi.node):
        if isinstance(s_, ast.Assign) and isinstance(s_.value, ast.Call) and call_name(s_.value) == 'MulticastOutgoingQueue':
            vals = [prog.try_fold(zi.module, a)[1] for a in s_.value.args[1:3]]
            qs[s_.targets[0].attr] = tuple(vals)
    obs.append(ob(R, zi, f'queues: {qs}', 'the ordinary queue adds no delay and aggregates up to 500 ms; the protected queue adds 1000 ms and aggregates 200 ms more (windows [20,120]/500 and [1020,1120]/1200 ms)', qs == {'out_queue': (0, 500), 'out_delay_queue': (1000, 200)}))
    # timer armed with the same delay when the queue was empty
    arm = [c for c in walk_local_ordered(add.node) if isinstance(c, ast.Call) and call_name(c) == 'call_at']
    ok_arm = False
    if len(arm) == 1:
        try:
            def sym2(x: ast.AST) -> Optional[str]:
                if isinstance(x, ast.Call) and call_name(x) == 'time':
                    return 'LOOPNOW'
                return sym(x)
            t = arm[0].args[0]
            # loop.time() + millis_to_seconds(random_delay)
            if isinstance(t, ast.BinOp) and isinstance(t.op, ast.Add):
                parts = [t.left, t.right]
                ms = [p for p in parts if isinstance(p, ast.Call) and call_name(p) == 'millis_to_seconds']
                lt = [p for p in parts if isinstance(p, ast.Call) and call_name(p) == 'time']
                if len(ms) == 1 and len(lt) == 1:
                    d = lf.poly(prog, add.module, ms[0].args[0], sym, env)
                    ok_arm = d == lf.parse_poly('RAND + _additional_delay')
        except lf.NotLinear:
            pass
    obs.append(ob(R, add, arm[0] if arm else 'call_at', 'the flush timer is armed for exactly the group\'s send-after delay', ok_arm))

    # decision: new group vs merge; timer only when the queue was empty
    def eff(node: Any, evl: Any) -> List[Any]:
        out = []
        for c in node.calls():
            if call_name(c) == 'call_at':
                out.append('ARM')
            if call_name(c) == 'append' and isinstance(c.func, ast.Attribute) and self_attr(c.func.value, me) == 'queue':
                out.append('NEWGROUP')
            if call_name(c) == 'update':
                out.append('MERGE')
        return out

    for qlen, earlier, want in ((0, False, ('ARM', 'NEWGROUP')), (1, True, ('MERGE',)), (1, False, ('NEWGROUP',))):
        atoms: Dict[str, Any] = {f'{me}.queue': ['g'] * qlen, 'RAND_INT()': 50, now: 1000.0, f'{me}._additional_delay': 0, f'{me}._aggregation_delay': 500, '.send_after': 2000.0 if earlier else 0.0}
        oc, und = traces(ctx, add, atoms, eff)
        got = {strip_ret(t) for t in oc}
        obs.append(ob(R, add, f'queue length {qlen}, new group due {"not later" if earlier else "later"} than the last', f'effects {want}', got == {want}, f'got {sorted(got)} undecided {und}'))
    # last-second test
    ls = prog.func('zeroconf._handlers.query_handler._QueryResponse._has_mcast_record_in_last_second')
    cmps = [c for c in ast.walk(ls.node) if isinstance(c, ast.Compare) and any(isinstance(x, ast.Attribute) and x.attr == 'created' for x in ast.walk(c))]
    ok_ls = False
    if len(cmps) == 1:
        try:
            p, op = lf.comparison(prog, ls.module, cmps[0], lambda x: 'NOW' if self_attr(x, ls.params[0]) == '_now' else ('CREATED' if isinstance(x, ast.Attribute) and x.attr == 'created' else None))
            ok_ls = lf.same_cmp((p, op), lf.parse_cmp('NOW - CREATED - 1000 < 0'))
        except lf.NotLinear:
            pass
    obs.append(ob(R, ls, cmps[0] if cmps else 'now - created < 1000', 'a record counts as recently multicast iff it was seen less than 1000 ms before the query arrived', ok_ls))
    from .c11 import sighting_predicate_table

    obs.extend(sighting_predicate_table(ctx, R, '_has_mcast_record_in_last_second'))
    tc = prog.const('zeroconf._listener', '_TC_DELAY_RANDOM_INTERVAL')
    obs.append(ob(R, ('src/zeroconf/_listener.py', '<module>'), f'_TC_DELAY_RANDOM_INTERVAL = {tuple(tc)}', 'a truncated query is held a random 400-500 ms', tuple(tc) == (400, 500)))
    hq = prog.func(LS + '.handle_query_or_defer')
    rnd = [c for c in walk_local_ordered(hq.node) if isinstance(c, ast.Call) and call_name(c) == 'randint']
    obs.append(ob(R, hq, rnd[0] if rnd else 'random.randint', 'the hold time is drawn from that interval', len(rnd) == 1 and len(rnd[0].args) == 1 and isinstance(rnd[0].args[0], ast.Starred) and norm(rnd[0].args[0].value) == '_TC_DELAY_RANDOM_INTERVAL'))
    # ... and the timer is armed that far AHEAD of the loop's clock, in the loop's unit: loop.time() + millis_to_seconds(draw)
    arms_tc = [c for c in walk_local_ordered(hq.node) if isinstance(c, ast.Call) and call_name(c) == 'call_at']
    ok_tc = False
    if len(arms_tc) == 1 and rnd:
        t_ = expand(hq, arms_tc[0].args[0])
        if isinstance(t_, ast.BinOp) and isinstance(t_.op, ast.Add):
            parts_ = [t_.left, t_.right]
            lt_ = [p_ for p_ in parts_ if isinstance(p_, ast.Call) and call_name(p_) == 'time']
            ms_ = [p_ for p_ in parts_ if isinstance(p_, ast.Call) and call_name(p_) == 'millis_to_seconds' and p_.args and any(x is rnd[0] or norm(x) == norm(rnd[0]) for x in ast.walk(p_.args[0])) and norm(p_.args[0]) == norm(rnd[0])]
            ok_tc = len(lt_) == 1 and len(ms_) == 1
    obs.append(ob(R, hq, arms_tc[0].args[0] if arms_tc else 'loop.call_at(loop.time() + delay, ...)', 'the held query is answered at the loop\'s time plus the drawn hold time, converted to seconds', ok_tc))
    return obs


def deferred_timer_discipline(ctx: Any, R: str) -> List[Ob]:
    """Invariant `a pending truncated-query timer for a source implies a non-empty deferred list for it`:
    the timer is armed only after the packet was appended; every function that removes entries from the
    deferred table cancels the timers it orphans, on every path; nothing else mutates the table.  Without it
    the timer later answers an empty packet list (IndexError in a timer callback)."""
    prog = ctx.prog
    lst = prog.cls(LS)
    obs: List[Ob] = []
    hq = lst.methods['handle_query_or_defer']
    cfg = cfg_of(hq.node)
    arm = cfg.nodes_calling('call_at')
    app = [n for n in cfg.nodes if any(call_name(c) == 'append' for c in n.calls())]
    obs.append(ob(R, hq, 'deferred.append(msg) ... loop.call_at(...)', 'the deferral timer is armed only after the packet was stored', bool(arm) and all(cfg.dominated_by_any(a, app) for a in arm)))
    for f in lst.methods.values():
        me = f.params[0] if f.params else 'self'
        fcfg = cfg_of(f.node)
        removers = []
        for n in fcfg.nodes:
            for c in n.calls():
                if isinstance(c.func, ast.Attribute) and self_attr(c.func.value, me) == '_deferred' and c.func.attr in ('pop', 'clear', 'popitem'):
                    removers.append((n, c))
            if n.kind == 'stmt' and isinstance(n.ast, ast.Delete) and any(isinstance(t, ast.Subscript) and self_attr(t.value, me) == '_deferred' for t in n.ast.targets):
                removers.append((n, n.ast))
            if n.kind == 'stmt' and isinstance(n.ast, ast.Assign) and any(self_attr(t, me) == '_deferred' for t in n.ast.targets) and f.name != '__init__':
                removers.append((n, n.ast))
        for n, c in removers:
            def cancels(m: Any) -> bool:
                for x in m.calls():
                    if call_name(x) == '_cancel_any_timers_for_addr':
                        return True
                    if call_name(x) == 'cancel' and isinstance(x.func, ast.Attribute) and any(self_attr(y, me) == '_timers' for y in ast.walk(x.func.value)):
                        return True
                return False

            before = any(cancels(m) and fcfg.dominates(m, n) for m in fcfg.nodes)
            after = fcfg.must_pass_before_exit(n, cancels) is None
            obs.append(ob(R, f, c, 'removing deferred packets of a source also cancels its pending timer (else the timer fires with nothing to answer)', before or after, '' if (before or after) else 'the timer handle is not cancelled on this path'))
    return obs


def _tsym(attrs: Dict[str, str]) -> Any:
    """Symbols for timing forms: the given attributes, and NOW for a read of the clock (locals are expanded first)."""

    def sym(x: ast.AST) -> Optional[str]:
        if isinstance(x, ast.Attribute) and x.attr in attrs:
            return attrs[x.attr]
        if isinstance(x, ast.Call) and call_name(x) == 'current_time_millis':
            return 'NOW'
        return None

    return sym


def purge_covers_all(ctx: Any, R: str) -> List[Ob]:
    """Removal of answers from the queue visits every (queued group, record) pair: two nested loops, a tolerant pop, and no
    way out of either loop before it is exhausted (a record can sit in several groups -- a later query with a later
    send time opens a new group without de-duplicating against the earlier ones)."""
    prog = ctx.prog
    rm = prog.func(MQ + '._remove_answers_from_queue')
    pops = [c for c in walk_local_ordered(rm.node) if isinstance(c, ast.Call) and call_name(c) == 'pop' and len(c.args) == 2]
    loops = [n for n in walk_local_ordered(rm.node) if isinstance(n, ast.For)]
    exits = [n for lp in loops for n in ast.walk(lp) if isinstance(n, (ast.Break, ast.Return, ast.Raise))]
    conts = [n for lp in loops for n in ast.walk(lp) if isinstance(n, ast.Continue)]
    me_ = rm.params[0]
    over_queue = any(any(self_attr(x, me_) == 'queue' for x in ast.walk(lp.iter)) or (isinstance(lp.iter, ast.Name) and any(self_attr(v, me_) == 'queue' for v in local_defs(rm).get(lp.iter.id, []) if v is not None)) for lp in loops)
    over_answers = any(isinstance(lp.iter, ast.Name) and lp.iter.id == rm.params[1] for lp in loops)
    good = len(pops) == 1 and len(loops) == 2 and over_queue and over_answers and not exits and not conts
    why = ''
    if exits or conts:
        x = (exits + conts)[0]
        why = f'`{type(x).__name__.lower()}` at line {x.lineno} leaves a loop early: later groups (or records) are not purged'
    return [ob(R, rm, pops[0] if pops else 'pending.answers.pop(record, None)', 'removal tolerates absent records and covers every queued group and every record (no early exit from either loop)', good, why)]


def flush_timer_cancel_obligations(ctx: Any, R: str) -> List[Ob]:
    """The other half of the queue-timer liveness: async_add arms a flush only when the queue was empty, so whoever cancels a
    pending flush must leave the queue empty (or arm a new flush) on every path -- groups left behind, even emptied ones, keep
    the queue non-empty and no flush would ever be armed again."""
    prog = ctx.prog
    q = prog.cls('zeroconf._handlers.multicast_outgoing_queue.MulticastOutgoingQueue')
    obs: List[Ob] = []
    handles: Set[str] = set()
    for m in q.methods.values():
        me = m.params[0] if m.params else 'self'
        for t, st in attr_stores(m.node):
            if self_attr(t, me) and isinstance(st, ast.Assign) and isinstance(st.value, ast.Call) and call_name(st.value) in ('call_at', 'call_later'):
                handles.add(t.attr)
    n_sites = 0
    for m in q.methods.values():
        me = m.params[0] if m.params else 'self'
        cfg = cfg_of(m.node)
        for n in cfg.nodes:
            for c in n.calls():
                if call_name(c) == 'cancel' and isinstance(c.func, ast.Attribute) and (self_attr(c.func.value, me) in handles or (isinstance(c.func.value, ast.Name) and any(isinstance(v, ast.Attribute) and self_attr(v, me) in handles for v in (local_defs(m).get(c.func.value.id) or []) if v is not None))):
                    n_sites += 1

                    def settles(x: Any, me: str = me) -> bool:
                        for y in x.calls():
                            if call_name(y) == 'clear' and isinstance(y.func, ast.Attribute) and self_attr(y.func.value, me) == 'queue':
                                return True
                            if call_name(y) in ('call_at', 'call_later'):
                                return True
                        return x.kind == 'stmt' and isinstance(x.ast, ast.Assign) and any(self_attr(t, me) == 'queue' for t in x.ast.targets)

                    w = cfg.path_avoiding(n, lambda x: x is cfg.exit, settles)
                    obs.append(ob(R, m, c, 'a cancelled flush leaves the queue empty or a new flush armed on every path (the queue arms a flush only when it was empty)', w is None, 'the pending flush is cancelled while groups stay in the queue: no flush is ever armed again and every later aggregated answer is queued for good' if w is not None else ''))
    if n_sites == 0:
        obs.append(ob(R, q, 'no cancel() of the flush timer', 'nothing cancels a pending flush of the outgoing queue (the flush itself decides whether to re-arm)', True))
    return obs


@rule('C12.WIRING', 'D', expect_min=8)
def wiring(ctx: Any) -> List[Ob]:
    """Flush logic of the queue and the truncated-query timer: the flush waits for
    the first group's deadline while more groups are queued, takes every group
    that is due, re-arms for the next group, removes the answers it sends from
    all later groups before sending (no duplicate inside later batches); the
    per-source truncated-query timer is cancelled before it is re-armed, a
    repeated packet is not deferred twice, and the deferred list is consumed by
    the answer."""
    R = 'C12.WIRING'
    prog = ctx.prog
    obs: List[Ob] = []
    rdy = prog.func(MQ + '.async_ready')
    me = rdy.params[0]

    def eff(node: Any, evl: Any) -> List[Any]:
        out = []
        for c in node.calls():
            nm = call_name(c)
            if nm == 'call_at':
                t = c.args[0]
                which = 'send_before' if 'send_before' in norm(t) else ('send_after' if 'send_after' in norm(t) else '?')
                out.append('REARM:' + which)
            elif nm == 'popleft':
                out.append('TAKE')
            elif nm == '_remove_answers_from_queue':
                out.append('DEDUP')
            elif nm == 'async_send':
                out.append('SEND')
        return out

    G = lambda a, b: {'send_after': a, 'send_before': b, 'answers': {'r': set()}}  # noqa: E731
    # queue snapshots are modelled by atoms on the subscripted attributes
    cases = [
        ('two groups, first deadline not reached', {'len()': 2, '.send_before': 2000.0, '.send_after': 500.0, 'current_time_millis()': 1000.0}, ('REARM:send_before',)),
    ]
    for name, atoms, want in cases:
        oc, und = traces(ctx, rdy, atoms, eff, loop_bound=1)
        got = {strip_ret(t) for t in oc}
        obs.append(ob(R, rdy, name, f'effects {want}', got == {want}, f'got {sorted(got)}'))
    # structural checks of the flush tail: DEDUP precedes SEND, both under `if answers`
    cfg = cfg_of(rdy.node)
    dd = cfg.nodes_calling('_remove_answers_from_queue')
    sd = cfg.nodes_calling('async_send')
    obs.append(ob(R, rdy, 'self._remove_answers_from_queue(answers); zc.async_send(...)', 'answers about to be sent are first removed from every later group', bool(dd) and bool(sd) and all(cfg.dominated_by_any(s, dd) for s in sd)))
    # ... of every outgoing queue the instance has: the aggregation queue and the protected (one-second) queue hold answers
    # to the same questions, and a record that goes out from one of them is a sighting for the other.  If it stays parked
    # there it is multicast a second time inside the second that follows -- although a query that arrived in between is owed
    # the one-second protection (F26)
    zc_init = prog.func('zeroconf._core.Zeroconf.__init__')
    queue_attrs = sorted({t.attr for t, st_ in attr_stores(zc_init.node) if isinstance(st_, ast.Assign) and isinstance(st_.value, ast.Call) and call_name(st_.value) == 'MulticastOutgoingQueue'})
    if len(queue_attrs) < 2:
        raise AnalysisError(f'anchor vanished: the outgoing queues of the instance (found {queue_attrs})')
    me_r = rdy.params[0]
    covered: Set[str] = set()
    own = False
    for c in walk_local_ordered(rdy.node):
        if isinstance(c, ast.Call) and call_name(c) == '_remove_answers_from_queue' and isinstance(c.func, ast.Attribute):
            recv = c.func.value
            if isinstance(recv, ast.Name) and recv.id == me_r:
                own = True
            elif isinstance(recv, ast.Attribute) and recv.attr in queue_attrs:
                covered.add(recv.attr)
            elif isinstance(recv, ast.Name):
                # a loop variable over a tuple / list of the instance's queues
                for lp in walk_local_ordered(rdy.node):
                    if isinstance(lp, ast.For) and isinstance(lp.target, ast.Name) and lp.target.id == recv.id and isinstance(lp.iter, (ast.Tuple, ast.List)):
                        covered |= {e_.attr for e_ in lp.iter.elts if isinstance(e_, ast.Attribute) and e_.attr in queue_attrs}
    ok_q = (own and len(covered) >= len(queue_attrs) - 1) or covered == set(queue_attrs)
    obs.append(ob(R, rdy, f'_remove_answers_from_queue on self and on {queue_attrs}', 'what a queue sends is dropped from the groups still waiting in every outgoing queue of the instance, not only its own', ok_q, f'own queue: {own}; other queues covered: {sorted(covered)}'))
    # ... and the same for what is multicast at once, by-passing the queues (F27): a copy of the record still parked in a queue
    # would go out again inside the second that follows the immediate answer
    ha = prog.func('zeroconf._handlers.query_handler.QueryHandler.handle_assembled_query')
    hcfg = cfg_of(ha.node)
    hme = ha.params[0]
    now_send = [n for n in hcfg.nodes if any(call_name(c) == 'async_send' and c.args and isinstance(c.args[0], ast.Call) and call_name(c.args[0]) == 'construct_outgoing_multicast_answers' for c in n.calls())]
    if len(now_send) != 1:
        raise AnalysisError('anchor vanished: the immediate multicast of handle_assembled_query')
    sent_arg = norm(next(c.args[0].args[0] for c in now_send[0].calls() if call_name(c) == 'async_send' and c.args and isinstance(c.args[0], ast.Call)))
    purged: Set[str] = set()
    for qa in queue_attrs:
        pn = [n for n in hcfg.nodes if any(call_name(c) == '_remove_answers_from_queue' and isinstance(c.func, ast.Attribute) and (self_attr(c.func.value, hme) == qa or (isinstance(c.func.value, ast.Attribute) and c.func.value.attr == qa)) and c.args and norm(c.args[0]) == sent_arg for c in n.calls())]
        if pn and hcfg.dominated_by_any(now_send[0], pn):
            purged.add(qa)
    obs.append(ob(R, ha, now_send[0].ast, 'what is multicast at once is first dropped from the groups waiting in every outgoing queue', purged == set(queue_attrs), f'queues purged before the immediate send: {sorted(purged)}'))
    # the while loop takes groups while due (send_after <= now)
    whiles = [n for n in walk_local_ordered(rdy.node) if isinstance(n, ast.While)]
    ok_w = False
    if len(whiles) == 1 and isinstance(whiles[0].test, ast.BoolOp) and isinstance(whiles[0].test.op, ast.And):
        cm = [v for v in whiles[0].test.values if isinstance(v, ast.Compare)]
        if len(cm) == 1:
            try:
                p, op = lf.comparison(prog, rdy.module, expand(rdy, cm[0]), _tsym({'send_after': 'AFTER'}))
                ok_w = lf.same_cmp((p, op), lf.parse_cmp('AFTER - NOW <= 0')) and any(isinstance(c, ast.Call) and call_name(c) == 'popleft' for c in ast.walk(whiles[0]))
            except lf.NotLinear:
                pass
    obs.append(ob(R, rdy, f'while {norm(whiles[0].test) if whiles else "?"}', 'every group whose send-after time has come is taken, in order', ok_w))
    # re-arm for remaining groups at their send_after
    arms = [c for c in walk_local_ordered(rdy.node) if isinstance(c, ast.Call) and call_name(c) == 'call_at']
    tail = [c for c in arms if 'send_after' in norm(c.args[0])]
    head = [c for c in arms if 'send_before' in norm(c.args[0])]
    ok_t = len(tail) == 1 and len(head) == 1
    for c, fld in ((tail[0] if tail else None, 'send_after'), (head[0] if head else None, 'send_before')):
        if c is None:
            ok_t = False
            continue
        t = c.args[0]
        ms = [p for p in ast.walk(t) if isinstance(p, ast.Call) and call_name(p) == 'millis_to_seconds']
        try:
            d = lf.poly(prog, rdy.module, expand(rdy, ms[0].args[0]), _tsym({fld: 'T'}))
            ok_t = ok_t and d == lf.parse_poly('T - NOW')
        except (lf.NotLinear, IndexError):
            ok_t = False
        # the remaining time is added to the loop's clock: loop.time() + millis_to_seconds(...)
        ok_t = ok_t and isinstance(t, ast.BinOp) and isinstance(t.op, ast.Add) and sorted(call_name(p) if isinstance(p, ast.Call) else '?' for p in (t.left, t.right)) == ['millis_to_seconds', 'time']
    obs.append(ob(R, rdy, 'call_at(loop.time() + millis_to_seconds(<deadline> - now), self.async_ready)', 'the flush re-arms itself for exactly the time remaining to the next deadline', ok_t))
    # wait-for-deadline test: len(queue) > 1 and queue[0].send_before > now
    ifs = [n for n in walk_local_ordered(rdy.node) if isinstance(n, ast.If) and 'send_before' in norm(n.test)]
    ok_h = False
    if len(ifs) == 1 and isinstance(ifs[0].test, ast.BoolOp) and isinstance(ifs[0].test.op, ast.And) and len(ifs[0].test.values) == 2:
        try:
            a, b = ifs[0].test.values
            p1, o1 = lf.comparison(prog, rdy.module, a, lambda x: 'N' if isinstance(x, ast.Call) and norm(x.func) == 'len' else None)
            p2, o2 = lf.comparison(prog, rdy.module, expand(rdy, b), _tsym({'send_before': 'BEFORE'}))
            ok_h = lf.same_cmp((p1, o1), lf.parse_cmp('1 - N < 0')) and lf.same_cmp((p2, o2), lf.parse_cmp('NOW - BEFORE < 0')) and any(isinstance(x, ast.Return) for x in ifs[0].body)
            # ... the deadline of the FIRST group (the queue is ordered by send time: the first group is the one that must go
            # first), in the test and in the time the flush is re-armed for
            me_r = rdy.params[0]
            reads = [x for e_ in [expand(rdy, b)] + [expand(rdy, c_.args[0]) for c_ in head] for x in ast.walk(e_) if isinstance(x, ast.Attribute) and x.attr == 'send_before']
            ok_h = ok_h and bool(reads) and all(isinstance(x.value, ast.Subscript) and self_attr(x.value.value, me_r) == 'queue' and prog.try_fold(rdy.module, x.value.slice) == (True, 0) for x in reads)
        except lf.NotLinear:
            pass
    obs.append(ob(R, rdy, ifs[0].test if ifs else 'if len(queue) > 1 and queue[0].send_before > now', 'while more than one group is queued the flush waits until the first group must go (maximum aggregation), never beyond its send-before deadline', ok_h))
    # liveness of the queue timer: a non-empty queue always has a flush pending.  async_add arms only when the queue
    # was empty (C12.WINDOW), so the flush itself must leave either an empty queue or an armed timer on every path.
    takes = [c for c in walk_local_ordered(rdy.node) if isinstance(c, ast.Call) and call_name(c) == 'popleft' and isinstance(c.func, ast.Attribute) and self_attr(c.func.value, me)]
    qattr = self_attr(takes[0].func.value, me) if takes else 'queue'

    def is_q(x: ast.AST) -> bool:
        return self_attr(x, me) == qattr or (isinstance(x, ast.Call) and norm(x.func) == 'len' and len(x.args) == 1 and self_attr(x.args[0], me) == qattr)

    def empty_after(t: ast.AST, taken: Any) -> bool:
        """Does leaving test `t` by the `taken` edge prove the queue empty?"""
        if isinstance(t, ast.UnaryOp) and isinstance(t.op, ast.Not):
            return empty_after(t.operand, not taken)
        if is_q(t):
            return taken is False
        if isinstance(t, ast.Compare) and len(t.ops) == 1 and is_q(t.left) and isinstance(t.left, ast.Call):
            ok, k = prog.try_fold(rdy.module, t.comparators[0])
            if ok and isinstance(k, int):
                op = type(t.ops[0])
                if (op, k) in ((ast.Gt, 0), (ast.NotEq, 0), (ast.GtE, 1)):
                    return taken is False
                if (op, k) in ((ast.Eq, 0), (ast.Lt, 1), (ast.LtE, 0)):
                    return taken is True
        if isinstance(t, ast.BoolOp) and isinstance(t.op, ast.Or) and taken is False:
            return any(empty_after(v, False) for v in t.values)  # every operand was false
        if isinstance(t, ast.BoolOp) and isinstance(t.op, ast.And) and taken is True:
            return any(empty_after(v, True) for v in t.values)  # every operand was true
        return False

    def arms_self(n: Any) -> bool:
        return any(call_name(c) in ('call_at', 'call_later') and any(self_attr(a, me) == rdy.name for a in c.args) for c in n.calls())

    bad_paths = []
    n_paths = 0
    for path in cfg.paths(loop_bound=1):
        if path[-1][0] is cfg.raise_exit:
            continue
        n_paths += 1
        armed = any(arms_self(n) for n, _ in path)
        empty = False
        for n, lab in path:
            if n.kind in ('test', 'loop_test') and n.ast is not None and empty_after(n.ast, lab):
                empty = True
            if any(call_name(c) in ('append', 'appendleft', 'extend', 'insert') and isinstance(c.func, ast.Attribute) and self_attr(c.func.value, me) == qattr for c in n.calls()):
                empty = False
        if not (armed or empty):
            bad_paths.append(' -> '.join(f'{n.line}' for n, _ in path if n.line))
    obs.append(ob(R, rdy, f'{n_paths} path(s) through the flush', 'every path leaves the queue empty or the flush timer armed (a queued group is never stranded without a timer)', n_paths > 0 and not bad_paths, 'path through lines ' + '; '.join(bad_paths[:3])))
    obs.extend(flush_timer_cancel_obligations(ctx, R))
    # the flush cannot be cut short between taking the due groups and sending them: the queue is not resized inside a loop that
    # iterates it (a deque raises RuntimeError on the next step, and the batch just taken is lost)
    from .c15 import resize_while_iterating

    qcls = prog.cls('zeroconf._handlers.multicast_outgoing_queue.MulticastOutgoingQueue')
    rz = resize_while_iterating(ctx, R, list(qcls.methods.values()))
    obs.extend(rz)
    if not rz:
        obs.append(ob(R, qcls, 'loops over self.queue', 'no method of the outgoing queue resizes the queue inside a loop that iterates it', True))
    obs.extend(purge_covers_all(ctx, R))
    # TC timer
    hq = prog.func(LS + '.handle_query_or_defer')
    cfg = cfg_of(hq.node)
    arm = cfg.nodes_calling('call_at')
    canc = cfg.nodes_calling('_cancel_any_timers_for_addr')
    obs.append(ob(R, hq, 'self._cancel_any_timers_for_addr(addr); self._timers[addr] = loop.call_at(...)', 'the truncated-query timer of a source is cancelled before a new one is armed (one pending answer per source)', bool(arm) and all(cfg.dominated_by_any(a, canc) for a in arm)))
    stores = [n for n in cfg.nodes if n.kind == 'stmt' and isinstance(n.ast, ast.Assign) and isinstance(n.ast.targets[0], ast.Subscript) and self_attr(n.ast.targets[0].value, hq.params[0]) == '_timers' and isinstance(n.ast.value, ast.Call) and call_name(n.ast.value) == 'call_at']
    obs.append(ob(R, hq, 'self._timers[addr] = ...', 'the armed timer is remembered under the source address', len(stores) == len(arm) == 1 and norm(stores[0].ast.targets[0].slice) == hq.params[2]))

    def effd(node: Any, evl: Any) -> List[Any]:
        out = []
        for c in node.calls():
            if call_name(c) == 'append':
                out.append('DEFER')
            if call_name(c) == 'call_at':
                out.append('ARM')
            if call_name(c) == '_respond_query':
                out.append('ANSWER')
        return out

    oc, _ = traces(ctx, hq, {'.truncated': False}, effd, loop_bound=1)
    obs.append(ob(R, hq, 'not truncated', 'a complete query is answered at once', {strip_ret(t) for t in oc} == {('ANSWER',)}))
    oc, _ = traces(ctx, hq, {'.truncated': True, '.data': b'same'}, effd, loop_bound=1, for_iter=lambda n, e: True)
    obs.append(ob(R, hq, 'truncated, identical packet already deferred', 'a repeated truncated packet is ignored', {strip_ret(t) for t in oc} == {()}))
    oc, _ = traces(ctx, hq, {'.truncated': True}, effd, loop_bound=1, for_iter=lambda n, e: False)
    obs.append(ob(R, hq, 'truncated, new packet', 'the packet is deferred and the timer armed', {strip_ret(t) for t in oc} == {('DEFER', 'ARM')}))
    rq = prog.func(LS + '._respond_query')
    me2 = rq.params[0]
    pops = [c for c in walk_local_ordered(rq.node) if isinstance(c, ast.Call) and call_name(c) == 'pop' and isinstance(c.func, ast.Attribute) and self_attr(c.func.value, me2) == '_deferred']
    cfg2 = cfg_of(rq.node)
    w = cfg2.must_pass_before_exit(cfg2.entry, lambda n: any(call_name(c) == '_cancel_any_timers_for_addr' for c in n.calls()))
    obs.append(ob(R, rq, 'packets = self._deferred.pop(addr, [])', 'answering consumes the deferred packets of that source and cancels its timer, so the union is answered exactly once', len(pops) == 1 and norm(pops[0].args[0]) == rq.params[2] and w is None))
    ct = prog.func(LS + '._cancel_any_timers_for_addr')

    cme = ct.params[0]

    def _is_handle(e: ast.AST) -> bool:
        e = expand(ct, e)
        if isinstance(e, ast.Call) and call_name(e) == 'pop' and isinstance(e.func, ast.Attribute) and self_attr(e.func.value, cme) == '_timers':
            return True
        return isinstance(e, ast.Subscript) and self_attr(e.value, cme) == '_timers'

    cancels = [c for c in walk_local_ordered(ct.node) if isinstance(c, ast.Call) and call_name(c) == 'cancel' and isinstance(c.func, ast.Attribute) and _is_handle(c.func.value)]
    removed = any(isinstance(c, ast.Call) and call_name(c) == 'pop' and isinstance(c.func, ast.Attribute) and self_attr(c.func.value, cme) == '_timers' for c in walk_local_ordered(ct.node)) or any(
        isinstance(d, ast.Delete) and any(isinstance(t, ast.Subscript) and self_attr(t.value, cme) == '_timers' for t in d.targets) for d in walk_local_ordered(ct.node))
    okc = bool(cancels) and removed
    obs.append(ob(R, ct, 'self._timers.pop(addr).cancel()', 'cancelling removes the handle and cancels it', okc))
    return obs


@rule('C12.ROUTE', 'D', expect_min=10)
def route12(ctx: Any) -> List[Ob]:
    """Which answers are sent at once, aggregated, or held by the one-second protection: the decision
    table of the multicast answer routine (probe replies at once; a record seen < 1 s ago waits in the
    protected queue -- this test comes before the single-question shortcut; a single SRV/A/AAAA/NSEC
    question at once; everything else aggregated).  Same table as C11.ROUTE part (c)."""
    from .c11 import mcast_table

    R = 'C12.ROUTE'
    prog = ctx.prog
    obs = mcast_table(ctx, R)
    # `a query consisting of a single SRV / A / AAAA / NSEC question` is judged on the questions the querier ASKED (all of
    # them), not on the ones this host can answer: what is handed to the response builder comes from the packets only
    ar = prog.func('zeroconf._handlers.query_handler.QueryHandler.async_response')
    ctor = [c for c in walk_local_ordered(ar.node) if isinstance(c, ast.Call) and call_name(c) == '_QueryResponse']
    if len(ctor) != 1 or len(ctor[0].args) < 2:
        raise AnalysisError('anchor vanished: construction of _QueryResponse in async_response')
    qarg = ctor[0].args[1]
    acc_parts: List[ast.AST] = []
    if isinstance(qarg, ast.Name):
        acc_parts = [c_.args[0] for c_ in walk_local_ordered(ar.node) if isinstance(c_, ast.Call) and call_name(c_) in ('extend', 'append') and isinstance(c_.func, ast.Attribute) and isinstance(c_.func.value, ast.Name) and c_.func.value.id == qarg.id and c_.args]
        acc_parts += [c_.value for c_ in walk_local_ordered(ar.node) if isinstance(c_, ast.AugAssign) and isinstance(c_.target, ast.Name) and c_.target.id == qarg.id]
    qx = qarg if acc_parts else expand(ar, qarg)  # an accumulator is judged through what it is extended with
    bound = {g.target.id for c_ in ast.walk(qx) if isinstance(c_, (ast.ListComp, ast.GeneratorExp, ast.SetComp)) for g in c_.generators if isinstance(g.target, ast.Name)}
    free = {x.id for x in ast.walk(qx) if isinstance(x, ast.Name)} - bound
    pk_param = ar.params[1]

    def packet_derived(nm: str, depth: int = 3) -> bool:
        """every definition of local `nm` is an expression over the packets parameter, or a loop variable over it"""
        if nm == pk_param:
            return True
        if depth == 0:
            return False
        vals = [st.value for st in walk_local_ordered(ar.node) if isinstance(st, ast.Assign) and any(isinstance(t, ast.Name) and t.id == nm for t in st.targets)]
        loops_ = [lp.iter for lp in walk_local_ordered(ar.node) if isinstance(lp, ast.For) and isinstance(lp.target, ast.Name) and lp.target.id == nm]
        # an accumulator: starts empty and is only ever extended, inside loops over packet-derived collections
        grows = [c_.args[0] for c_ in walk_local_ordered(ar.node) if isinstance(c_, ast.Call) and call_name(c_) in ('extend', 'append') and isinstance(c_.func, ast.Attribute) and isinstance(c_.func.value, ast.Name) and c_.func.value.id == nm and c_.args]
        grows += [c_.value for c_ in walk_local_ordered(ar.node) if isinstance(c_, ast.AugAssign) and isinstance(c_.target, ast.Name) and c_.target.id == nm]
        srcs = [v for v in vals if not (grows and isinstance(v, (ast.List, ast.Call)) and norm(v) in ('[]', 'list()'))] + loops_ + grows

        def derived_at(v: ast.AST) -> bool:
            """every name in `v` is packet-derived -- a name that an enclosing loop binds is judged by THAT loop (the same
            name may be bound again, later, by another loop)"""
            for x in ast.walk(v):
                if isinstance(x, ast.Name):
                    encl = [lp for lp in walk_local_ordered(ar.node) if isinstance(lp, ast.For) and isinstance(lp.target, ast.Name) and lp.target.id == x.id and any(y is v for b_ in lp.body for y in ast.walk(b_))]
                    if encl:
                        if not all(all(packet_derived(z.id, depth - 1) for z in ast.walk(lp.iter) if isinstance(z, ast.Name)) for lp in encl):
                            return False
                    elif not packet_derived(x.id, depth - 1):
                        return False
            return True

        return bool(srcs) and all(derived_at(v) for v in srcs)

    # (what it is extended with: the expression itself, or -- for a loop variable -- the collection its loop runs over)
    part_srcs: List[ast.AST] = [qx] + acc_parts
    for part in acc_parts:
        for x in ast.walk(part):
            if isinstance(x, ast.Name):
                part_srcs += [lp.iter for lp in walk_local_ordered(ar.node) if isinstance(lp, ast.For) and isinstance(lp.target, ast.Name) and lp.target.id == x.id and any(y is part for b_ in lp.body for y in ast.walk(b_))]
    from_packets = all(packet_derived(n_) for n_ in free) and any(isinstance(x, ast.Attribute) and x.attr in ('_questions', 'questions') for part in part_srcs for x in ast.walk(part))
    # `a record the host saw multicast less than one second before` is read from the cache: every record type the host can
    # answer with is cached when it is seen (pairs and cache adds per record type, shared with C06.ORDER)
    from .c06 import pair_per_live_record

    obs.extend(pair_per_live_record(ctx, R))
    obs.append(ob(R, ar, ctor[0], 'the question list that decides `single question, answer at once` is the list of questions asked in the packets', from_packets, '' if from_packets else f'`{norm(qx)[:80]}` is not derived from the packets alone'))
    # ... in ALL the packets of the query: a truncated query is a train of packets, and a train with several questions spread
    # over its packets does not consist of a single question
    def picks_one(e: ast.AST) -> bool:
        return any(isinstance(x, ast.Subscript) and isinstance(x.value, ast.Name) and x.value.id == pk_param and not isinstance(x.slice, ast.Slice) for x in ast.walk(e))

    one = picks_one(qx)
    for n_ in free:
        if n_ == pk_param:
            continue
        for st in walk_local_ordered(ar.node):
            if isinstance(st, ast.Assign) and any(isinstance(t, ast.Name) and t.id == n_ for t in st.targets) and picks_one(st.value):
                # a definition of the local that selects one packet -- relevant when that definition can reach the constructor
                one = True
    over_all = any(isinstance(c_, (ast.ListComp, ast.GeneratorExp, ast.SetComp)) and any(isinstance(g.iter, ast.Name) and g.iter.id == pk_param for g in c_.generators) for c_ in ast.walk(qx))
    if not over_all and isinstance(ctor[0].args[1], ast.Name):
        acc = ctor[0].args[1].id
        over_all = any(isinstance(lp, ast.For) and isinstance(lp.iter, ast.Name) and lp.iter.id == pk_param and any((isinstance(c_, ast.Call) and call_name(c_) in ('extend', 'append') and isinstance(c_.func, ast.Attribute) and isinstance(c_.func.value, ast.Name) and c_.func.value.id == acc) or (isinstance(c_, ast.AugAssign) and isinstance(c_.target, ast.Name) and c_.target.id == acc) for c_ in ast.walk(lp)) for lp in walk_local_ordered(ar.node))
    obs.append(ob(R, ar, ctor[0].args[1], 'that list holds the questions of every packet of the query (a truncated query spans several packets)', over_all and not one, 'only one packet of the train is consulted' if one else ('' if over_all else 'the list is not collected over all the packets')))
    return obs


EXPLANATION = (
    'C12.WINDOW (decided): the send window of queued answers normalised to linear forms over now / random draw / the two delays, '
    'with the queue constructions folded to (0, 500) and (1000, 200) and the 20-120 / 400-500 ms intervals; last-second test as a '
    'linear form. C12.WIRING (decided): flush logic (wait for first deadline, take due groups, re-arm for the remainder, de-duplicate '
    'before sending) and the truncated-query timer discipline. C12.ROUTE (decided): decision table of which answers go at once / aggregated / protected (shared with C11.ROUTE). Not decided: every bound over '
    'arrival schedules and random draws [X].'
)
EXPLANATION_ADDENDUM = (
    ' C12.WIRING also decides the liveness of the flush timer (every path leaves the queue empty or the timer armed) and that the removal of sent answers visits every queued group. C12.ROUTE (decided): answer-now / one-second-protected / aggregated routing table.'
)
EXPLANATION = EXPLANATION + EXPLANATION_ADDENDUM

RULES = [window, wiring, route12]

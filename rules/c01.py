"""C01 -- wire codec round trip: what is encoded is what any decoder recovers."""
from __future__ import annotations

import ast
from typing import Any, Dict, List, Optional, Set, Tuple

from sa import AnalysisError
from sa import fd, lf
from sa.cf import cfg_of
from sa.pm import ClassInfo, FuncInfo, call_name, norm, self_attr, walk_local_ordered
from sa.report import Ob, rule

from .common import attr_stores, expand, find_locals, ob, single_return_expr, strip_ret, traces

OUT = 'zeroconf._protocol.outgoing.DNSOutgoing'
INC = 'zeroconf._protocol.incoming.DNSIncoming'
REC = 'zeroconf._dns.DNSRecord'

WRITE_TOKENS = {'write_short': 'U16', '_write_byte': 'U8', '_write_int': 'U32', 'write_name': 'NAME', 'write_character_string': 'CSTR', 'write_string': 'RAW'}

# RFC 1035 section 3.3 / 3.4 (A, PTR, CNAME, HINFO, TXT), RFC 3596 (AAAA), RFC 2782 (SRV), RFC 4034 section 4.1 (NSEC).
# rdata layouts as (token, field) in wire order.  RAW widths: 4 / 16 / rest-of-rdata.
RFC_RDATA: Dict[int, Tuple[str, List[Tuple[str, str]]]] = {
    1: ('DNSAddress', [('RAW:4', 'address')]),
    28: ('DNSAddress', [('RAW:16', 'address')]),
    12: ('DNSPointer', [('NAME', 'alias')]),
    5: ('DNSPointer', [('NAME', 'alias')]),
    16: ('DNSText', [('RAW:rest', 'text')]),
    33: ('DNSService', [('U16', 'priority'), ('U16', 'weight'), ('U16', 'port'), ('NAME', 'server')]),
    13: ('DNSHinfo', [('CSTR', 'cpu'), ('CSTR', 'os')]),
    47: ('DNSNsec', [('NAME', 'next_name'), ('BITMAP', 'rdtypes')]),
}
RFC_HEADER = ['id', 'flags', 'questions', 'answers', 'authorities', 'additionals']  # RFC 1035 section 4.1.1
RFC_QUESTION = [('NAME', 'name'), ('U16', 'type'), ('U16', 'class')]  # 4.1.2
RFC_RR = [('NAME', 'name'), ('U16', 'type'), ('U16', 'class'), ('U32', 'ttl'), ('U16', 'rdlength')]  # 4.1.3


def be_pattern(prog: Any, m: Any, e: ast.AST, base_name: Optional[str] = None) -> Optional[Tuple[int, int, str]]:
    """Recognise  v[o+a] << 8*(n-1) | ... | v[o+a+n-1]  ->  (n bytes, a, base variable of the index)."""
    terms: List[ast.AST] = []

    def flat(x: ast.AST) -> None:
        if isinstance(x, ast.BinOp) and isinstance(x.op, ast.BitOr):
            flat(x.left)
            flat(x.right)
        else:
            terms.append(x)

    flat(e)
    if len(terms) < 2:
        return None
    parts = []
    for t in terms:
        shift = 0
        if isinstance(t, ast.BinOp) and isinstance(t.op, ast.LShift):
            okc, sv = prog.try_fold(m, t.right)
            if not okc:
                return None
            shift = sv
            t = t.left
        if not (isinstance(t, ast.Subscript) and not isinstance(t.slice, ast.Slice)):
            return None
        try:
            p = lf.poly(prog, m, t.slice, lambda x: x.id if isinstance(x, ast.Name) else None)
        except lf.NotLinear:
            return None
        syms = [k for k in p if k]
        if len(syms) != 1 or p[syms[0]] != 1:
            return None
        parts.append((shift, int(p.get((), 0)), syms[0][0][0]))
    n = len(parts)
    parts.sort(key=lambda x: -x[0])
    a0 = parts[0][1]
    base = parts[0][2]
    for i, (sh, a, b) in enumerate(parts):
        if sh != 8 * (n - 1 - i) or a != a0 + i or b != base:
            return None
    return n, a0, base


def writer_tokens(ctx: Any, f: FuncInfo) -> List[Tuple[str, str]]:
    """(token, field) sequence a record's write() emits, in statement order."""
    me, outp = f.params[0], f.params[1]
    toks: List[Tuple[str, str]] = []
    derived: Dict[str, str] = {}
    for st in walk_local_ordered(f.node):
        if isinstance(st, ast.Assign) and isinstance(st.targets[0], ast.Name):
            flds = sorted({x.attr for x in ast.walk(st.value) if isinstance(x, ast.Attribute) and self_attr(x, me)})
            deps = sorted({derived[x.id] for x in ast.walk(st.value) if isinstance(x, ast.Name) and x.id in derived})
            src = flds or deps
            if src:
                derived[st.targets[0].id] = src[0]
        elif isinstance(st, ast.For):
            flds = sorted({x.attr for x in ast.walk(st.iter) if isinstance(x, ast.Attribute) and self_attr(x, me)})
            if flds:
                for t in ast.walk(st.target):
                    if isinstance(t, ast.Name):
                        derived[t.id] = flds[0]
        elif isinstance(st, ast.AugAssign) and isinstance(st.target, ast.Subscript) and isinstance(st.target.value, ast.Name):
            deps = sorted({derived[x.id] for x in ast.walk(st.value) if isinstance(x, ast.Name) and x.id in derived})
            if deps:
                derived[st.target.value.id] = deps[0]
    for c in walk_local_ordered(f.node):
        if isinstance(c, ast.Call) and isinstance(c.func, ast.Attribute) and isinstance(c.func.value, ast.Name) and c.func.value.id == outp and c.func.attr in WRITE_TOKENS:
            a = c.args[0] if c.args else None
            fld = '?'
            if a is not None:
                flds = [x.attr for x in ast.walk(a) if isinstance(x, ast.Attribute) and self_attr(x, me)]
                names = [derived[x.id] for x in ast.walk(a) if isinstance(x, ast.Name) and x.id in derived]
                okc, cv = ctx.prog.try_fold(f.module, a)
                fld = flds[0] if flds else (names[0] if names else (f'const:{cv}' if okc else '?'))
                if isinstance(a, ast.Call) and norm(a.func) == 'len' and names:
                    fld = 'len:' + names[0]
            toks.append((WRITE_TOKENS[c.func.attr], fld))
    return toks


def bitmap_block(ctx: Any) -> Tuple[Optional[str], bool]:
    """The NSEC bitmap reader, per block: (the local that holds the block-length byte -- the byte read at cursor + 1 --,
    whether the cursor advances by exactly 2 + that length).  The cursor is `self.offset` or a local bound to it; the advance
    may be spelled `self.offset += 2 + n` or `self.offset = <cursor + 2 + n>` through any locals."""
    from .common import expand as _xp_b

    prog = ctx.prog
    rb = prog.func(INC + '._read_bitmap')
    me = rb.params[0]

    def sym(x: ast.AST) -> Optional[str]:
        if self_attr(x, me) == 'offset':
            return 'CUR'
        if isinstance(x, ast.Subscript) and not isinstance(x.slice, ast.Slice):
            try:
                pi = lf.poly(prog, rb.module, x.slice, sym)
            except lf.NotLinear:
                return None
            if pi == lf.parse_poly('CUR + 1'):
                return 'L'
            if pi == lf.parse_poly('CUR'):
                return 'W'
        return None

    length_l = None
    for st in walk_local_ordered(rb.node):
        if isinstance(st, ast.Assign) and isinstance(st.targets[0], ast.Name) and isinstance(st.value, ast.Subscript) and not isinstance(st.value.slice, ast.Slice):
            if sym(_xp_b(rb, st.value)) == 'L':
                length_l = st.targets[0].id
    adv_ok = False
    stores = [st for st in walk_local_ordered(rb.node) if (isinstance(st, ast.AugAssign) and self_attr(st.target, me) == 'offset') or (isinstance(st, ast.Assign) and self_attr(st.targets[0], me) == 'offset')]
    if len(stores) == 1:
        try:
            pv = lf.poly(prog, rb.module, _xp_b(rb, stores[0].value), sym)
            adv_ok = pv == lf.parse_poly('2 + L' if isinstance(stores[0], ast.AugAssign) else 'CUR + 2 + L') and (not isinstance(stores[0], ast.AugAssign) or isinstance(stores[0].op, ast.Add))
        except lf.NotLinear:
            adv_ok = False
    return length_l, adv_ok


def reader_arms(ctx: Any) -> Dict[int, Tuple[str, List[Tuple[str, str]]]]:
    """type constant -> (constructed class, rdata (token, field) sequence in evaluation order)."""
    prog = ctx.prog
    f = prog.func(INC + '._read_record')
    m = f.module
    me = f.params[0]
    arms: Dict[int, Tuple[str, List[Tuple[str, str]]]] = {}
    for st in f.node.body:
        if not isinstance(st, ast.If):
            continue
        t = st.test
        def fold_types(t: ast.AST) -> List[int]:
            if isinstance(t, ast.BoolOp) and isinstance(t.op, ast.Or):
                parts = [fold_types(v) for v in t.values]
                return [x for p_ in parts for x in p_] if all(parts) else []
            if isinstance(t, ast.Compare) and len(t.ops) == 1:
                if isinstance(t.ops[0], ast.Eq):
                    for side in (t.comparators[0], t.left):
                        okc, v = prog.try_fold(m, side)
                        if okc and not (isinstance(side, ast.Name) and side.id in f.params):
                            return [v]
                elif isinstance(t.ops[0], ast.In):
                    okc, v = prog.try_fold(m, t.comparators[0])
                    if okc:
                        return list(v)
            return []

        types: List[int] = fold_types(t)
        if not types:
            raise AnalysisError(f'_read_record: cannot fold the type test `{norm(t)}`')
        local_tok: Dict[str, Tuple[str, int]] = {}
        local_expr: Dict[str, ast.AST] = {}
        ret = None
        for b in st.body:
            if isinstance(b, ast.Assign) and isinstance(b.targets[0], ast.Name):
                bp = be_pattern(prog, m, b.value)
                if bp is not None:
                    local_tok[b.targets[0].id] = (f'U{8 * bp[0]}', bp[1])
                else:
                    local_expr[b.targets[0].id] = b.value  # a plain local: read through it
            if isinstance(b, ast.Return):
                ret = b.value
        # fixed-offset reads written in the arguments themselves (no local names them), by argument index
        inline_fixed: Dict[int, Tuple[int, int, str]] = {}
        if isinstance(ret, ast.Call):
            for i_a, a_ in enumerate(ret.args):
                bp = None if isinstance(a_, ast.Name) else be_pattern(prog, m, a_)
                if bp is not None:
                    inline_fixed[i_a] = bp
        if isinstance(ret, ast.Call) and local_expr:
            import copy as _copy

            class _Subst(ast.NodeTransformer):
                def visit_Name(self, n_: ast.Name) -> Any:
                    return _copy.deepcopy(local_expr[n_.id]) if isinstance(n_.ctx, ast.Load) and n_.id in local_expr else n_

            ret = _copy.deepcopy(ret)
            ret.args = [_Subst().visit(a) for a in ret.args]
        tparam = next((x.id for x in ast.walk(t) if isinstance(x, ast.Name) and x.id in f.params), None)
        if not (isinstance(ret, ast.Call) and isinstance(ret.func, ast.Name)):
            raise AnalysisError(f'_read_record: arm for {types} does not return a constructor call')
        r = prog.resolve_name(m, ret.func.id)
        if not r or r[0] != 'class':
            raise AnalysisError(f'_read_record: `{ret.func.id}` is not a class')
        ci: ClassInfo = r[1]
        init = ci.find_method('__init__')
        params = init.params[1:]
        seq_locals = sorted(((off, nm, tok) for nm, (tok, off) in local_tok.items()))
        toks: List[Tuple[str, str]] = []
        arg_field = {}
        for i, a in enumerate(ret.args):
            if i < len(params):
                arg_field[id(a)] = params[i]
        # locals read before the call, in offset order
        fixed: List[Tuple[int, str, str]] = []
        for off, nm, tok in seq_locals:
            fld = next((arg_field[id(a)] for a in ret.args if isinstance(a, ast.Name) and a.id == nm and id(a) in arg_field), '?' + nm)
            fixed.append((off, tok, fld))
        for i_a, bp in inline_fixed.items():
            fixed.append((bp[1], f'U{8 * bp[0]}', arg_field.get(id(ret.args[i_a]), '?')))
        for off, tok, fld in sorted(fixed):
            toks.append((tok, fld))
        for a in ret.args:
            fld = arg_field.get(id(a), '?')
            if isinstance(a, ast.Call) and isinstance(a.func, ast.Attribute) and self_attr(a.func, me):
                nm = a.func.attr
                if nm == '_read_name':
                    toks.append(('NAME', fld))
                elif nm == '_read_character_string':
                    toks.append(('CSTR', fld))
                elif nm == '_read_string':
                    okc, v = prog.try_fold(m, a.args[0]) if a.args else (False, None)
                    if not okc and a.args and tparam is not None:
                        # a width that depends on the record type (`4 if type_ == _TYPE_A else 16`): one value per type of the arm
                        vals = [fd.Evaluator(prog, m, {tparam: ty_}).ev(a.args[0]) for ty_ in types]
                        if all(isinstance(x, int) for x in vals):
                            toks.append(('RAW:' + '|'.join(str(x) for x in vals), fld))
                            continue
                    if okc and not (isinstance(a.args[0], ast.Name) and a.args[0].id in f.params):
                        toks.append((f'RAW:{v}', fld))
                    elif isinstance(a.args[0], ast.Name) and a.args[0].id == f.params[5]:
                        toks.append(('RAW:rest', fld))
                    else:
                        toks.append((f'RAW:?{norm(a.args[0])}', fld))
                elif nm == '_read_bitmap':
                    toks.append(('BITMAP', fld))
                else:
                    toks.append((f'?{nm}', fld))
        for i_ty, ty in enumerate(types):
            arms[ty] = (ci.name, [((tok.split(':')[0] + ':' + tok.split(':')[1].split('|')[i_ty]) if tok.startswith('RAW:') and '|' in tok else tok, fld) for tok, fld in toks])
    return arms


@rule('C01.LAYOUT', 'N', expect_min=20)
def layout(ctx: Any) -> List[Ob]:
    """Writer / reader / RFC agreement of the wire layout: the token sequence each
    record's write() emits, the token sequence each decoder arm consumes (mapped
    through the constructor to fields) and the RFC 1035 / 2782 / 3596 / 4034
    layout table must all agree -- so a symmetric encoder+decoder change, which
    own-decoder tests cannot see, is caught; the same for header, question and
    resource-record framing; and every record kind with a writer has a reader."""
    R = 'C01.LAYOUT'
    prog = ctx.prog
    obs: List[Ob] = []
    arms = reader_arms(ctx)
    rec = prog.cls(REC)
    writers: Dict[str, List[Tuple[str, str]]] = {}
    for c in rec.all_subclasses():
        w = c.methods.get('write')
        if w is None:
            obs.append(ob(R, c, f'class {c.name}', 'every record kind has its own write()', False))
            continue
        writers[c.name] = writer_tokens(ctx, w)
    # who may touch the builder: a record's writer goes through the builder's field writers and nothing else -- the
    # compression table, the running size and the byte-level primitives belong to the builder, and a writer that emits a
    # name itself (or a pointer to one) by-passes the label-boundary and offset rules write_name keeps
    for c in rec.all_subclasses():
        w = c.methods.get('write')
        if w is None or len(w.params) < 2:
            continue
        outp = w.params[1]
        alias = {outp}
        for st in walk_local_ordered(w.node):
            if isinstance(st, ast.Assign) and isinstance(st.targets[0], ast.Name) and isinstance(st.value, ast.Name) and st.value.id in alias:
                alias.add(st.targets[0].id)
        touched = sorted({x.attr for x in ast.walk(w.node) if isinstance(x, ast.Attribute) and isinstance(x.value, ast.Name) and x.value.id in alias and x.attr not in WRITE_TOKENS})
        passed = [norm(x) for x in ast.walk(w.node) if isinstance(x, ast.Call) and any(isinstance(a, ast.Name) and a.id in alias for a in list(x.args) + [k.value for k in x.keywords])]
        obs.append(ob(R, w, f'{c.name}.write uses {outp}.{{{", ".join(touched)}}}' if touched else f'{c.name}.write', 'a record writer touches the message builder only through its field writers (names, offsets and raw bytes stay with the builder)', not touched and not passed, f'touched {touched}; builder handed on in {passed[:2]}'))
    rinc = prog.func(INC + '._read_record')
    want_types = set(RFC_RDATA)
    obs.append(ob(R, rinc, f'decoder arms for types {sorted(arms)}', f'the decoder dispatches exactly the supported types {sorted(want_types)}', set(arms) == want_types))
    read_classes = {v[0] for v in arms.values()}
    obs.append(ob(R, rinc, f'classes built by the decoder: {sorted(read_classes)}', 'every record kind that has a writer has a reader arm', set(writers) == read_classes, f'writers: {sorted(writers)}'))

    def strip_raw(t: str) -> str:
        return 'RAW' if t.startswith('RAW') else t

    for ty, (cls, want) in sorted(RFC_RDATA.items()):
        if ty not in arms:
            continue
        rcls, rtoks = arms[ty]
        obs.append(ob(R, rinc, f'type {ty}: reads {rtoks} into {rcls}', f'RFC layout for type {ty} is {want} in a {cls}', rcls == cls and rtoks == want))
        wt = writers.get(cls, [])
        if cls == 'DNSNsec':
            # NAME next_name, then one window: U8 window=0, U8 len(bitmap), RAW bitmap
            good = wt == [('NAME', 'next_name'), ('U8', 'const:0'), ('U8', 'len:rdtypes'), ('RAW', 'rdtypes')]
            obs.append(ob(R, prog.cls('zeroconf._dns.DNSNsec').methods['write'], f'writes {wt}', 'NSEC rdata: next name, window block 0, bitmap length, bitmap (RFC 4034 4.1.2)', good))
        else:
            want_w = [(strip_raw(t), fld) for t, fld in want]
            obs.append(ob(R, prog.cls('zeroconf._dns.' + cls).methods['write'], f'type {ty}: writes {wt}', f'writer emits {want_w}', wt == want_w))
    # NSEC bitmap reader: per window  U8 window, U8 length, then `length` bytes; advances 2 + length
    rb = prog.func(INC + '._read_bitmap')
    me = rb.params[0]
    good = bitmap_block(ctx)[1]
    obs.append(ob(R, rb, 'self.offset += 2 + bitmap_length', 'the bitmap reader consumes window byte, length byte and exactly `length` bitmap bytes per block', good))
    # framing: question and RR
    out = prog.cls(OUT)
    wq = out.methods['_write_question']
    wr = out.methods['_write_record']

    def frame_tokens(f: FuncInfo) -> List[Tuple[str, str]]:
        me_ = f.params[0]
        ent = f.params[1]
        toks = []
        for c in walk_local_ordered(f.node):
            if isinstance(c, ast.Call) and isinstance(c.func, ast.Attribute) and self_attr(c.func, me_):
                nm = c.func.attr
                if nm in WRITE_TOKENS:
                    a = c.args[0]
                    fld = a.attr if isinstance(a, ast.Attribute) and isinstance(a.value, ast.Name) and a.value.id == ent else (f'const:{a.value}' if isinstance(a, ast.Constant) else '?')
                    toks.append((WRITE_TOKENS[nm], fld))
                elif nm == '_write_record_class':
                    toks.append(('U16', 'class'))
                elif nm == '_write_ttl':
                    toks.append(('U32', 'ttl'))
        return toks

    obs.append(ob(R, wq, f'writes {frame_tokens(wq)}', f'question framing is {RFC_QUESTION} (RFC 1035 4.1.2)', frame_tokens(wq) == RFC_QUESTION))
    want_rr = RFC_RR[:4] + [('U16', 'const:0')]
    obs.append(ob(R, wr, f'writes {frame_tokens(wr)} then rdata', 'resource-record framing is name, type, class, ttl, rdlength placeholder, rdata (RFC 1035 4.1.3)', frame_tokens(wr) == want_rr and any(isinstance(c, ast.Call) and call_name(c) == 'write' for c in walk_local_ordered(wr.node))))
    wc = out.methods['_write_record_class']
    obs.append(ob(R, wc, 'self.write_short(class_ ...)', 'the class is one 16-bit field', (lambda own: bool(own) and all(c.func.attr == 'write_short' for c in own))([c for c in walk_local_ordered(wc.node) if isinstance(c, ast.Call) and isinstance(c.func, ast.Attribute) and self_attr(c.func, wc.params[0])])))
    wt = out.methods['_write_ttl']
    obs.append(ob(R, wt, 'self._write_int(...)', 'the TTL is one 32-bit field', [call_name(c) for c in walk_local_ordered(wt.node) if isinstance(c, ast.Call) and call_name(c).startswith(('_write', 'write'))] == ['_write_int']))
    from .c13 import write_ttl_obligations

    obs.extend(write_ttl_obligations(ctx, R))
    # header flag word (RFC 1035 4.1.1): the constants, and what the decoder reads from it, for both sides of the codec --
    # a message is a query iff the QR bit (0x8000) is clear, a response iff it is set, truncated iff the TC bit (0x0200) is set
    for nm, want in (('_FLAGS_QR_MASK', 0x8000), ('_FLAGS_QR_QUERY', 0x0000), ('_FLAGS_QR_RESPONSE', 0x8000), ('_FLAGS_AA', 0x0400), ('_FLAGS_TC', 0x0200)):
        v = prog.const('zeroconf.const', nm)
        obs.append(ob(R, ('src/zeroconf/const.py', '<module>'), f'{nm} = {v:#06x}' if isinstance(v, int) else f'{nm} = {v!r}', f'{nm} is {want:#06x} (RFC 1035 4.1.1)', v == want))
    inc_cls = prog.cls(INC)
    for meth, bit_fn in (('is_query', lambda fl: fl & 0x8000 == 0), ('is_response', lambda fl: fl & 0x8000 != 0), ('truncated', lambda fl: fl & 0x0200 != 0)):
        hm = inc_cls.methods.get(meth) or inc_cls.properties.get(meth) if hasattr(inc_cls, 'properties') else inc_cls.methods.get(meth)
        if hm is None:
            raise AnalysisError(f'anchor vanished: DNSIncoming.{meth}')
        e_ = single_return_expr(hm)
        bad_fl = []
        for fl in (0x0000, 0x8000, 0x8400, 0x0200, 0x8600, 0x0001, 0x7FFF):
            v = fd.Evaluator(prog, hm.module, {f'{hm.params[0]}.flags': fl}).ev(e_)
            if v is fd.UNKNOWN or bool(v) != bit_fn(fl):
                bad_fl.append((hex(fl), v))
        obs.append(ob(R, hm, e_, f'{meth} reads its bit of the flag word and nothing else', not bad_fl, f'wrong for flags {bad_fl}'))
    # none lost: a record handed to the builder with a time is kept exactly when it has not expired at that time (a record with
    # less than a second to live is written with remaining TTL 0, not dropped), and always for time 0
    aat = out.methods['add_answer_at_time']
    p_rec, p_now = aat.params[1], aat.params[2]

    def eff_keep(node: Any, evl: Any) -> List[Any]:
        return ['KEEP' for c in fd.node_calls(node, evl) if call_name(c) in ('append', 'add', 'insert')]

    for has_rec in (True, False):
        for now_v in (0, 5000.0):
            for expired in (True, False):
                oc, und = traces(ctx, aat, {p_rec: 'record' if has_rec else None, p_now: now_v, '.is_expired()': expired}, eff_keep)
                kept = {('KEEP' in t) for t in oc}
                want = has_rec and (now_v == 0 or not expired)
                obs.append(ob(R, aat, f'record {"given" if has_rec else "None"}, time {now_v:g}, {"expired" if expired else "not expired"} at that time', f'the record is {"kept" if want else "not kept"} as an answer', kept == {want} and not und, f'kept on {sorted(kept)}; undecided {und} (the only lifetime test allowed here is is_expired(time))'))
    from .c05 import lifetime as _lifetime

    for o in _lifetime.fn(ctx):
        if o.construct == 'get_remaining_ttl' and not any(x.construct == 'get_remaining_ttl' for x in obs):
            o.rule = R
            o.statement += ' -- this is the value the TTL field carries for a timed answer'
            obs.append(o)

    def read_frame(f: FuncInfo, nfixed: int) -> Tuple[List[Tuple[str, str, int]], Optional[int]]:
        """Tokens read per entry; each local is named by the role it plays: the parameter of the
        constructor / record reader it is handed to (so renaming a local changes nothing)."""
        me_ = f.params[0]
        toks: List[Tuple[str, str, int]] = []
        adv = None
        lp = next((n for n in walk_local_ordered(f.node) if isinstance(n, ast.For)), None)
        if lp is None:
            return toks, adv
        role: Dict[str, str] = {}

        def classify(val: ast.AST, nm: str) -> None:
            if isinstance(val, ast.Call) and call_name(val) == '_read_name':
                toks.append(('NAME', nm, -1))
            bp = be_pattern(prog, f.module, val)
            if bp is not None:
                toks.append((f'U{8 * bp[0]}', nm, bp[1]))

        for c in ast.walk(lp):
            if isinstance(c, ast.Call) and call_name(c) in ('DNSQuestion', '_read_record'):
                if call_name(c) == 'DNSQuestion':
                    pn = ['name', 'type', 'class']
                else:
                    pn = [x.rstrip('_') for x in prog.func(INC + '._read_record').params[1:]]
                    pn = ['name' if x == 'domain' else x for x in pn]
                for a, nm in zip(c.args, pn):
                    if isinstance(a, ast.Name):
                        role.setdefault(a.id, nm)
                    else:
                        # the field is read in the argument itself (no local names it)
                        classify(a, nm)
        for st in lp.body:
            if isinstance(st, ast.Assign) and isinstance(st.targets[0], ast.Name):
                v = st.targets[0].id
                classify(st.value, role.get(v, '?' + v))
            if isinstance(st, ast.AugAssign) and self_attr(st.target, me_) == 'offset':
                okc, v2 = prog.try_fold(f.module, st.value)
                adv = v2 if okc else None
        # fixed-offset reads are independent of each other: compare them in wire order, not statement order
        return sorted(toks, key=lambda t: t[2]), adv

    rq, adv_q = read_frame(prog.func(INC + '._read_questions'), 4)
    obs.append(ob(R, prog.func(INC + '._read_questions'), f'reads {rq}, advances {adv_q}', 'question: name, type@0, class@2, 4 bytes', [(t, f) for t, f, _ in rq] == [('NAME', 'name'), ('U16', 'type'), ('U16', 'class')] and [o for _, _, o in rq] == [-1, 0, 2] and adv_q == 4))
    ro, adv_o = read_frame(prog.func(INC + '._read_others'), 10)
    obs.append(ob(R, prog.func(INC + '._read_others'), f'reads {ro}, advances {adv_o}', 'record: name, type@0, class@2, ttl@4 (32 bit), rdlength@8, 10 bytes', [(t, f, o) for t, f, o in ro] == [('NAME', 'name', -1), ('U16', 'type', 0), ('U16', 'class', 2), ('U32', 'ttl', 4), ('U16', 'length', 8)] and adv_o == 10))
    # header
    rh = prog.func(INC + '._read_header')
    hdr: List[Tuple[int, str]] = []
    adv_h = None
    for st in rh.node.body:
        if isinstance(st, ast.Assign) and self_attr(st.targets[0], rh.params[0]):
            bp = be_pattern(prog, rh.module, st.value)
            if bp is not None and bp[0] == 2:
                hdr.append((bp[1], st.targets[0].attr.replace('_num_', '')))
        if isinstance(st, ast.AugAssign) and self_attr(st.target, rh.params[0]) == 'offset':
            okc, adv_h = prog.try_fold(rh.module, st.value)
        if isinstance(st, ast.Assign) and self_attr(st.targets[0], rh.params[0]) == 'offset':
            # `self.offset = offset + 12` where `offset` is the local that holds the cursor on entry
            from .common import expand as _xp_h

            try:
                p_h = lf.poly(prog, rh.module, _xp_h(rh, st.value), lambda x: 'CUR' if self_attr(x, rh.params[0]) == 'offset' else None)
                if p_h.get((('CUR', 1),), 0) == 1 and set(p_h) <= {(('CUR', 1),), ()}:
                    adv_h = int(p_h.get((), 0))
            except lf.NotLinear:
                pass
    hdr.sort()
    obs.append(ob(R, rh, f'reads {hdr}, advances {adv_h}', f'header fields in wire order are {RFC_HEADER}, 12 bytes (RFC 1035 4.1.1)', [f for _, f in hdr] == RFC_HEADER and [o for o, _ in hdr] == [0, 2, 4, 6, 8, 10] and adv_h == 12))
    # rdlength honoured on skip and on decode error
    ro_f = prog.func(INC + '._read_others')
    len_local = next((a.id for c in ast.walk(ro_f.node) if isinstance(c, ast.Call) and call_name(c) == '_read_record' and len(c.args) == 5 for a in [c.args[4]] if isinstance(a, ast.Name)), '?')
    ends = [st.targets[0].id for st in walk_local_ordered(ro_f.node) if isinstance(st, ast.Assign) and isinstance(st.targets[0], ast.Name) and isinstance(st.value, ast.BinOp) and isinstance(st.value.op, ast.Add) and {norm(st.value.left), norm(st.value.right)} == {f'{ro_f.params[0]}.offset', len_local}]
    handlers = [h for t in walk_local_ordered(ro_f.node) if isinstance(t, ast.Try) for h in t.handlers]
    resets = [st for h in handlers for st in ast.walk(h) if isinstance(st, ast.Assign) and self_attr(st.targets[0], ro_f.params[0]) == 'offset' and norm(st.value) in ends]
    obs.append(ob(R, ro_f, 'end = self.offset + length; except: self.offset = end', 'a record that fails to decode is skipped by its rdlength', bool(ends) and bool(resets)))
    skip = [st for st in rinc.node.body if isinstance(st, ast.AugAssign) and self_attr(st.target, rinc.params[0]) == 'offset']
    obs.append(ob(R, rinc, 'self.offset += length', 'an unknown record type is skipped by exactly its rdlength', len(skip) == 1 and norm(skip[0].value) == rinc.params[5]))
    # created time of decoded records = arrival time
    n_now = 0
    n_ctor = 0
    for st in rinc.node.body:
        for c in ast.walk(st):
            if isinstance(c, ast.Call) and isinstance(c.func, ast.Name) and c.func.id.startswith('DNS'):
                n_ctor += 1
                if c.args and self_attr(c.args[-1], rinc.params[0]) == 'now':
                    n_now += 1
    obs.append(ob(R, rinc, f'{n_now}/{n_ctor} constructors end with self.now', 'every decoded record is created at the datagram\'s arrival time', n_ctor >= 1 and n_now == n_ctor and len(set(reader_arms(ctx))) >= 8))
    obs.extend(ctor_verbatim_obligations(ctx, R))
    return obs


def record_loop_obligations(ctx: Any, R: str) -> List[Ob]:
    """`none lost`: one trip of the record loop of the decoder hands the frame it has just read to the record reader, whatever
    the frame says (a zero rdata length is a legal record: an empty TXT), and a record that was built is appended -- on every
    path of the trip; the question loop appends the question it has built."""
    prog = ctx.prog
    obs: List[Ob] = []
    ro = prog.func(INC + '._read_others')
    cfg = cfg_of(ro.node)
    heads = [n for n in cfg.nodes if n.kind == 'for' and not n.in_loop]
    if len(heads) != 1:
        raise AnalysisError('anchor vanished: the record loop of _read_others')
    h = heads[0]
    me = ro.params[0]

    def eff(node: Any, evl: Any) -> List[Any]:
        out_ = []
        for c in fd.node_calls(node, evl):
            if call_name(c) == '_read_record':
                out_.append('READ')
            if call_name(c) == 'append' and isinstance(c.func, ast.Attribute) and self_attr(c.func.value, me) == '_answers':
                out_.append(('KEEP', norm(c.args[0]) if c.args else '?'))
        return out_

    rec_names = {st.targets[0].id for st in walk_local_ordered(ro.node) if isinstance(st, ast.Assign) and isinstance(st.targets[0], ast.Name) and isinstance(st.value, ast.Call) and call_name(st.value) == '_read_record'}
    for built in (True, False):
        atoms = {norm(t.ast): (built if isinstance(t.ast, ast.Compare) and isinstance(t.ast.ops[0], ast.IsNot) else not built) for t in cfg.nodes if t.kind == 'test' and isinstance(t.ast, ast.Compare) and len(t.ast.ops) == 1 and isinstance(t.ast.ops[0], (ast.Is, ast.IsNot)) and isinstance(t.ast.left, ast.Name) and t.ast.left.id in rec_names}
        oc, und = fd.run_paths(prog, ro.module, cfg, atoms, eff, start=h, stop=lambda n: n is h, loop_bound=1, for_iter=lambda n, e: True)
        seqs = {tuple(x for x in strip_ret(t) if x == 'READ' or isinstance(x, tuple) and x[0] == 'KEEP') for t in oc}
        want = {('READ',) + ((('KEEP', sorted(rec_names)[0]),) if built and rec_names else ())}
        obs.append(ob(R, ro, h.ast, f'every record frame goes to the record reader (a record {"that was built is kept" if built else "of an unsupported type is dropped"})', len(rec_names) == 1 and seqs == want, f'per frame: {sorted(map(str, seqs))}; tests left open: {und}'))
    rq = prog.func(INC + '._read_questions')
    qcfg = cfg_of(rq.node)
    qh = [n for n in qcfg.nodes if n.kind == 'for' and not n.in_loop]
    if len(qh) == 1:
        oc_q, _ = fd.run_paths(prog, rq.module, qcfg, {}, lambda n, e: [('Q', call_name(c)) for c in fd.node_calls(n, e) if call_name(c) in ('DNSQuestion', 'append')], start=qh[0], stop=lambda n: n is qh[0], loop_bound=1, for_iter=lambda n, e: True)
        seq_q = {tuple(x[1] for x in strip_ret(t) if isinstance(x, tuple) and x[0] == 'Q') for t in oc_q}
        obs.append(ob(R, rq, qh[0].ast, 'every question frame becomes a question and is kept', seq_q == {('DNSQuestion', 'append')}, f'per frame: {sorted(map(str, seq_q))}'))
    return obs


def label_walk_obligations(ctx: Any, R: str) -> List[Ob]:
    """The label walk of the decoder as linear forms in the position `off` and the length byte `length`: a zero byte ends the
    name and the caller resumes at off + 1; a plain label is the `length` bytes from off + 1, and the walk moves on by
    1 + length; a pointer is two bytes, target (length & 0x3F) * 256 + the next byte, and the caller resumes at off + 2; the
    name reader stores the resume position and joins the labels it was handed with dots plus the root dot."""
    prog = ctx.prog
    f = prog.func(INC + '._decode_labels_at_offset')
    pos = f.params[1]
    obs: List[Ob] = []
    ldefs = {}
    from .common import local_defs as _ld2

    ldefs = _ld2(f)
    # the local that holds the length byte: assigned view[pos] / data[pos]
    lens_ = [n_ for n_, vs in ldefs.items() if any(v is not None and isinstance(v, ast.Subscript) and norm(v.slice) == pos for v in vs)]
    if len(lens_) != 1:
        raise AnalysisError(f'anchor vanished: the length byte of the label walk ({lens_})')
    ln_ = lens_[0]

    def sym(x: ast.AST) -> Optional[str]:
        if isinstance(x, ast.Name):
            return {pos: 'off', ln_: 'length'}.get(x.id, x.id)
        return None

    env: Dict[str, Any] = {}
    for n_, vs in ldefs.items():
        if n_ not in (pos, ln_) and len(vs) == 1 and vs[0] is not None:
            try:
                env[n_] = lf.poly(prog, f.module, vs[0], sym, env)
            except lf.NotLinear:
                pass

    def P(e: ast.AST) -> Any:
        try:
            return lf.poly(prog, f.module, e, sym, env)
        except lf.NotLinear:
            return None

    parents: Dict[int, ast.AST] = {}
    for a in ast.walk(f.node):
        for ch in ast.iter_child_nodes(a):
            parents[id(ch)] = a

    def guards(n: ast.AST) -> List[str]:
        out_ = []
        while id(n) in parents:
            par = parents[id(n)]
            if isinstance(par, ast.If) and n in par.body:
                out_.append(norm(par.test))
            n = par
        return out_

    def cmp_is(test: str, op: str, k: int) -> bool:
        try:
            pl, o = lf.comparison(prog, f.module, ast.parse(test, mode='eval').body, sym, env)
        except (lf.NotLinear, SyntaxError):
            return False
        want = {'==': lf.parse_cmp(f'length == {k}'), '<': lf.parse_cmp(f'length < {k}')}[op]
        return lf.same_cmp((pl, o), want)

    # zero byte
    zr = [r for r in walk_local_ordered(f.node) if isinstance(r, ast.Return) and r.value is not None and any(cmp_is(g, '==', 0) for g in guards(r))]
    obs.append(ob(R, f, zr[0].value if zr else 'return off + 1', 'a zero length byte ends the name; the caller resumes behind it (off + 1)', len(zr) == 1 and (P(zr[0].value) == lf.parse_poly('off + 1') or isinstance(zr[0].value, ast.BoolOp) and P(zr[0].value.values[-1]) == lf.parse_poly('off + 1')), f'returns `{norm(zr[0].value)}`' if zr else 'no return under `length == 0`'))
    # plain label
    lab_ifs = [n for n in walk_local_ordered(f.node) if isinstance(n, ast.If) and cmp_is(norm(n.test), '<', 0x40)]
    if len(lab_ifs) != 1:
        raise AnalysisError('anchor vanished: the plain-label arm (`length < 0x40`) of the label walk')
    arm = lab_ifs[0]
    slices = [x for st in arm.body for x in ast.walk(st) if isinstance(x, ast.Subscript) and isinstance(x.slice, ast.Slice) and x.slice.lower is not None and x.slice.upper is not None]
    okl = len(slices) == 1 and P(slices[0].slice.lower) == lf.parse_poly('off + 1') and P(slices[0].slice.upper) == lf.parse_poly('off + 1 + length')
    appended = [c for st in arm.body for c in ast.walk(st) if isinstance(c, ast.Call) and call_name(c) == 'append' and isinstance(c.func, ast.Attribute) and norm(c.func.value) == f.params[2] and slices and any(x is slices[0] for x in ast.walk(c))]
    obs.append(ob(R, f, slices[0] if slices else arm, 'a plain label is the `length` bytes that follow the length byte, appended to the caller\'s label list', okl and len(appended) == 1, f'slice `{norm(slices[0])}`' if slices else 'no slice in the arm'))
    adv = [st for st in arm.body if (isinstance(st, ast.AugAssign) and isinstance(st.target, ast.Name) and st.target.id == pos) or (isinstance(st, ast.Assign) and any(isinstance(t, ast.Name) and t.id == pos for t in st.targets))]
    # the advances of the arm, taken in order (one statement or several): together they move the position by 1 + length
    cur = lf.parse_poly('off')
    good_adv = bool(adv)
    for k_, st in enumerate(adv):
        pv = P(st.value)
        reads_pos = any(isinstance(x, ast.Name) and x.id == pos for x in ast.walk(st.value))
        if pv is None:
            good_adv = False
        elif isinstance(st, ast.AugAssign) and isinstance(st.op, ast.Add) and not reads_pos:
            cur = lf.p_add(cur, pv)
        elif isinstance(st, ast.Assign) and k_ == 0:
            cur = pv
        else:
            good_adv = False
    good_adv = good_adv and cur == lf.parse_poly('off + 1 + length')
    ends = isinstance(arm.body[-1], ast.Continue) and adv and arm.body.index(adv[0]) > max([arm.body.index(st) for st in arm.body if slices and any(x is slices[0] for x in ast.walk(st))] or [-1])
    obs.append(ob(R, f, adv[0] if adv else arm, 'after a plain label the walk moves on by 1 + length and takes the next length byte (the slice is taken before the position moves)', good_adv and bool(ends), f'position after the arm: {lf.p_str(cur)}'))
    # pointer
    ptr_defs = [(n_, v) for n_, vs in ldefs.items() for v in vs if v is not None and isinstance(v, ast.BinOp) and isinstance(v.op, (ast.Add, ast.BitOr)) and any(isinstance(x, ast.BinOp) and isinstance(x.op, ast.BitAnd) and prog.try_fold(f.module, x.right) == (True, 0x3F) for x in ast.walk(v))]
    okp = False
    whyp = 'no pointer target computed from (length & 0x3F)'
    if len(ptr_defs) == 1:
        v = ptr_defs[0][1]
        hi, lo = v.left, v.right
        hi_ok = isinstance(hi, ast.BinOp) and ((isinstance(hi.op, ast.Mult) and prog.try_fold(f.module, hi.right) == (True, 256)) or (isinstance(hi.op, ast.LShift) and prog.try_fold(f.module, hi.right) == (True, 8))) and isinstance(hi.left, ast.BinOp) and isinstance(hi.left.op, ast.BitAnd) and norm(hi.left.left) == ln_
        lo_e = lo
        if isinstance(lo, ast.Name) and len(ldefs.get(lo.id, [])) == 1 and ldefs[lo.id][0] is not None:
            lo_e = ldefs[lo.id][0]
        lo_ok = isinstance(lo_e, ast.Subscript) and P(lo_e.slice) == lf.parse_poly('off + 1')
        okp = hi_ok and lo_ok
        whyp = f'target `{norm(v)}`, low byte `{norm(lo_e)}`'
    obs.append(ob(R, f, ptr_defs[0][1] if ptr_defs else f.name, 'a pointer targets (length & 0x3F) * 256 + the byte that follows the length byte', okp, whyp))
    tail = [r for r in walk_local_ordered(f.node) if isinstance(r, ast.Return) and r.value is not None and r not in zr]
    okt = bool(tail) and all(P(r.value) == lf.parse_poly('off + 2') or isinstance(r.value, ast.Name) for r in tail)
    obs.append(ob(R, f, tail[0].value if tail else 'return off + 2', 'after a pointer the caller resumes behind its two bytes (off + 2, or the position kept for that purpose)', okt, ', '.join(norm(r.value) for r in tail)))
    # what stands behind a pointer is part of the name: with the target already decoded (memo hit) its labels are appended;
    # otherwise they are decoded from the target into a fresh list, remembered under the target, and appended -- on every path
    me_f = f.params[0]
    lab_p = f.params[2]
    memo_reads = {norm(c) for c in ast.walk(f.node) if isinstance(c, ast.Call) and isinstance(c.func, ast.Attribute) and c.func.attr == 'get' and self_attr(c.func.value, me_f) == '_name_cache'}
    ptr_name = ptr_defs[0][0] if len(ptr_defs) == 1 else None
    if memo_reads and ptr_name:
        def eff_ptr(node: Any, evl: Any) -> List[Any]:
            out_ = []
            for c in fd.node_calls(node, evl):
                if call_name(c) == f.name:
                    out_.append(('WALK', norm(c.args[0]) if c.args else '?', norm(c.args[1]) if len(c.args) > 1 else '?'))
                if call_name(c) == 'extend' and isinstance(c.func, ast.Attribute) and norm(c.func.value) == lab_p:
                    out_.append(('EXTEND', norm(c.args[0]) if c.args else '?'))
            if node.kind == 'stmt' and isinstance(node.ast, ast.Assign) and isinstance(node.ast.targets[0], ast.Subscript) and self_attr(node.ast.targets[0].value, me_f) == '_name_cache':
                out_.append(('REMEMBER', norm(node.ast.value)))
            return out_

        cfg_f = cfg_of(f.node)
        ptr_nodes = [n for n in cfg_f.nodes if n.kind == 'stmt' and isinstance(n.ast, ast.Assign) and any(isinstance(t, ast.Name) and t.id == ptr_name for t in n.ast.targets)]
        for hit in (True, False):
            atoms_p: Dict[str, Any] = {m_: (['x', 'y'] if hit else None) for m_ in memo_reads}
            for t in cfg_f.nodes:
                if t.kind == 'test' and t.ast is not None and ptr_nodes and cfg_f.dominates(ptr_nodes[0], t) and any(isinstance(x, ast.Raise) for s_, lab in t.succ if lab is True for x in ([s_.ast] if s_.ast is not None else [])):
                    atoms_p[norm(t.ast)] = False  # the rejections of a hostile pointer are C02's; here the pointer is a good one
            oc_p, und_p = fd.run_paths(prog, f.module, cfg_f, atoms_p, eff_ptr, start=ptr_nodes[0], loop_bound=1) if ptr_nodes else (set(), ['no pointer computation'])
            seqs_p = {tuple(x for x in t if isinstance(x, tuple) and x[0] in ('WALK', 'EXTEND', 'REMEMBER')) for t in oc_p if any(isinstance(x, tuple) and x[0] == 'ret' for x in t)}
            lists_p = {x[2] for sq in seqs_p for x in sq if x[0] == 'WALK'}
            if hit:
                okh = bool(seqs_p) and all(len(sq) == 1 and sq[0][0] == 'EXTEND' for sq in seqs_p)
            else:
                jumps_p = [st for st in walk_local_ordered(f.node) if isinstance(st, ast.Assign) and any(isinstance(t, ast.Name) and t.id == pos for t in st.targets) and norm(st.value) == ptr_name]
                if jumps_p and not any(call_name(c) == f.name for c in ast.walk(f.node) if isinstance(c, ast.Call)):
                    okh = True  # iterative form: the walk carries on at the target and the plain-label arm appends what it finds (resume position: see above)
                else:
                    okh = bool(seqs_p) and len(lists_p) == 1 and all([x[0] for x in sq] == ['WALK', 'REMEMBER', 'EXTEND'] and sq[0][1] == ptr_name and sq[1][1] == sq[0][2] and sq[2][1] == sq[0][2] for sq in seqs_p)
            obs.append(ob(R, f, f'pointer, target {"already decoded" if hit else "not decoded before"}', 'the labels behind the pointer are appended to the name' + ('' if hit else ' after being decoded from the target into their own list and remembered under it'), okh, f'effects on the returning paths: {sorted(map(str, seqs_p))[:2]}; undecided {und_p}'))
    # the walk hands back a position on every path that does not raise (running off the end of the datagram is a raise)
    cfg_f2 = cfg_of(f.node)
    bare = [p_ for p_, lab in cfg_f2.exit.pred if lab != 'exc' and not (p_.kind == 'return' and p_.ast is not None and p_.ast.value is not None)]
    obs.append(ob(R, f, bare[0].ast if bare and bare[0].ast is not None else f.name, 'every way out of the label walk is a returned position or a raise (no falling off the end)', not bare, f'{len(bare)} path(s) reach the end of the function without a value'))
    # name reader
    rn = prog.func(INC + '._read_name')
    rme = rn.params[0]
    calls = [c for c in walk_local_ordered(rn.node) if isinstance(c, ast.Call) and call_name(c) == '_decode_labels_at_offset']
    stores = [st for st in walk_local_ordered(rn.node) if isinstance(st, ast.Assign) and self_attr(st.targets[0], rme) == 'offset' and calls and st.value is calls[0]]
    rdefs = _ld2(rn)
    first_ok = bool(calls) and (self_attr(calls[0].args[0], rme) == 'offset' or (isinstance(calls[0].args[0], ast.Name) and [self_attr(v, rme) for v in rdefs.get(calls[0].args[0].id, []) if v is not None] == ['offset']))
    joins = [c for c in walk_local_ordered(rn.node) if isinstance(c, ast.Call) and call_name(c) == 'join' and isinstance(c.func, ast.Attribute) and isinstance(c.func.value, ast.Constant) and c.func.value.value == '.' and calls and len(calls[0].args) > 1 and norm(c.args[0]) == norm(calls[0].args[1])]
    obs.append(ob(R, rn, calls[0] if calls else '_decode_labels_at_offset', 'the name reader starts the walk at the current offset, stores the position it hands back as the new offset, and joins the labels it collected with dots', len(calls) == 1 and len(stores) == 1 and first_ok and len(joins) == 1, f'stores into offset: {len(stores)}; joins of the collected labels: {len(joins)}'))
    return obs


def resume_position_obligations(ctx: Any, R: str) -> List[Ob]:
    """Where the caller carries on after a name: behind its terminating zero, or behind the FIRST pointer of the name.  The
    label decoder returns that position.  As long as it follows a pointer by calling itself (the result of the inner call
    discarded) the position variable is only ever advanced and the returned position cannot move.  A decoder that follows
    pointers by re-pointing its position variable inside the loop must keep the position to resume at in a variable that is
    written at most once: each write inside the loop has to be guarded by a test of that variable, and the returns must not read
    the re-pointed position except as the fall-back of such a variable.  (A resume position overwritten at the second pointer
    makes the message reader re-read earlier bytes: the next entry is a duplicate and the tail is lost.)"""
    prog = ctx.prog
    f = prog.func(INC + '._decode_labels_at_offset')
    pos = f.params[1]
    loops_ = [lp for lp in walk_local_ordered(f.node) if isinstance(lp, (ast.While, ast.For))]
    parents: Dict[int, ast.AST] = {}
    for a in ast.walk(f.node):
        for ch in ast.iter_child_nodes(a):
            parents[id(ch)] = a

    def ancestors(n: ast.AST) -> List[ast.AST]:
        out_ = []
        while id(n) in parents:
            n = parents[id(n)]
            out_.append(n)
        return out_

    def in_loop(n: ast.AST) -> bool:
        return any(a in loops_ for a in ancestors(n))

    jumps = [st for st in walk_local_ordered(f.node) if isinstance(st, ast.Assign) and any(isinstance(t, ast.Name) and t.id == pos for t in st.targets) and in_loop(st)]
    rets = [r for r in walk_local_ordered(f.node) if isinstance(r, ast.Return) and r.value is not None]
    obs: List[Ob] = []
    if not jumps:
        # recursion form: the inner call's result must not become the position returned
        rec_calls = [c for c in walk_local_ordered(f.node) if isinstance(c, ast.Call) and call_name(c) == f.name]
        used = [c for c in rec_calls if not isinstance(parents.get(id(c)), ast.Expr)]
        obs.append(ob(R, f, rec_calls[0] if rec_calls else f.name, 'following a pointer does not move the position the caller resumes at (position variable only advanced; the inner call\'s result is discarded)', not used, f'{len(used)} inner call(s) whose result is used'))
        return obs
    bad: List[str] = []
    read_names: Set[str] = set()
    for r in rets:
        for x in ast.walk(r.value):
            if isinstance(x, ast.Name) and x.id != pos:
                read_names.add(x.id)
        # the re-pointed position may only be read as a fall-back: `v or pos + k` / `pos + k if not v else v`
        reads_pos = any(isinstance(x, ast.Name) and x.id == pos for x in ast.walk(r.value))
        fallback = isinstance(r.value, ast.BoolOp) and isinstance(r.value.op, ast.Or) and isinstance(r.value.values[0], ast.Name) or isinstance(r.value, ast.IfExp) and any(isinstance(x, ast.Name) and x.id != pos for x in ast.walk(r.value.test))
        if reads_pos and not fallback and in_loop(r):
            # a return reached only before any jump is fine when no jump precedes it in the loop body order and the loop is left by it
            cfg = cfg_of(f.node)
            rn = [n for n in cfg.nodes if n.ast is r]
            jn = [n for n in cfg.nodes if any(n.ast is j for j in jumps)]
            if any(cfg.path_avoiding(j, lambda n_, q=q: n_ is q, lambda n_: False) is not None for j in jn for q in rn):
                bad.append(f'line {r.lineno}: `{norm(r.value)}` reads the re-pointed position')
    for st in walk_local_ordered(f.node):
        if isinstance(st, (ast.Assign, ast.AugAssign)) and in_loop(st):
            tg = st.targets if isinstance(st, ast.Assign) else [st.target]
            for t in tg:
                if isinstance(t, ast.Name) and t.id in read_names:
                    guards = [a for a in ancestors(st) if isinstance(a, ast.If) and any(isinstance(x, ast.Name) and x.id == t.id for x in ast.walk(a.test))]
                    if not guards:
                        bad.append(f'line {st.lineno}: `{norm(st)}` rewrites the resume position on every pointer')
    obs.append(ob(R, f, jumps[0], 'the position the caller resumes at is fixed at the first pointer of a name (written once, never the re-pointed position)', not bad, '; '.join(bad[:3])))
    return obs


@rule('C01.PRIMS', 'D', expect_min=6)
def prims(ctx: Any) -> List[Ob]:
    """The read / write primitives consume and produce exactly what they say: a raw
    read returns data[offset : offset + n] and advances by n; a character-string
    read takes one length byte, advances 1, returns the next `length` bytes and
    advances by `length`; the character-string writer emits the length byte then
    the bytes; the section loops run exactly as many times as the header counts."""
    R = 'C01.PRIMS'
    prog = ctx.prog
    obs: List[Ob] = []
    inc = prog.cls(INC)

    def analyse_reader(f: FuncInfo) -> Tuple[List[Tuple[str, str]], List[str]]:
        """Symbolic walk of a straight-line reader: the offset is tracked as OFF0 + advance; every
        slice / byte read is reported relative to OFF0, every change of self.offset as an advance."""
        me = f.params[0]
        adv = lf.p_const(0)  # current offset = OFF + adv   (OFF = value on entry)
        slices: List[Tuple[str, str]] = []
        advs: List[str] = []
        env: Dict[str, Any] = {}

        def sym(x: ast.AST) -> Optional[str]:
            if self_attr(x, me) == 'offset':
                return 'CUR'
            if isinstance(x, ast.Name):
                return x.id
            return None

        def P(e: ast.AST) -> Any:
            p_ = lf.poly(prog, f.module, e, sym, env)
            c = p_.get((('CUR', 1),), 0)
            if c:
                p_ = dict(p_)
                del p_[(('CUR', 1),)]
                p_ = lf.p_add(lf.p_add(p_, lf.p_scale(lf.p_sym('OFF'), c)), lf.p_scale(adv, c))
            return p_

        def scan(e: ast.AST, target: Optional[str]) -> None:
            for sub in ast.walk(e):
                if isinstance(sub, ast.Subscript) and isinstance(sub.slice, ast.Slice) and sub.slice.lower is not None and sub.slice.upper is not None:
                    lo, hi = P(sub.slice.lower), P(sub.slice.upper)
                    slices.append((lf.p_str(lf.p_add(lo, lf.p_sym('OFF'), -1)), lf.p_str(lf.p_add(hi, lo, -1))))
                elif isinstance(sub, ast.Subscript) and not isinstance(sub.slice, ast.Slice) and target is not None:
                    idx = P(sub.slice)
                    slices.append(('byte@' + lf.p_str(lf.p_add(idx, lf.p_sym('OFF'), -1)), target))

        for st in f.node.body:
            if isinstance(st, ast.Assign) and self_attr(st.targets[0], me) == 'offset':
                new_off = P(st.value)
                d = lf.p_add(lf.p_add(new_off, lf.p_sym('OFF'), -1), adv, -1)
                adv = lf.p_add(new_off, lf.p_sym('OFF'), -1)
                advs.append(lf.p_str(d))
            elif isinstance(st, ast.AugAssign) and self_attr(st.target, me) == 'offset' and isinstance(st.op, ast.Add):
                d = P(st.value)
                adv = lf.p_add(adv, d)
                advs.append(lf.p_str(d))
            elif isinstance(st, ast.Assign) and isinstance(st.targets[0], ast.Name):
                scan(st.value, st.targets[0].id)
                try:
                    env[st.targets[0].id] = P(st.value)
                except lf.NotLinear:
                    env.pop(st.targets[0].id, None)
            elif isinstance(st, ast.AugAssign) and isinstance(st.target, ast.Name) and st.target.id in env and isinstance(st.op, (ast.Add, ast.Sub)):
                # a local cursor (`offset = self.offset; offset += 1`)
                env[st.target.id] = lf.p_add(env[st.target.id], P(st.value), 1 if isinstance(st.op, ast.Add) else -1)
            elif isinstance(st, ast.Return) and st.value is not None:
                scan(st.value, None)
        totals.append(lf.p_str(adv))
        return slices, advs

    totals: List[str] = []

    rs = inc.methods['_read_string']
    n = rs.params[1]
    try:
        sl, ad = analyse_reader(rs)
        ok = sl == [('0', n)] and totals[-1] == n  # (the total advance, in however many steps)
        why = f'slices {sl} advances {ad}'
    except lf.NotLinear as e:
        ok, why = False, str(e)
    obs.append(ob(R, rs, 'info = self.data[self.offset : self.offset + length]; self.offset += length', 'a raw read returns exactly the next n bytes and advances by n', ok, why))
    rc = inc.methods['_read_character_string']
    try:
        sl, ad = analyse_reader(rc)
        lenv = sl[0][1] if sl and sl[0][0] == 'byte@0' else '?'
        ok = len(sl) == 2 and sl[0][0] == 'byte@0' and sl[1] == ('1', lenv) and totals[-1] == lf.p_str(lf.parse_poly(f'1 + {lenv}')) if lenv != '?' else False
        why = f'reads {sl} advances {ad}'
    except lf.NotLinear as e:
        ok, why = False, str(e)
    obs.append(ob(R, rc, 'length = view[offset]; offset += 1; data[offset : offset + length]; offset += length', 'a character string is one length byte followed by exactly that many bytes', ok, why))
    out = prog.cls(OUT)
    wc = out.methods['write_character_string']
    v = wc.params[1]
    from .common import expand as _xp_w

    # (the length read through the local that names it, or written in the argument)
    calls = [(call_name(c), norm(_xp_w(wc, c.args[0]))) for c in walk_local_ordered(wc.node) if isinstance(c, ast.Call) and call_name(c) in ('_write_byte', 'write_string')]
    obs.append(ob(R, wc, 'self._write_byte(length); self.write_string(value)', 'a character string is written as its length byte followed by its bytes', calls == [('_write_byte', f'len({v})'), ('write_string', v)]))
    # section loops run header-count times
    rq = inc.methods['_read_questions']
    loops = [x for x in walk_local_ordered(rq.node) if isinstance(x, ast.For)]
    okq = len(loops) == 1 and isinstance(loops[0].iter, ast.Call) and norm(loops[0].iter.func) == 'range' and len(loops[0].iter.args) == 1 and self_attr(loops[0].iter.args[0], rq.params[0]) == '_num_questions'
    obs.append(ob(R, rq, 'for _ in range(self._num_questions)', 'exactly QDCOUNT questions are read', okq))
    ro = inc.methods['_read_others']
    loops = [x for x in walk_local_ordered(ro.node) if isinstance(x, ast.For)]
    oko = False
    if len(loops) == 1 and isinstance(loops[0].iter, ast.Call) and norm(loops[0].iter.func) == 'range' and len(loops[0].iter.args) == 1:
        from .common import expand

        e = expand(ro, loops[0].iter.args[0])
        try:
            p_ = lf.poly(prog, ro.module, e, lambda x: self_attr(x, ro.params[0]))
            oko = p_ == lf.parse_poly('_num_answers + _num_authorities + _num_additionals')
        except lf.NotLinear:
            pass
    obs.append(ob(R, ro, 'for _ in range(self._num_answers + self._num_authorities + self._num_additionals)', 'exactly ANCOUNT + NSCOUNT + ARCOUNT records are read', oko))
    ip = inc.methods['_initial_parse']
    seq = [call_name(c) for c in walk_local_ordered(ip.node) if isinstance(c, ast.Call) and call_name(c).startswith('_read_')]
    obs.append(ob(R, ip, f'{seq}', 'header, then questions, then (for responses) the record sections', seq == ['_read_header', '_read_questions', '_read_others']))
    # the decoded name: labels joined by dots with a trailing dot; name cache keyed by the start offset
    rn = inc.methods['_read_name']
    joined = [st for st in walk_local_ordered(rn.node) if isinstance(st, ast.Assign) and isinstance(st.value, ast.BinOp) and isinstance(st.value.op, ast.Add) and isinstance(st.value.left, ast.Call) and call_name(st.value.left) == 'join' and norm(st.value.left.func.value) == "'.'" and norm(st.value.right) == "'.'"]
    obs.append(ob(R, rn, "name = '.'.join(labels) + '.'", 'a decoded name is its labels joined by dots plus the root dot', len(joined) == 1))
    # the write primitives: each appends exactly one item to the packet data on every path and adds its width to the running
    # size (1 / 2 / 4 / len(value)); the section adders append the entry they are given to their own section list
    outc = prog.cls(OUT)
    for wname, width in (('_write_byte', '1'), ('write_short', '2'), ('_write_int', '4'), ('write_string', None)):
        w = outc.methods.get(wname)
        if w is None:
            raise AnalysisError(f'anchor vanished: DNSOutgoing.{wname}')
        wme = w.params[0]

        def eff_w(node: Any, evl: Any, wme: str = wme) -> List[Any]:
            out_ = []
            for c in node.calls():
                if call_name(c) == 'append' and isinstance(c.func, ast.Attribute) and self_attr(c.func.value, wme) == 'data':
                    out_.append('APPEND')
            if node.kind == 'stmt' and isinstance(node.ast, ast.AugAssign) and isinstance(node.ast.op, ast.Add) and self_attr(node.ast.target, wme) == 'size':
                out_.append(('SIZE', norm(node.ast.value)))
            return out_

        oc_w, _ = traces(ctx, w, {}, eff_w, loop_bound=1)
        seqs_w = {tuple(x for x in strip_ret(t) if x == 'APPEND' or isinstance(x, tuple) and x[0] == 'SIZE') for t in oc_w}
        want_sz = width if width is not None else f'len({w.params[1]})'
        obs.append(ob(R, w, f'self.data.append(...); self.size += {want_sz}', f'{wname} appends one item and accounts {want_sz} byte(s), on every path', bool(seqs_w) and all(sorted(map(str, sq)) == sorted(map(str, ('APPEND', ('SIZE', want_sz)))) for sq in seqs_w), f'effects per path: {sorted(map(str, seqs_w))}'))
    for aname, lst in (('add_question', 'questions'), ('add_authorative_answer', 'authorities'), ('add_additional_answer', 'additionals')):
        a = outc.methods.get(aname)
        if a is None:
            raise AnalysisError(f'anchor vanished: DNSOutgoing.{aname}')
        ame = a.params[0]
        oc_a, _ = traces(ctx, a, {}, lambda node, evl, ame=ame, lst=lst, a=a: [('PUT', self_attr(c.func.value, ame), norm(c.args[0])) for c in node.calls() if call_name(c) == 'append' and isinstance(c.func, ast.Attribute) and c.args], loop_bound=1)
        seqs_a = {tuple(x for x in strip_ret(t) if isinstance(x, tuple) and x[0] == 'PUT') for t in oc_a}
        obs.append(ob(R, a, f'self.{lst}.append({a.params[1]})', f'{aname} appends the entry it is given to `{lst}` (none lost)', seqs_a == {(('PUT', lst, a.params[1]),)}, f'effects {sorted(map(str, seqs_a))}'))
    obs.extend(resume_position_obligations(ctx, R))
    obs.extend(label_walk_obligations(ctx, R))
    obs.extend(record_loop_obligations(ctx, R))
    return obs


def decoder_label_domain(ctx: Any, R: str) -> List[Ob]:
    """Decoder side of the label-type domain (RFC 1035 4.1.4): first byte 1..63 is a label of that many bytes,
    64..191 is rejected, 192..255 is a pointer made of the low six bits and the next byte."""
    prog = ctx.prog
    obs: List[Ob] = []
    dec = prog.func(INC + '._decode_labels_at_offset')
    off_p = dec.params[1]
    len_vars = [st.targets[0].id for st in walk_local_ordered(dec.node) if isinstance(st, ast.Assign) and isinstance(st.targets[0], ast.Name) and isinstance(st.value, ast.Subscript) and norm(st.value.slice) == off_p]
    consts_set = set()
    for c in walk_local_ordered(dec.node):
        if isinstance(c, ast.Compare) and len(c.ops) == 1:
            try:
                pp, op_ = lf.comparison(prog, dec.module, c, lambda x: 'L' if isinstance(x, ast.Name) and x.id in len_vars else None)
            except lf.NotLinear:
                continue
            # L - K < 0  <=>  length < K
            if set(pp) - {()} == {(('L', 1),)} and pp[(('L', 1),)] > 0 and op_ in ('<', '<='):
                consts_set.add(int(-pp.get((), 0) / pp[(('L', 1),)]) + (1 if op_ == '<=' else 0))  # integers: L <= K is L < K + 1
    consts = sorted(consts_set)
    obs.append(ob(R, dec, f'length < {consts}', 'the decoder takes length < 0x40 as a label and length < 0xC0 (otherwise) as an unknown type', consts == [0x40, 0xC0]))
    link = [st for st in walk_local_ordered(dec.node) if isinstance(st, ast.Assign) and isinstance(st.targets[0], ast.Name) and any(isinstance(x, ast.BinOp) and isinstance(x.op, ast.BitAnd) for x in ast.walk(st.value)) and isinstance(st.value, ast.BinOp)]
    okl = False
    if len(link) == 1 and len(len_vars) == 1:
        # by value, over sample bytes (so `* 256 +` and `<< 8 |` are the same thing): the second byte is the subscript at the
        # offset plus one
        from .common import expand as _xp

        v = _xp(dec, link[0].value)
        seconds = []
        firsts = []
        for x in ast.walk(v):
            if isinstance(x, ast.Subscript):
                try:
                    px = lf.poly(prog, dec.module, x.slice, lambda y: 'O' if isinstance(y, ast.Name) and y.id == off_p else None)
                    if px == lf.parse_poly('O + 1'):
                        seconds.append(norm(x))
                    elif px == lf.parse_poly('O'):
                        firsts.append(norm(x))
                except lf.NotLinear:
                    pass
        okl = len(set(seconds)) == 1
        for L_ in (0xC0, 0xC1, 0xFF, 0xE5):
            for B_ in (0, 1, 0x80, 0xFF):
                if okl:
                    got_l = fd.Evaluator(prog, dec.module, dict({seconds[0]: B_}, **{t_: L_ for t_ in firsts}), {len_vars[0]: L_}).ev(v)
                    okl = got_l == ((L_ & 0x3F) << 8 | B_)
    obs.append(ob(R, dec, link[0] if link else 'link = ...', 'a pointer is the low 6 bits of the first byte times 256 plus the second byte', okl))
    return obs


@rule('C01.LABEL', 'D', expect_min=5)
def label(ctx: Any) -> List[Ob]:
    """Label-length domain agreement: the encoder rejects labels above 63 bytes
    (0x40-0xBF are reserved label types, 0xC0 marks a pointer), the decoder
    treats length < 0x40 as a label and >= 0xC0 as a pointer with a 14-bit
    offset, and every pointer target fits 14 bits because a packet is at most
    8966 bytes."""
    R = 'C01.LABEL'
    prog = ctx.prog
    out = prog.cls(OUT)
    obs: List[Ob] = []
    wu = out.methods['_write_utf']
    cfg = cfg_of(wu.node)
    K = None
    for t in cfg.nodes:
        if t.kind == 'test' and isinstance(t.ast, ast.Compare):
            try:
                from .common import expand

                p, op = lf.comparison(prog, wu.module, expand(wu, t.ast), lambda x: 'L' if isinstance(x, ast.Call) and norm(x.func) == 'len' and isinstance(x.args[0], ast.Call) and call_name(x.args[0]) == 'encode' else None)
            except lf.NotLinear:
                continue
            if set(p) - {()} == {(('L', 1),)} and p[(('L', 1),)] < 0 and any(s.kind == 'raise' for s, lab in t.succ if lab is True):
                k = float(-p.get((), 0) / p[(('L', 1),)])
                K = k if op == '<' else k - 1
    obs.append(ob(R, wu, f'raise when length > {K}', 'the encoder emits label lengths 0..63 only (64 = 0x40 is a reserved label type every decoder rejects)', K is not None and K <= 63, f'largest label length accepted: {K}'))
    # the length that is checked is the UTF-8 byte length that is written
    chk = [st for st in walk_local_ordered(wu.node) if isinstance(st, ast.Assign) and isinstance(st.value, ast.Call) and norm(st.value.func) == 'len']
    enc = [st for st in walk_local_ordered(wu.node) if isinstance(st, ast.Assign) and isinstance(st.value, ast.Call) and call_name(st.value) == 'encode']
    wb = [c for c in walk_local_ordered(wu.node) if isinstance(c, ast.Call) and call_name(c) == '_write_byte']
    ws = [c for c in walk_local_ordered(wu.node) if isinstance(c, ast.Call) and call_name(c) == 'write_string']
    good = len(chk) == 1 and len(enc) == 1 and len(wb) == 1 and len(ws) == 1 and norm(chk[0].value.args[0]) == norm(enc[0].targets[0]) and norm(wb[0].args[0]) == norm(chk[0].targets[0]) and norm(ws[0].args[0]) == norm(enc[0].targets[0])
    obs.append(ob(R, wu, 'length byte then the encoded bytes', 'a label is written as its UTF-8 byte length followed by exactly those bytes', good))
    obs.extend(decoder_label_domain(ctx, R))
    wl = out.methods['_write_link_to_name']
    bytes_w = [c.args[0] for c in walk_local_ordered(wl.node) if isinstance(c, ast.Call) and call_name(c) == '_write_byte']
    okw = len(bytes_w) == 2 and isinstance(bytes_w[0], ast.BinOp) and isinstance(bytes_w[0].op, ast.BitOr) and prog.try_fold(wl.module, bytes_w[0].right) == (True, 0xC0) and isinstance(bytes_w[0].left, ast.BinOp) and isinstance(bytes_w[0].left.op, ast.RShift) and prog.try_fold(wl.module, bytes_w[0].left.right) == (True, 8) and isinstance(bytes_w[1], ast.BinOp) and isinstance(bytes_w[1].op, ast.BitAnd) and prog.try_fold(wl.module, bytes_w[1].right) == (True, 0xFF)
    obs.append(ob(R, wl, '(index >> 8) | 0xC0 ; index & 0xFF', 'a pointer is written as 0xC0 | high bits, then the low byte', okw))
    absl = prog.const('zeroconf.const', '_MAX_MSG_ABSOLUTE')
    obs.append(ob(R, wl, f'_MAX_MSG_ABSOLUTE = {absl}', 'every offset inside a packet fits the 14-bit pointer field', absl < 0x4000))
    # index 0 is never a valid pointer target (names start after the 12 byte header): `if index:` is a sound presence test
    wn = out.methods['write_name']
    hdr = prog.const('zeroconf.const', '_DNS_PACKET_HEADER_LEN')
    obs.append(ob(R, wn, 'index = self.names.get(name, 0); if index:', 'offset 0 cannot be a stored name position because the size starts at the header length', hdr > 0))
    return obs


@rule('C01.NAMELEN', 'D', expect_min=1)
def namelen01(ctx: Any) -> List[Ob]:
    """Encoder / decoder agreement on the total length of a name: the decoder refuses a name longer than its limit (and with
    it the whole datagram), so the encoder must refuse the same names with NamePartTooLongException -- `rejected or recovered`."""
    R = 'C01.NAMELEN'
    prog = ctx.prog
    out = prog.cls(OUT)
    obs: List[Ob] = []
    # total name length: what the decoder refuses (a name longer than its limit invalidates the whole datagram) the encoder
    # must refuse as well, with NamePartTooLongException, in the same unit (characters of the dotted name)
    rn = prog.func(INC + '._read_name')
    dec_lim = None
    for t in cfg_of(rn.node).nodes:
        if t.kind == 'test' and isinstance(t.ast, ast.Compare):
            try:
                pp, oo = lf.comparison(prog, rn.module, t.ast, lambda x: 'N' if isinstance(x, ast.Call) and norm(x.func) == 'len' and x.args and isinstance(x.args[0], ast.Name) else None)
            except lf.NotLinear:
                continue
            if set(pp) - {()} == {(('N', 1),)} and any(s_.kind == 'raise' for s_, lab in t.succ if lab is True):
                c_ = float(-pp.get((), 0) / pp[(('N', 1),)])
                # N - K > 0 normalised as -(N) + K < 0: largest accepted length
                dec_lim = int(c_) if oo in ('<',) else int(c_) - 1
    obs.append(ob(R, rn, 'unit and value of the decoder limit on the total length of a name', 'the decoder accepts every name of at most 253 characters of decoded text (the limit is a character count of the dotted name; a byte count would refuse non-ASCII names the encoder emits)', dec_lim == 253, f'the limit test was read as: at most {dec_lim} (None = not a test of len(<name>) against a constant)'))
    wn_ = out.methods['write_name']
    enc_lim = None
    stripped = any(isinstance(st, ast.Assign) and isinstance(st.value, ast.Subscript) and isinstance(st.value.slice, ast.Slice) and norm(st.targets[0]) == wn_.params[1] for st in walk_local_ordered(wn_.node))
    wcfg = cfg_of(wn_.node)
    for t in wcfg.nodes:
        if t.kind == 'test' and isinstance(t.ast, ast.Compare):
            try:
                pp, oo = lf.comparison(prog, wn_.module, t.ast, lambda x: 'N' if isinstance(x, ast.Call) and norm(x.func) == 'len' and x.args and norm(x.args[0]) == wn_.params[1] else None)
            except lf.NotLinear:
                continue
            if set(pp) - {()} == {(('N', 1),)} and any(s_.kind == 'raise' and 'NamePartTooLong' in norm(s_.ast) for s_, lab in t.succ if lab is True):
                c_ = float(-pp.get((), 0) / pp[(('N', 1),)])
                lim = int(c_) if oo == '<' else int(c_) - 1
                # the test may sit before or after the trailing dot is stripped; normalise to `with the dot`, as the decoder counts
                after_strip = any(n.kind == 'stmt' and isinstance(n.ast, ast.Assign) and norm(n.ast.targets[0]) == wn_.params[1] and wcfg.dominates(n, t) for n in wcfg.nodes) or any(n.kind == 'test' and 'endswith' in norm(n.ast) and wcfg.dominates(n, t) for n in wcfg.nodes)
                enc_lim = lim + 1 if (stripped and after_strip) else lim
    obs.append(ob(R, wn_, 'total length of a name: write_name (encoder) against _read_name (decoder)', 'the encoder raises NamePartTooLongException for every name the decoder would refuse as too long (no datagram is emitted that the decoder invalidates for its name length)', dec_lim is not None and enc_lim is not None and enc_lim <= dec_lim, f'decoder accepts at most {dec_lim} characters (with the final dot); ' + ('write_name has no total-length test raising NamePartTooLongException' if enc_lim is None else f'encoder accepts up to {enc_lim}')))
    return obs


@rule('C01.ROLLBACK', 'N', expect_min=6)
def rollback(ctx: Any) -> List[Ob]:
    """Per-packet state discipline of the message builder: the fields mutated while
    writing one entry (found from the call closure of the entry writers) are all
    restored by the failure arm of the size check, and all re-initialised for the
    next packet -- in particular the name-compression table, else a pointer to a
    rolled-back or previous-packet position would be emitted."""
    R = 'C01.ROLLBACK'
    prog = ctx.prog
    out = prog.cls(OUT)
    obs: List[Ob] = []
    roots = [out.methods['_write_question'], out.methods['_write_record']]
    ck = out.methods['_check_data_limit_or_rollback']
    MUT = {'append', 'insert', 'extend', 'pop', 'clear', 'update', 'setdefault', 'remove'}
    W: Set[str] = set()
    for f in ctx.cg.closure(roots):
        if f.cls is not out or f is ck:
            continue
        me = f.params[0]
        for t, st in attr_stores(f.node):
            if self_attr(t, me):
                W.add(t.attr)
        for n in walk_local_ordered(f.node):
            if isinstance(n, ast.Call) and isinstance(n.func, ast.Attribute) and n.func.attr in MUT and self_attr(n.func.value, me):
                W.add(n.func.value.attr)
            if isinstance(n, (ast.Assign, ast.AugAssign)):
                for t in (n.targets if isinstance(n, ast.Assign) else [n.target]):
                    if isinstance(t, ast.Subscript) and self_attr(t.value, me):
                        W.add(t.value.attr)
    ctx.counters['per_entry_mutated_fields'] = sorted(W)
    if not {'data', 'size', 'names'} <= W:
        raise AnalysisError(f'per-entry mutated fields {sorted(W)} do not include data/size/names')
    me = ck.params[0]
    restored: Set[str] = set()
    cfg = cfg_of(ck.node)
    # statements on the failure arm: the nodes executed when the size is over any limit but not when it fits
    seen_over: List[Any] = []
    seen_fit: List[Any] = []
    traces(ctx, ck, {f'{me}.size': 10**9, f'{me}.allow_long': False, 'LOGGING_IS_ENABLED_FOR()': False}, lambda n, e: (seen_over.append(n) or []), loop_bound=1)
    traces(ctx, ck, {f'{me}.size': 0, f'{me}.allow_long': False, 'LOGGING_IS_ENABLED_FOR()': False}, lambda n, e: (seen_fit.append(n) or []), loop_bound=1)
    fail_nodes = [n for n in seen_over if n not in seen_fit]
    for n in fail_nodes:
        if n.ast is None:
            continue
        for x in walk_local_ordered(n.ast) if n.kind == 'stmt' else []:
            if isinstance(x, ast.Delete):
                for t in x.targets:
                    if isinstance(t, ast.Subscript) and self_attr(t.value, me):
                        restored.add(t.value.attr)
            if isinstance(x, ast.Assign):
                for t in x.targets:
                    if self_attr(t, me):
                        restored.add(t.attr)
    for fld in sorted(W):
        obs.append(ob(R, ck, f'rollback of self.{fld}', f'an entry that does not fit leaves no trace in `{fld}`', fld in restored, f'restored on the failure arm: {sorted(restored)}'))
    # names rollback removes exactly the entries recorded at or after the entry's start
    comp = [x for n in fail_nodes if n.kind in ('stmt', 'for') and n.ast is not None for x in walk_local_ordered(n.ast.iter if n.kind == 'for' else n.ast) if isinstance(x, ast.ListComp)]
    okc = False
    for c in comp:
        g = c.generators[0]
        if isinstance(g.iter, ast.Call) and isinstance(g.iter.func, ast.Attribute) and g.iter.func.attr == 'items' and self_attr(g.iter.func.value, me) == 'names' and len(g.ifs) == 1:
            try:
                p, op = lf.comparison(prog, ck.module, expand(ck, g.ifs[0]), lambda x: ('IDX' if isinstance(x, ast.Name) and x.id == norm(g.target.elts[1]) else ('START' if isinstance(x, ast.Name) and x.id == ck.params[2] else None)))
                okc = lf.same_cmp((p, op), lf.parse_cmp('START - IDX <= 0'))
            except (lf.NotLinear, AttributeError, IndexError):
                okc = False
    obs.append(ob(R, ck, '[name for name, idx in self.names.items() if idx >= start_size]', 'the compression table forgets exactly the names recorded at or after the rolled-back entry\'s start', okc))
    rs = out.methods['_reset_for_next_packet']
    reset = {t.attr for t, st in attr_stores(rs.node) if self_attr(t, rs.params[0])}
    need = W | {'allow_long'}
    obs.append(ob(R, rs, f'_reset_for_next_packet resets {sorted(reset)}', f'a new packet starts from clean per-packet state {sorted(need)}', need <= reset, f'missing {sorted(need - reset)}'))
    pk = out.methods['packets']
    calls = [c for c in walk_local_ordered(pk.node) if isinstance(c, ast.Call) and call_name(c) == '_reset_for_next_packet']
    obs.append(ob(R, pk, 'if has_more_to_add: self._reset_for_next_packet()', 'the per-packet state is reset between packets', len(calls) == 1))
    # names are recorded with the position the name starts at
    wn = out.methods['write_name']
    stores = [st for st in walk_local_ordered(wn.node) if isinstance(st, ast.Assign) and isinstance(st.targets[0], ast.Subscript) and self_attr(st.targets[0].value, wn.params[0]) == 'names']
    start_vars = [n for n in find_locals(wn, lambda v: self_attr(v, wn.params[0]) == 'size')]
    nl_vars = [n for n in find_locals(wn, lambda v: isinstance(v, ast.Call) and norm(v.func) == 'len' and isinstance(v.args[0], ast.Call) and call_name(v.args[0]) == 'encode' and norm(v.args[0].func.value) == wn.params[1])]
    oks = len(stores) == 2 and len(start_vars) == 1 and len(nl_vars) == 1 and norm(stores[0].value) == start_vars[0]
    if oks:
        try:
            p = lf.poly(prog, wn.module, stores[1].value, lambda x: ('S' if isinstance(x, ast.Name) and x.id in start_vars else ('N' if isinstance(x, ast.Name) and x.id in nl_vars else ('P' if isinstance(x, ast.Call) and norm(x.func) == 'len' and isinstance(x.args[0], ast.Call) and call_name(x.args[0]) == 'encode' and norm(x.args[0].func.value) == norm(stores[1].targets[0].slice) else None))))
            oks = p == lf.parse_poly('S + N - P')
        except lf.NotLinear:
            oks = False
    obs.append(ob(R, wn, 'self.names[partial_name] = start_size + name_length - len(partial_name.encode())', 'each suffix is recorded at the offset where it starts (start of the name + bytes before the suffix)', oks))
    # `either rejected with NamePartTooLongException or recovered`: a message whose build was cut short by that exception is not
    # marked finished, so a later call cannot hand out the part that had been built (shared with C14.SECTIONS)
    from .c14 import sections as _sections

    for o in _sections.fn(ctx):
        if 'finished' in o.statement:
            o.rule = R
            obs.append(o)
    return obs


@rule('C01.FLUSHBIT', 'D', expect_min=4)
def flushbit(ctx: Any) -> List[Ob]:
    """The top class bit (cache-flush / QU) is written iff the entry has it and the
    message is multicast."""
    R = 'C01.FLUSHBIT'
    prog = ctx.prog
    f = prog.func(OUT + '._write_record_class')
    me, rec = f.params[0], f.params[1]
    obs: List[Ob] = []

    def eff(node: Any, evl: Any) -> List[Any]:
        res = []
        for c in node.calls():
            if call_name(c) == 'write_short' and c.args:
                # by value: the entry's class is 1 (IN); what is written is 1 or 1 | 0x8000, through whatever local carries it
                a = c.args[0]
                v = evl.ev(a)
                if isinstance(v, int) and not isinstance(v, bool) and v in (1, 0x8001):
                    res.append('CLASS|0x8000' if v == 0x8001 else 'CLASS')
                else:
                    bit = any(isinstance(x, ast.BinOp) and isinstance(x.op, ast.BitOr) and any(prog.try_fold(f.module, s) == (True, 0x8000) for s in (x.left, x.right)) for x in ast.walk(a))
                    res.append('CLASS|0x8000' if bit else 'CLASS')
        return res

    for uniq in (True, False):
        for mc in (True, False):
            oc, und = traces(ctx, f, {f'{rec}.unique': uniq, f'{me}.multicast': mc, f'{rec}.class_': 1}, eff)
            got = {strip_ret(t) for t in oc}
            want = ('CLASS|0x8000',) if (uniq and mc) else ('CLASS',)
            obs.append(ob(R, f, f'unique={uniq} multicast={mc}', f'writes {want[0]}', got == {want} and not und, f'got {sorted(got)}'))
    return obs


VERBATIM_EXEMPT = {
    # (class, parameter): why the constructor does not keep the value as given
    ('DNSEntry', 'class_'): 'split into the 15-bit class and the unique / QU bit (C01.FLUSHBIT, C20.CONGRUENCE)',
    ('DNSNsec', 'rdtypes'): 'kept as a sorted list (the order of types is not part of the record)',
    ('DNSRecord', 'created'): 'defaults to the current time when not given',
    ('DNSQuestion', 'class_'): 'split into class and QU bit',
}


def ctor_verbatim_obligations(ctx: Any, R: str) -> List[Ob]:
    """What the decoder hands to a record constructor is what the record holds: every constructor of the record classes
    stores each wire-valued parameter unchanged in an attribute (`self.x = x`), besides any derived twin (`x.lower()`).  A
    constructor that normalises a value (clamps a TTL, re-cases a name) makes the decoded record differ from the bytes."""
    prog = ctx.prog
    obs: List[Ob] = []
    for c in sorted(prog.classes.values(), key=lambda x: x.full):
        if not c.full.startswith('zeroconf._dns.DNS') or c.name in ('DNSRRSet',):
            continue
        init = c.methods.get('__init__')
        if init is None:
            continue
        me = init.params[0]
        sup = [x for x in walk_local_ordered(init.node) if isinstance(x, ast.Call) and isinstance(x.func, ast.Attribute) and x.func.attr == '__init__']
        passed_up = {a.id for x in sup for a in x.args if isinstance(a, ast.Name)}
        for p_ in init.params[1:]:
            if p_ in passed_up:
                continue  # stored by the base class, checked there
            why = VERBATIM_EXEMPT.get((c.name, p_))
            if why is not None:
                obs.append(ob(R, init, f'{c.name}({p_})', f'not kept verbatim on purpose: {why}', True))
                continue
            kept = any(isinstance(st, (ast.Assign, ast.AnnAssign)) and self_attr(t, me) and isinstance(st.value, ast.Name) and st.value.id == p_ for t, st in attr_stores(init.node))
            obs.append(ob(R, init, f'self.<attr> = {p_}', f'{c.name} keeps `{p_}` exactly as it was given (as decoded from the wire)', kept, f'no attribute of {c.name} is assigned the unmodified `{p_}`'))
    return obs


def frame_locals_obligations(ctx: Any, R: str) -> List[Ob]:
    """What the record reader is handed is what the frame reader took off the wire: in the section reader every local that
    carries a fixed field of the frame (type, class, TTL, rdata length) is assigned once, from the wire, and is not rewritten
    on its way to the record reader (a floor, a mask or a default applied here changes EVERY decoded record of that kind --
    also the known answers of a query -- not only the ones a later stage meant to protect itself from)."""
    prog = ctx.prog
    obs: List[Ob] = []
    f = prog.func(INC + '._read_others')
    m = f.module
    lp = next((n for n in walk_local_ordered(f.node) if isinstance(n, ast.For)), None)
    if lp is None:
        raise AnalysisError('anchor vanished: the record loop of _read_others')
    wire_locals = {}
    for st in ast.walk(lp):
        if isinstance(st, ast.Assign) and isinstance(st.targets[0], ast.Name) and be_pattern(prog, m, st.value) is not None:
            wire_locals.setdefault(st.targets[0].id, []).append(st)
    calls = [c for c in ast.walk(lp) if isinstance(c, ast.Call) and call_name(c) == '_read_record']
    if not wire_locals or not calls:
        raise AnalysisError('anchor vanished: fixed-field reads / record reader call in _read_others')
    handed = {a.id for c in calls for a in c.args if isinstance(a, ast.Name)}
    for nm in sorted(handed & set(wire_locals)):
        all_defs = [st for st in ast.walk(lp) if (isinstance(st, ast.Assign) and any(isinstance(t, ast.Name) and t.id == nm for t in st.targets)) or (isinstance(st, ast.AugAssign) and isinstance(st.target, ast.Name) and st.target.id == nm)]
        extra = [st for st in all_defs if st not in wire_locals[nm]]
        obs.append(ob(R, f, extra[0] if extra else wire_locals[nm][0], f'`{nm}` reaches the record reader exactly as it was read from the wire', not extra and len(wire_locals[nm]) == 1, f'`{nm}` is rewritten at line {extra[0].lineno} before the record is built' if extra else ''))
    # ... and the record reader hands its parameters to the constructors as it got them
    rr = prog.func(INC + '._read_record')
    for nm in rr.params[1:]:
        rew = [st for st in walk_local_ordered(rr.node) if (isinstance(st, ast.Assign) and any(isinstance(t, ast.Name) and t.id == nm for t in st.targets)) or (isinstance(st, ast.AugAssign) and isinstance(st.target, ast.Name) and st.target.id == nm) or (isinstance(st, ast.NamedExpr) and st.target.id == nm)]
        obs.append(ob(R, rr, rew[0] if rew else f'{nm} (parameter of _read_record)', f'the record reader does not rewrite `{nm}` before it builds the record', not rew, f'`{nm}` is reassigned at line {rew[0].lineno}' if rew else ''))
    return obs


def nsec_reader_obligation(ctx: Any, R: str) -> Ob:
    """Reader of the NSEC type bitmap: bit b (MSB first) of octet i of window w is type b + 256 w + 8 i."""
    prog = ctx.prog
    r = prog.func(INC + '._read_bitmap')
    test_ok = val_ok = False
    from .common import expand

    # `if byte & mask: append(...)`, or the guard spelling `if not byte & mask: continue` followed by the append
    blocks = [b for x in walk_local_ordered(r.node) for fld in ('body', 'orelse') for b in [getattr(x, fld, None)] if isinstance(b, list) and b and isinstance(b[0], ast.stmt)]
    for n in walk_local_ordered(r.node):
        tst = n.test if isinstance(n, ast.If) else None
        scope: List[ast.AST] = [n]
        if isinstance(tst, ast.UnaryOp) and isinstance(tst.op, ast.Not) and isinstance(n, ast.If) and len(n.body) == 1 and isinstance(n.body[0], ast.Continue) and not n.orelse:
            tst = tst.operand
            scope = next(([s_ for s_ in b[b.index(n) + 1:]] for b in blocks if n in b), [])
        if isinstance(n, ast.If) and isinstance(tst, ast.BinOp) and isinstance(tst.op, ast.BitAnd):
            sh = tst.right
            test_ok = isinstance(sh, ast.BinOp) and isinstance(sh.op, ast.RShift) and prog.try_fold(r.module, sh.left) == (True, 0x80)
            bitvar = norm(sh.right) if test_ok else '?'
            for c in [y for s_ in scope for y in ast.walk(s_)]:
                if isinstance(c, ast.Call) and call_name(c) == 'append':
                    try:
                        p = lf.poly(prog, r.module, expand(r, c.args[0]), lambda x: x.id if isinstance(x, ast.Name) else (norm(x) if isinstance(x, ast.Subscript) else None))
                        names = {k[0][0]: v for k, v in p.items() if k and len(k) == 1}
                        val_ok = names.get(bitvar) == 1 and sorted(names.values()) == [1, 8, 256] and p.get((), 0) == 0 and all(len(k) <= 1 for k in p)
                    except lf.NotLinear:
                        val_ok = False
    rng = [n for n in walk_local_ordered(r.node) if isinstance(n, ast.For) and isinstance(n.iter, ast.Call) and norm(n.iter.func) == 'range']
    rng_ok = any([prog.try_fold(r.module, a)[1] for a in n.iter.args] in ([0, 8], [8]) for n in rng)
    return ob(R, r, 'if byte & (0x80 >> bit): rdtypes.append(bit + window * 256 + i * 8)', 'reader: bit b (MSB first, b in 0..7) of byte i of window w is type b + 256 w + 8 i', test_ok and val_ok and rng_ok)


@rule('C01.NSECBITS', 'N', expect_min=2)
def nsecbits(ctx: Any) -> List[Ob]:
    """NSEC bit numbering: the writer sets bit (0x80 >> t % 8) of byte t // 8, the
    reader maps bit b of byte i of window w to type b + 256 w + 8 i; both are
    most-significant-bit-first, so they compose to the identity."""
    R = 'C01.NSECBITS'
    prog = ctx.prog
    w = prog.cls('zeroconf._dns.DNSNsec').methods['write']
    obs: List[Ob] = []
    from .common import expand as _xp

    loops = [lp for lp in walk_local_ordered(w.node) if isinstance(lp, ast.For) and isinstance(lp.target, ast.Name)]
    tvar = loops[0].target.id if loops else '?'

    def is_byte_index(x: ast.AST) -> bool:
        """`T // 8` for the loop's type T"""
        return isinstance(x, ast.BinOp) and isinstance(x.op, ast.FloorDiv) and isinstance(x.left, ast.Name) and x.left.id == tvar and prog.try_fold(w.module, x.right) == (True, 8)

    byte_ok = mask_ok = False
    for st in walk_local_ordered(w.node):
        if isinstance(st, ast.AugAssign) and isinstance(st.op, ast.BitOr) and isinstance(st.target, ast.Subscript):
            byte_ok = is_byte_index(_xp(w, st.target.slice))
            v = _xp(w, st.value)
            mask_ok = (isinstance(v, ast.BinOp) and isinstance(v.op, ast.RShift) and prog.try_fold(w.module, v.left) == (True, 0x80) and isinstance(v.right, ast.BinOp) and isinstance(v.right.op, ast.Mod)
                       and isinstance(v.right.left, ast.Name) and v.right.left.id == tvar and prog.try_fold(w.module, v.right.right) == (True, 8))
    obs.append(ob(R, w, 'byte = rdtype // 8 ; bitmap[byte] |= 0x80 >> rdtype % 8', 'writer: type t is bit (0x80 >> t mod 8) of byte t div 8', byte_ok and mask_ok))
    # the window that is written: 32 bytes of zeroes to start with, as many of them emitted as the highest type needs (its byte
    # index + 1 -- the types are kept sorted by the constructor, so the last one seen is the highest), types above 255 refused
    from .common import local_defs as _ldn

    wdefs = _ldn(w)
    bm = [n_ for n_, vs in wdefs.items() if any(v is not None and isinstance(v, ast.Call) and norm(v.func) == 'bytearray' for v in vs)]
    size_ok = False
    if len(bm) == 1:
        v0 = [v for v in wdefs[bm[0]] if v is not None][0]
        okf, folded = prog.try_fold(w.module, v0.args[0]) if v0.args else (False, None)
        size_ok = okf and folded == bytes(32)
    obs.append(ob(R, w, f'{bm[0] if bm else "bitmap"} = bytearray(32 zero bytes)', 'window 0 starts as 32 zero bytes (types 0..255)', size_ok))
    # the emitted length: the one local set in the loop to (byte index of the type) + 1
    tot = []
    tot_ok = False
    for lp in loops[:1]:
        for st in walk_local_ordered(lp):
            if isinstance(st, ast.Assign) and isinstance(st.targets[0], ast.Name) and any(is_byte_index(x) for x in ast.walk(_xp(w, st.value))) and not is_byte_index(_xp(w, st.value)):
                tot.append(st)
    if len(tot) == 1:
        try:
            tot_ok = lf.poly(prog, w.module, _xp(w, tot[0].value), lambda x: 'B' if is_byte_index(x) else None) == lf.parse_poly('B + 1')
        except lf.NotLinear:
            tot_ok = False
    sl = [x for x in ast.walk(w.node) if isinstance(x, ast.Subscript) and isinstance(x.slice, ast.Slice) and bm and norm(x.value) == bm[0]]
    sl_ok = len(sl) == 1 and tot and (sl[0].slice.lower is None or prog.try_fold(w.module, sl[0].slice.lower) == (True, 0)) and sl[0].slice.upper is not None and norm(sl[0].slice.upper) == tot[0].targets[0].id
    obs.append(ob(R, w, tot[0] if tot else 'total_octets = byte + 1', 'the bitmap emitted is the first (highest byte index + 1) bytes of the window', tot_ok and bool(sl_ok)))
    ctor = prog.cls('zeroconf._dns.DNSNsec').methods['__init__']
    srt = [st for st in walk_local_ordered(ctor.node) if isinstance(st, ast.Assign) and self_attr(st.targets[0], ctor.params[0]) == 'rdtypes']
    obs.append(ob(R, ctor, srt[0] if srt else 'self.rdtypes = sorted(rdtypes)', 'the types are kept in ascending order (the writer sizes the bitmap by the last one)', len(srt) == 1 and isinstance(_xp(ctor, srt[0].value), ast.Call) and norm(_xp(ctor, srt[0].value).func) == 'sorted'))
    lim = [t for t in walk_local_ordered(w.node) if isinstance(t, ast.If) and any(isinstance(x, ast.Raise) for x in t.body) and isinstance(t.test, ast.Compare) and any(isinstance(x, ast.Name) for x in ast.walk(t.test)) and t in [y for lp in walk_local_ordered(w.node) if isinstance(lp, ast.For) for y in lp.body]]
    lim_ok = False
    if len(lim) == 1:
        try:
            pl, op = lf.comparison(prog, w.module, lim[0].test, lambda x: 'T' if isinstance(x, ast.Name) else None)
            lim_ok = lf.same_cmp((pl, op), lf.parse_cmp('255 - T < 0'))
        except lf.NotLinear:
            lim_ok = False
    obs.append(ob(R, w, lim[0].test if lim else 'if rdtype > 255: raise', 'exactly the types that do not fit window 0 (above 255) are refused', lim_ok))
    obs.append(nsec_reader_obligation(ctx, R))
    return obs


def log_only_state(prog: Any, f: FuncInfo, gname: str) -> bool:
    """A module-level container that only de-duplicates log lines: every function of the program that mentions it
    calls nothing but logging functions (so it cannot influence a result).  Side condition re-checked on every run."""
    users = [g for g in prog.functions.values() if any(isinstance(n, ast.Name) and n.id == gname for n in ast.walk(g.node)) and (g.module is f.module or gname in g.module.imports)]
    if not users:
        return False
    for g in users:
        for c in walk_local_ordered(g.node):
            if isinstance(c, ast.Call) and not (norm(c.func).startswith(('log.', 'logging.')) or norm(c.func) in ('str', 'repr', 'len', 'sys.exc_info')):
                return False
        if any(isinstance(n, ast.Return) and n.value is not None for n in walk_local_ordered(g.node)):
            return False
    return True


@rule('C01.STATELESS', 'N', expect_min=15)
def stateless(ctx: Any) -> List[Ob]:
    """What is emitted for an entry depends on the entry and the message only: no function on the encode path
    (everything reachable from the message builder's public methods, including every record's writer) mutates
    a mutable module-level container, directly or through a local alias, or rebinds a module global.  Shared
    scratch state makes the bytes depend on what was encoded -- or rejected -- before."""
    from .common import shared_state_mutations

    R = 'C01.STATELESS'
    prog = ctx.prog
    out = prog.cls(OUT)
    roots = [f for n, f in out.methods.items() if not n.startswith('__') or n == '__init__']
    obs: List[Ob] = []
    for f in sorted(ctx.cg.closure(roots, include_deferred=False), key=lambda g: g.full):
        muts = [m for m in shared_state_mutations(prog, f) if not log_only_state(prog, f, m[1])]
        obs.append(ob(R, f, muts[0][0] if muts else f.name, 'encode path keeps no state between messages (no module-level container mutated)', not muts, '; '.join(f'line {n.lineno}: {g} {how}' for n, g, how in muts[:3])))
    return obs


EXPLANATION = (
    'C01.LAYOUT (necessary condition): a wire-grammar extractor turns every record writer, every decoder arm (mapped through the '
    'constructor signature) and the header/question/RR framing into sequences of wire tokens bound to fields and compares all three '
    'with a frozen RFC 1035/2782/3596/4034 table. C01.PRIMS (decided): read/write primitives consume/produce exactly the bytes they return (offset arithmetic as linear forms); section loops run header-count times. C01.LABEL (decided): label-length and pointer-tag domain agreement between encoder '
    'and decoder as folded constants. C01.ROLLBACK (necessary): fields mutated per entry are discovered from the call closure and must '
    'be restored on rollback and reset per packet. C01.FLUSHBIT (decided): decision table of the class-bit writer. C01.NSECBITS '
    '(necessary): bit numbering of the NSEC bitmap on both sides. C01.STATELESS (necessary): nothing reachable from the builder mutates module-level containers (also through local aliases). Not decided: round-trip equality of values, compression-offset '
    'arithmetic and packet split positions [X].'
)
RULES = [layout, prims, label, namelen01, rollback, flushbit, nsecbits, stateless]

"""C03 -- the responder answers exactly what is registered, minus what the querier knows."""
from __future__ import annotations

import ast
from typing import Any, Dict, List, Optional, Set, Tuple

from sa import AnalysisError, StructuralViolation
from sa import fd, lf
from sa.cf import cfg_of
from sa.fd import Sym
from sa.ky import Lowered, key_sites
from sa.pm import FuncInfo, call_name, norm, self_attr, walk_local_ordered
from sa.report import Ob, rule

from .common import attr_stores, find_locals, local_defs, ob, single_return_expr, strip_ret, traces

REG = 'zeroconf._services.registry.ServiceRegistry'
QH = 'zeroconf._handlers.query_handler.QueryHandler'
INFO = 'zeroconf._services.info.ServiceInfo'
REG_INDEXES = ('_services', 'types', 'servers')


def _shape(e: ast.AST) -> str:
    """Key expression without its base variable: info.type.lower() -> .type.lower()"""
    t = norm(e)
    i = t.find('.')
    return t[i:] if i >= 0 else t


def _index_profile(f: FuncInfo) -> Dict[str, Set[str]]:
    me = f.params[0]
    prof: Dict[str, Set[str]] = {}
    from .common import expand as _xp_k

    for d, k, how in key_sites(f, lambda e: self_attr(e, me) in REG_INDEXES):
        prof.setdefault(self_attr(d, me), set()).add(_shape(_xp_k(f, k, 1) if isinstance(k, ast.Name) else k))  # type: ignore[arg-type]  # (a key that is a bare local is what the local names)
    # an index handed to a helper method: map the helper's keyed accesses on that parameter back to our arguments
    if f.cls is not None:
        for c in walk_local_ordered(f.node):
            if not (isinstance(c, ast.Call) and isinstance(c.func, ast.Attribute) and self_attr(c.func, me)):
                continue
            helper = f.cls.find_method(c.func.attr)
            if helper is None:
                continue
            hp = helper.params[1:]
            for i, a in enumerate(c.args):
                idx = self_attr(a, me)
                if idx in REG_INDEXES and i < len(hp):
                    for d, k, how in key_sites(helper, lambda e, pn=hp[i]: isinstance(e, ast.Name) and e.id == pn):
                        if isinstance(k, ast.Name) and k.id in hp and hp.index(k.id) < len(c.args):
                            a_k = c.args[hp.index(k.id)]
                            prof.setdefault(idx, set()).add(_shape(_xp_k(f, a_k, 1) if isinstance(a_k, ast.Name) else a_k))
    return prof


def _enumerating_readers(ctx: Any, cls: Any, attr: str) -> List[str]:
    """Places that observe the *key set* of self.<attr>: list(d), iteration, len, truthiness, `in` with a non-key operand."""
    out = []
    for f in cls.methods.values():
        me = f.params[0] if f.params else 'self'
        for n in walk_local_ordered(f.node):
            if isinstance(n, ast.Call) and isinstance(n.func, ast.Name) and n.func.id in ('list', 'set', 'tuple', 'sorted', 'len', 'bool', 'frozenset', 'iter') and n.args and self_attr(n.args[0], me) == attr:
                out.append(f'{f.qual}: {norm(n)}')
            if isinstance(n, (ast.For, ast.comprehension)) and (self_attr(n.iter, me) == attr or (isinstance(n.iter, ast.Call) and isinstance(n.iter.func, ast.Attribute) and n.iter.func.attr in ('keys', 'items') and self_attr(n.iter.func.value, me) == attr)):
                out.append(f'{f.qual}: iterates self.{attr}')
            if isinstance(n, ast.Call) and isinstance(n.func, ast.Attribute) and n.func.attr in ('keys', 'items') and self_attr(n.func.value, me) == attr:
                out.append(f'{f.qual}: {norm(n)}')
            if isinstance(n, (ast.If, ast.While, ast.IfExp)) and self_attr(n.test, me) == attr:
                out.append(f'{f.qual}: truthiness of self.{attr}')
    return sorted(set(out))


@rule('C03.INDEX', 'N', expect_min=6)
def index(ctx: Any) -> List[Ob]:
    """Registry index discipline: add and remove touch all three indexes with the
    same key provenance and recompute has_entries; and bucket hygiene -- for a
    dict-of-list index whose key set is observable (enumerated), every removal
    from a bucket is followed on all paths by deletion of the bucket when it
    became empty (else a withdrawn type stays in the enumeration answer)."""
    R = 'C03.INDEX'
    prog = ctx.prog
    reg = prog.cls(REG)
    add, rem = reg.methods.get('_add'), reg.methods.get('_remove')
    if add is None or rem is None:
        raise AnalysisError('anchor vanished: ServiceRegistry._add/_remove')
    obs: List[Ob] = []
    pa, pr = _index_profile(add), _index_profile(rem)
    for idx in REG_INDEXES:
        obs.append(ob(R, add, f'self.{idx}: add keys {sorted(pa.get(idx, []))}', f'add and remove both maintain `{idx}` with the same key provenance', bool(pa.get(idx)) and pa.get(idx) == pr.get(idx), f'remove keys {sorted(pr.get(idx, []))}'))
    # the service table itself: an add stores the description under its key, a remove of a registered name deletes that entry
    # (and nothing is touched for a name that is not registered)
    rme0 = rem.params[0]

    def eff_tab(node: Any, evl: Any) -> List[Any]:
        out = []
        if node.kind == 'stmt':
            for y in walk_local_ordered(node.ast):
                if isinstance(y, ast.Delete) and any(isinstance(t, ast.Subscript) and self_attr(t.value, rme0) == '_services' for t in y.targets):
                    out.append('DROP')
                if isinstance(y, ast.Call) and call_name(y) == 'pop' and isinstance(y.func, ast.Attribute) and self_attr(y.func.value, rme0) == '_services':
                    out.append('DROP')
                if isinstance(y, ast.Call) and isinstance(y.func, ast.Attribute) and self_attr(y.func, rme0) and any(self_attr(a, rme0) in ('types', 'servers') for a in y.args):
                    out.append('UNINDEX')
        return out

    for registered in (True, False):
        oc_t, _ = fd.run_paths(prog, rem.module, cfg_of(rem.node), {'.get()': fd.Sym('registered') if registered else None, f'{rme0}._services.get()': fd.Sym('registered') if registered else None}, eff_tab, loop_bound=1, for_iter=lambda n, e: True)
        seqs = {tuple(sorted(x for x in strip_ret(t) if x in ('DROP', 'UNINDEX'))) for t in oc_t if any(True for _ in t)}
        iter_paths = {q for q in seqs}
        want_t = {('DROP', 'UNINDEX', 'UNINDEX')} if registered else {()}
        obs.append(ob(R, rem, f'removal of a name that is {"registered" if registered else "not registered"}', 'the entry is deleted from the service table and from both indexes' if registered else 'nothing is touched', (iter_paths - {()}) == (want_t - {()}) and (registered or iter_paths <= {()}), f'effects per path: {sorted(iter_paths)}'))
    # what goes into the index buckets and what is taken out of them is the same value: the lower-cased key of the service
    put = [c.args[0] for c in walk_local_ordered(add.node) if isinstance(c, ast.Call) and call_name(c) in ('append', 'add') and c.args and any(isinstance(x, ast.Attribute) and self_attr(x, add.params[0]) in ('types', 'servers') for x in ast.walk(c.func))]
    took = []
    for c in walk_local_ordered(rem.node):
        if isinstance(c, ast.Call) and isinstance(c.func, ast.Attribute) and self_attr(c.func, rme0) and any(self_attr(a, rme0) in ('types', 'servers') for a in c.args):
            helper = rem.cls.find_method(c.func.attr) if rem.cls else None
            if helper is not None:
                hp = helper.params[1:]
                for rc_ in walk_local_ordered(helper.node):
                    if isinstance(rc_, ast.Call) and call_name(rc_) in ('remove', 'discard', 'pop') and rc_.args and isinstance(rc_.args[0], ast.Name) and rc_.args[0].id in hp and hp.index(rc_.args[0].id) < len(c.args) and not (isinstance(rc_.func, ast.Attribute) and isinstance(rc_.func.value, ast.Name) and rc_.func.value.id in hp):  # a pop on the index itself drops the bucket, not an element
                        took.append(c.args[hp.index(rc_.args[0].id)])
                    if isinstance(rc_, ast.Delete):
                        for t in rc_.targets:
                            if isinstance(t, ast.Subscript) and isinstance(t.slice, ast.Name) and t.slice.id in hp and hp.index(t.slice.id) < len(c.args) and not (isinstance(t.value, ast.Name) and t.value.id in hp):
                                took.append(c.args[hp.index(t.slice.id)])
        if isinstance(c, ast.Call) and call_name(c) in ('remove', 'discard') and c.args and any(isinstance(x, ast.Attribute) and self_attr(x, rme0) in ('types', 'servers') for x in ast.walk(c.func)):
            took.append(c.args[0])
    if put and took:
        from .common import expand as _xp

        shapes_put, shapes_took = {_shape(_xp(add, x)) for x in put}, {_shape(_xp(rem, x)) for x in took}
        obs.append(ob(R, rem, took[0], 'the value removed from an index bucket is the value that was put into it (the lower-cased key of the service)', shapes_put == shapes_took == {'.key'}, f'put {sorted(shapes_put)}, removed {sorted(shapes_took)}'))
    # has_entries
    st_add = [norm(s.value) for t, s in attr_stores(add.node) if t.attr == 'has_entries' and isinstance(s, ast.Assign)]
    st_rem = [s.value for t, s in attr_stores(rem.node) if t.attr == 'has_entries' and isinstance(s, ast.Assign)]
    obs.append(ob(R, add, 'self.has_entries = True', 'adding a service marks the registry non-empty', st_add == ['True']))
    ok_rem = len(st_rem) == 1 and isinstance(st_rem[0], ast.Call) and norm(st_rem[0].func) == 'bool' and self_attr(st_rem[0].args[0], rem.params[0]) == '_services'
    cfg = cfg_of(rem.node)
    he_nodes = [n for n in cfg.nodes if n.kind == 'stmt' and any(t.attr == 'has_entries' for t, _ in attr_stores(n.ast))]
    w = cfg.must_pass_before_exit(cfg.entry, lambda n: n in he_nodes)
    obs.append(ob(R, rem, 'self.has_entries = bool(self._services)', 'removal recomputes emptiness from the service table on every path', ok_rem and w is None))
    # what is un-indexed is the object that IS registered: the type / host keys used for removal are read from the entry
    # looked up in the service table, not from the description the caller passed (an update passes the NEW description,
    # whose type or host may differ from the registered one -- the old buckets would keep the name)
    from .common import expand

    rme = rem.params[0]
    lookups = [n_ for n_, vs in local_defs(rem).items() for v in vs if v is not None and any(self_attr(x, rme) == '_services' for x in ast.walk(v))]
    key_exprs = []
    for c in walk_local_ordered(rem.node):
        if isinstance(c, ast.Call) and isinstance(c.func, ast.Attribute):
            if self_attr(c.func, rme) and any(self_attr(a, rme) in ('types', 'servers') for a in c.args):
                i_idx = next(i for i, a in enumerate(c.args) if self_attr(a, rme) in ('types', 'servers'))
                if i_idx + 1 < len(c.args):
                    key_exprs.append((c, self_attr(c.args[i_idx], rme), c.args[i_idx + 1]))
        if isinstance(c, ast.Subscript) and self_attr(c.value, rme) in ('types', 'servers'):
            key_exprs.append((c, self_attr(c.value, rme), c.slice))
    for c, idx, k in key_exprs:
        from_registered = any(isinstance(x, ast.Name) and x.id in lookups for x in ast.walk(k)) or any(self_attr(x, rme) == '_services' for x in ast.walk(expand(rem, k)))
        obs.append(ob(R, rem, c, f'the `{idx}` key used to un-index a service is read from the registered entry (the table lookup), not from the caller\'s description', from_registered, '' if from_registered else f'`{norm(k)}` comes from the description that was passed in: after an update that changes the type or the host the old bucket keeps the name'))
    if not key_exprs:
        raise AnalysisError('anchor vanished: index removals in ServiceRegistry._remove')
    # bucket hygiene: every place that removes an element from a bucket of a dict-of-list index
    n_sites = 0
    for f in reg.methods.values():
        me = f.params[0] if f.params else 'self'
        fcfg = cfg_of(f.node)
        for n in fcfg.nodes:
            cands: List[Tuple[ast.AST, ast.AST]] = [(c, c.func.value) for c in n.calls() if call_name(c) in ('remove', 'pop', 'discard') and isinstance(c.func, ast.Attribute)]
            if n.kind == 'stmt' and isinstance(n.ast, ast.Delete):
                cands += [(t, t.value) for t in n.ast.targets if isinstance(t, ast.Subscript)]  # `del bucket[name]`: a bucket that is a mapping
            for c, base in cands:
                if isinstance(base, ast.Name):
                    base = _local_def(f, base.id) or base
                if isinstance(base, ast.Call) and isinstance(base.func, ast.Attribute) and base.func.attr == 'get' and base.args:
                    base = ast.Subscript(value=base.func.value, slice=base.args[0], ctx=ast.Load())  # d.get(k) reads the bucket d[k]
                if not isinstance(base, ast.Subscript):
                    continue
                dexpr = base.value
                idxs: Set[str] = set()
                if self_attr(dexpr, me) in ('types', 'servers'):
                    idxs = {self_attr(dexpr, me)}  # type: ignore[arg-type]
                elif isinstance(dexpr, ast.Name) and dexpr.id in f.params:
                    pi = f.params.index(dexpr.id) - 1
                    for s_ in ctx.cg.callers_of(f):
                        if pi < len(s_.node.args) and isinstance(s_.node.args[pi], ast.Attribute):
                            idxs.add(s_.node.args[pi].attr)
                idxs &= {'types', 'servers'}
                if not idxs:
                    continue
                n_sites += 1
                dtext = norm(dexpr)
                need = {i: _enumerating_readers(ctx, reg, i) for i in idxs}
                if not any(need.values()):
                    obs.append(ob(R, f, c, f'{sorted(idxs)} is only read through .get(key) (key set not observable), so an empty bucket is harmless', True))
                    continue
                atoms: Dict[str, Any] = {}
                for x in walk_local_ordered(f.node):
                    if isinstance(x, ast.Subscript) and isinstance(x.ctx, ast.Load) and norm(x.value) == dtext:
                        atoms[norm(x)] = []  # the bucket became empty

                def eff(node: Any, evl: Any, dtext=dtext, n=n) -> List[Any]:
                    out = []
                    if node is n:
                        out.append('REM')
                    if node.kind == 'stmt':
                        for y in walk_local_ordered(node.ast):
                            if isinstance(y, ast.Delete) and any(isinstance(t, ast.Subscript) and norm(t.value) == dtext for t in y.targets):
                                out.append('DEL')
                            if isinstance(y, ast.Call) and call_name(y) == 'pop' and isinstance(y.func, ast.Attribute) and norm(y.func.value) == dtext:
                                out.append('DEL')
                    return out

                # from the function entry (so local aliases of the bucket are bound), one loop iteration
                oc, _ = fd.run_paths(prog, f.module, fcfg, atoms, eff, loop_bound=1)
                bad = [t for t in oc if 'REM' in t and 'DEL' not in t[t.index('REM'):]]
                oc = {t for t in oc if 'REM' in t}
                readers = sorted(r for v in need.values() for r in v)
                obs.append(ob(R, f, c, f'after the last entry of a bucket of {sorted(idxs)} is removed the bucket is deleted (keys are enumerated by: {readers})', not bad and bool(oc), 'an empty bucket is left behind' if bad else ''))
    if n_sites == 0:
        raise StructuralViolation(rem.module.rel, rem.qual, 'self.types[...] / self.servers[...] bucket removal', 'unregistering a service takes its name out of the type and the host index', 'no removal from an index bucket is left in the registry')
    # the public entry points reach the workers, and a lookup by type / host returns every service of the bucket
    for pub, worker in (('async_add', '_add'), ('async_remove', '_remove'), ('async_update', '_add')):
        pm = reg.methods.get(pub)
        if pm is None:
            raise AnalysisError(f'anchor vanished: ServiceRegistry.{pub}')
        pc = cfg_of(pm.node)
        wn = [n for n in pc.nodes if any(call_name(c) == worker and isinstance(c.func, ast.Attribute) and self_attr(c.func, pm.params[0]) for c in n.calls())]
        skip = pc.path_avoiding(pc.entry, lambda n: n is pc.exit, lambda n: n in wn) if wn else [pc.entry]
        obs.append(ob(R, pm, f'self.{worker}(...)', f'{pub} applies the change to the registry on every path', bool(wn) and skip is None))
    # ... and the instance's own routines reach those entry points with the description they were handed: registering adds
    # it, updating re-inserts it (`after a service is updated ... replies reflect only the new state`), unregistering removes it
    zc_c = prog.cls('zeroconf._core.Zeroconf')
    for zname, entry in (('async_register_service', 'async_add'), ('async_update_service', 'async_update'), ('async_unregister_service', 'async_remove')):
        zm = zc_c.methods.get(zname)
        if zm is None:
            raise AnalysisError(f'anchor vanished: Zeroconf.{zname}')
        zcfg = cfg_of(zm.node)
        hit = [n for n in zcfg.nodes if any(call_name(c) == entry and isinstance(c.func, ast.Attribute) and self_attr(c.func.value, zm.params[0]) == 'registry' and c.args and norm(c.args[0]) in (zm.params[1], f'[{zm.params[1]}]') for c in n.calls())]
        byp = zcfg.must_pass_before_exit(zcfg.entry, lambda n: n in hit) if hit else [zcfg.entry]
        obs.append(ob(R, zm, f'self.registry.{entry}({zm.params[1]})', f'{zname} hands the description to the registry ({entry}) on every path that returns', bool(hit) and byp is None, '' if hit else f'no call of registry.{entry} with the description'))
    gi = reg.methods.get('_async_get_by_index')
    if gi is not None:
        gme = gi.params[0]
        gets_i = {norm(c) for c in ast.walk(gi.node) if isinstance(c, ast.Call) and isinstance(c.func, ast.Attribute) and c.func.attr == 'get' and isinstance(c.func.value, ast.Name) and c.func.value.id in gi.params}
        for present in (True, False):
            atoms_i = {g_: (['a', 'b'] if present else None) for g_ in gets_i}
            oc_i, und_i = traces(ctx, gi, atoms_i, lambda n, e: [], loop_bound=1)
            rets_i = {x[1] for t in oc_i for x in t if isinstance(x, tuple) and x[0] == 'ret'}
            if present:
                comps = [c for c in ast.walk(gi.node) if isinstance(c, (ast.ListComp, ast.GeneratorExp))]
                whole = any(not g_.ifs for c in comps for g_ in c.generators) and all(not g_.ifs for c in comps for g_ in c.generators) or any(isinstance(c, ast.Call) and call_name(c) in ('list', 'values') for c in ast.walk(gi.node))
                # ... or a loop over the bucket that appends every element, unconditionally, to the list that is returned
                loops_i = [lp for lp in ast.walk(gi.node) if isinstance(lp, ast.For)]
                appended = [st_.value.func.value.id for lp in loops_i for st_ in lp.body if isinstance(st_, ast.Expr) and isinstance(st_.value, ast.Call) and call_name(st_.value) == 'append' and isinstance(st_.value.func, ast.Attribute) and isinstance(st_.value.func.value, ast.Name)]
                by_loop = (len(loops_i) == 1 and len(appended) == 1 and not any(isinstance(x, (ast.Continue, ast.Break, ast.If)) for x in ast.walk(loops_i[0]))
                           and all(isinstance(r_.value, ast.Name) and r_.value.id == appended[0] for r_ in ast.walk(gi.node) if isinstance(r_, ast.Return) and r_.value is not None))
                obs.append(ob(R, gi, 'bucket present', 'every service of the bucket is returned (no filter)', bool(gets_i) and (by_loop or (whole and None not in rets_i and '[]' not in rets_i)), f'returns {sorted(map(repr, rets_i))}'))
            else:
                obs.append(ob(R, gi, 'no bucket for the key', 'an empty list is returned', bool(gets_i) and rets_i <= {'[]'} and bool(rets_i) and not und_i, f'returns {sorted(map(repr, rets_i))}'))
    # one registration per name: when the index buckets hold the service OBJECTS (not names that are resolved through the
    # service table), every writer of the service table must write both indexes on the same path -- else a replaced
    # registration lives on in the buckets and type / host questions are answered from it
    def bucket_stores(f: FuncInfo) -> List[Tuple[str, ast.AST, Any]]:
        me_ = f.params[0] if f.params else 'self'
        out_ = []
        for st in walk_local_ordered(f.node):
            if isinstance(st, ast.Assign) and isinstance(st.targets[0], ast.Subscript):
                base = st.targets[0].value
                if isinstance(base, ast.Name):
                    base = _local_def(f, base.id) or base
                root = base
                while isinstance(root, (ast.Subscript, ast.Call)):
                    root = root.value if isinstance(root, ast.Subscript) else (root.func.value if isinstance(root.func, ast.Attribute) else root.func)
                    if isinstance(root, ast.Attribute) and self_attr(root, me_) in ('types', 'servers'):
                        break
                if isinstance(root, ast.Attribute) and self_attr(root, me_) in ('types', 'servers') and root is not st.targets[0].value:
                    out_.append((self_attr(root, me_), st.value, st))
            if isinstance(st, ast.Call) and call_name(st) in ('append', 'add') and isinstance(st.func, ast.Attribute) and st.args:
                base = st.func.value
                if isinstance(base, ast.Name):
                    base = _local_def(f, base.id) or base
                for x in ast.walk(base):
                    if isinstance(x, ast.Attribute) and self_attr(x, me_) in ('types', 'servers'):
                        out_.append((self_attr(x, me_), st.args[0], st))
                        break
        return out_

    holds_objects = []
    for f in reg.methods.values():
        for idx, val, st in bucket_stores(f):
            if isinstance(val, ast.Name) and val.id in f.params[1:]:
                holds_objects.append((f, idx, st))
    writers = [(f, st) for f in reg.methods.values() for st in walk_local_ordered(f.node) if isinstance(st, ast.Assign) and isinstance(st.targets[0], ast.Subscript) and self_attr(st.targets[0].value, f.params[0] if f.params else 'self') == '_services']
    if not writers:
        raise AnalysisError('anchor vanished: no store into the service table of the registry')
    if not holds_objects:
        obs.append(ob(R, add, 'self.types / self.servers buckets', 'the index buckets hold service NAMES that are resolved through the service table, so a name has one registration whichever index finds it', True))
    else:
        full_writers = {f.name for f in reg.methods.values() if {i for i, _, _ in bucket_stores(f)} >= {'types', 'servers'}}
        for f, st in writers:
            me_ = f.params[0]
            fcfg = cfg_of(f.node)

            def eff_w(node: Any, evl: Any, f: FuncInfo = f, st: ast.AST = st, me_: str = me_) -> List[Any]:
                out_ = []
                if node.kind == 'stmt' and node.ast is st:
                    out_.append('TABLE')
                if node.kind == 'stmt':
                    for i, _, s2 in bucket_stores(f):
                        if any(s2 is y for y in ast.walk(node.ast)):
                            out_.append('IDX:' + i)
                for c in node.calls():
                    if call_name(c) in full_writers and isinstance(c.func, ast.Attribute) and self_attr(c.func, me_):
                        out_ += ['IDX:types', 'IDX:servers']
                return out_

            oc, _ = fd.run_paths(prog, f.module, fcfg, {}, eff_w, loop_bound=1)
            bad = [t for t in oc if 'TABLE' in t and not {'IDX:types', 'IDX:servers'} <= set(t)]
            obs.append(ob(R, f, st, 'the index buckets hold service objects, so every path that stores a registration in the service table also stores it in the type and the host index (else the replaced object stays in the buckets and answers type / host questions)', not bad and bool(oc), f'a path stores into the table only: {sorted(set(map(strip_ret, bad)))[:2]}' if bad else ''))
    return obs


def _is_bucket_element(ctx: Any, f: FuncInfo, name: str) -> bool:
    """`name` iterates over a value fetched from one of the dict-of-list indexes."""
    me = f.params[0] if f.params else 'self'
    for n in walk_local_ordered(f.node):
        if isinstance(n, (ast.For, ast.comprehension)) and isinstance(n.target, ast.Name) and n.target.id == name:
            src = n.iter
            if isinstance(src, ast.Name):
                src = _local_def(f, src.id) or src
            if isinstance(src, ast.Call) and isinstance(src.func, ast.Attribute) and src.func.attr == 'get':
                base = src.func.value
            elif isinstance(src, ast.Subscript):
                base = src.value
            else:
                return False
            if self_attr(base, me) in ('types', 'servers'):
                return True
            if isinstance(base, ast.Name) and base.id in f.params:
                idx = f.params.index(base.id) - 1
                sites = ctx.cg.callers_of(f)
                return bool(sites) and all(idx < len(s.node.args) and isinstance(s.node.args[idx], ast.Attribute) and s.node.args[idx].attr in ('types', 'servers') for s in sites)
    return False


def _bucket_appends_lowered(ctx: Any, low: Lowered, reg: Any) -> Tuple[bool, str]:
    n = 0
    for f in reg.methods.values():
        me = f.params[0] if f.params else 'self'
        for c in walk_local_ordered(f.node):
            if isinstance(c, ast.Call) and call_name(c) in ('append', 'insert', 'extend') and isinstance(c.func, ast.Attribute):
                base = c.func.value
                idx = None
                if isinstance(base, ast.Call) and isinstance(base.func, ast.Attribute) and base.func.attr == 'setdefault':
                    idx = self_attr(base.func.value, me)
                elif isinstance(base, ast.Subscript):
                    idx = self_attr(base.value, me)
                if idx in ('types', 'servers'):
                    n += 1
                    ok, why = low.is_lowered(f, c.args[-1])
                    if not ok:
                        return False, f'{f.qual}: `{norm(c)}` appends a value not known to be lower-cased ({why})'
    if n == 0:
        return False, 'no append into an index bucket found'
    return True, f'element of an index bucket; all {n} appends into the buckets store lower-cased keys'


@rule('C03.KEYS', 'D', expect_min=10)
def keys(ctx: Any) -> List[Ob]:
    """Every key used on the registry's three indexes is lower-cased, including
    the three lookups of the query handler (instance, type, host) and the
    comparison with the type-enumeration name."""
    R = 'C03.KEYS'
    prog = ctx.prog
    low = Lowered(ctx)
    obs: List[Ob] = []
    reg = prog.cls(REG)
    for f in reg.methods.values():
        me = f.params[0] if f.params else 'self'
        for d, k, how in key_sites(f, lambda e: self_attr(e, me) in REG_INDEXES):
            ok, why = low.is_lowered(f, k)
            if not ok and isinstance(k, ast.Name) and _is_bucket_element(ctx, f, k.id):
                # the key is an element of an index bucket: it is lowered iff everything appended to the buckets is
                ok, why = _bucket_appends_lowered(ctx, low, reg)
            obs.append(ob(R, f, f'{norm(d)} {how} {norm(k)}', 'registry index key is lower-cased', ok, why))
        # pass-through helper: _async_get_by_index(self.types, key) uses records.get(key)
        for n in walk_local_ordered(f.node):
            if isinstance(n, ast.Call) and isinstance(n.func, ast.Attribute) and n.func.attr == 'get' and isinstance(n.func.value, ast.Name) and n.func.value.id in f.params[1:] and n.args:
                ok, why = low.is_lowered(f, n.args[0])
                obs.append(ob(R, f, n, 'registry index key is lower-cased', ok, why))
    g = prog.func(QH + '._get_answer_strategies')
    enum_name = prog.const('zeroconf.const', '_SERVICE_TYPE_ENUMERATION_NAME')
    obs.append(ob(R, g, f'_SERVICE_TYPE_ENUMERATION_NAME = {enum_name!r}', 'the enumeration name constant is itself lower-case', enum_name == enum_name.lower()))
    n_cmp = 0
    for n in walk_local_ordered(g.node):
        if isinstance(n, ast.Compare) and len(n.ops) == 1 and isinstance(n.ops[0], (ast.Eq, ast.NotEq)):
            sides = [n.left, n.comparators[0]]
            folded = [prog.try_fold(g.module, s) for s in sides]
            for i, (okf, v) in enumerate(folded):
                if okf and v == enum_name:
                    n_cmp += 1
                    ok, why = low.is_lowered(g, sides[1 - i])
                    obs.append(ob(R, g, n, 'the enumeration name is matched case-insensitively (lowered operand)', ok, why))
    if n_cmp == 0:
        raise AnalysisError('anchor vanished: comparison with _SERVICE_TYPE_ENUMERATION_NAME in _get_answer_strategies')
    return obs


STRATEGY_NAMES = {
    '_ANSWER_STRATEGY_SERVICE_TYPE_ENUMERATION': 'ENUM', '_ANSWER_STRATEGY_POINTER': 'POINTER',
    '_ANSWER_STRATEGY_ADDRESS': 'ADDRESS', '_ANSWER_STRATEGY_SERVICE': 'SERVICE', '_ANSWER_STRATEGY_TEXT': 'TEXT',
}
QTYPES = {'PTR': 12, 'A': 1, 'AAAA': 28, 'SRV': 33, 'TXT': 16, 'ANY': 255, 'NSEC': 47, 'HINFO': 13, 'other': 99}


def _dispatch_oracle(qt: str, kind: str) -> Set[str]:
    hits = {'enum': {'enum'}, 'type': {'type'}, 'host': {'host'}, 'instance': {'instance'}, 'none': set(), 'all': {'type', 'host', 'instance'}}[kind]
    out: Set[str] = set()
    if qt == 'PTR' and 'enum' in hits:
        return {'ENUM'}
    if kind == 'enum':
        # the enumeration name is not a registered type/host/instance
        return set()
    if qt in ('PTR', 'ANY') and 'type' in hits:
        out.add('POINTER')
    if qt in ('A', 'AAAA', 'ANY') and 'host' in hits:
        out.add('ADDRESS')
    if qt in ('SRV', 'ANY') and 'instance' in hits:
        out.add('SERVICE')
    if qt in ('TXT', 'ANY') and 'instance' in hits:
        out.add('TEXT')
    return out


@rule('C03.DISPATCH', 'D', expect_min=40)
def dispatch(ctx: Any) -> List[Ob]:
    """Decision table of the question dispatcher over question type x kind of
    name (enumeration name, registered type, host, instance, none, all): PTR <->
    type or enumeration; A/AAAA <-> host; SRV/TXT <-> instance; ANY <-> all three;
    NSEC/other <-> nothing.  And each strategy has exactly one arm in the
    answering function, calling the matching record builders."""
    R = 'C03.DISPATCH'
    prog = ctx.prog
    f = prog.func(QH + '._get_answer_strategies')
    m = f.module
    consts = {}
    for nm, lab in STRATEGY_NAMES.items():
        consts[prog.const(m.name, nm)] = lab
    if len(consts) != 5:
        raise AnalysisError('strategy constants are not five distinct values')
    enum_name = prog.const('zeroconf.const', '_SERVICE_TYPE_ENUMERATION_NAME')
    enum_cmps = []
    for n in walk_local_ordered(f.node):
        if isinstance(n, ast.Compare) and len(n.ops) == 1 and isinstance(n.ops[0], (ast.Eq, ast.NotEq)):
            for s in (n.left, n.comparators[0]):
                okf, v = prog.try_fold(m, s)
                if okf and v == enum_name:
                    enum_cmps.append(n)
    if not enum_cmps:
        raise AnalysisError('anchor vanished: enumeration-name test')

    def eff(node: Any, evl: Any) -> List[Any]:
        out = []
        for c in node.calls():
            if call_name(c) == '_AnswerStrategy' and len(c.args) >= 2:
                okf, v = prog.try_fold(m, c.args[1])
                out.append(consts.get(v, f'?{norm(c.args[1])}') if okf else f'?{norm(c.args[1])}')
        return out

    obs: List[Ob] = []
    SVC = Sym('service')
    for qt, tv in QTYPES.items():
        for kind in ('enum', 'type', 'host', 'instance', 'none', 'all'):
            atoms: Dict[str, Any] = {'.type': tv}
            for c in enum_cmps:
                atoms[norm(c)] = (kind == 'enum') if isinstance(c.ops[0], ast.Eq) else (kind != 'enum')
            atoms['.async_get_types()'] = ['_t._tcp.local.']
            atoms['.async_get_infos_type()'] = [SVC] if kind in ('type', 'all') else []
            atoms['.async_get_infos_server()'] = [SVC] if kind in ('host', 'all') else []
            atoms['.async_get_info_name()'] = SVC if kind in ('instance', 'all') else None
            oc, und = traces(ctx, f, atoms, eff)
            got = {frozenset(strip_ret(t)) for t in oc}
            want = _dispatch_oracle(qt, kind)
            obs.append(ob(R, f, f'question type {qt}, name is {kind}', f'strategies are exactly {sorted(want)}', got == {frozenset(want)} and not und, f'got {[sorted(g) for g in got]} undecided {und}'))
    # empty registry of types: enumeration question yields nothing
    atoms = {'.type': 12, '.async_get_types()': []}
    for c in enum_cmps:
        atoms[norm(c)] = isinstance(c.ops[0], ast.Eq)
    oc, _ = traces(ctx, f, atoms, eff)
    obs.append(ob(R, f, 'enumeration question, no types registered', 'no strategy (nothing to answer)', {frozenset(strip_ret(t)) for t in oc} == {frozenset()}))
    # _answer_question: one arm per strategy
    g = prog.func(QH + '._answer_question')
    p_strategy = g.params[2]
    arms = {
        'ENUM': {'_add_service_type_enumeration_query_answers'}, 'POINTER': {'_add_pointer_answers'},
        'ADDRESS': {'_add_address_answers'}, 'SERVICE': {'_dns_service', '_get_address_and_nsec_records'}, 'TEXT': {'_dns_text'},
    }
    interesting = set().union(*arms.values()) | {'_dns_pointer', '_dns_addresses', '_dns_nsec'}

    def eff2(node: Any, evl: Any) -> List[Any]:
        return [call_name(c) for c in node.calls() if call_name(c) in interesting]

    for val, lab in consts.items():
        oc, und = traces(ctx, g, {p_strategy: val, '.suppresses()': False}, eff2)
        got = {frozenset(strip_ret(t)) for t in oc}
        obs.append(ob(R, g, f'strategy {lab}', f'answers are built by {sorted(arms[lab])} only', got == {frozenset(arms[lab])}, f'got {[sorted(x) for x in got]}'))
        oc2, _ = traces(ctx, g, {p_strategy: val, '.suppresses()': True}, eff2)
        stores = set()

        def eff3(node: Any, evl: Any) -> List[Any]:
            return ['STORE'] if node.kind == 'stmt' and isinstance(node.ast, ast.Assign) and isinstance(node.ast.targets[0], ast.Subscript) else []

        if lab in ('SERVICE', 'TEXT'):
            oc3, _ = traces(ctx, g, {p_strategy: val, '.suppresses()': True}, eff3)
            obs.append(ob(R, g, f'strategy {lab} with a sufficient known answer', 'a record the querier already knows (more than half TTL) is not offered', all('STORE' not in t for t in oc3)))
    # ... and a valid query gets as far as these strategies whenever anything is registered
    from .c16 import dispatch_obligations

    obs.extend(dispatch_obligations(ctx, R, 'query'))
    # the services a strategy answers from are ALL the registry returned for the asked name: the list handed to a strategy is
    # the look-up result itself (or the single description of an instance question), never a slice or a filtered copy --
    # services that share a type or a host name may have different records, and each must be answered for
    gs = prog.func(QH + '._get_answer_strategies')
    gdefs = local_defs(gs)
    n_strat = 0
    for c in walk_local_ordered(gs.node):
        if not (isinstance(c, ast.Call) and call_name(c) == '_AnswerStrategy' and len(c.args) >= 4):
            continue
        n_strat += 1
        a3 = c.args[3]
        good_s, why_s = False, f'services argument `{norm(a3)}`'
        if isinstance(a3, ast.Name):
            vals = [v for v in gdefs.get(a3.id, []) if v is not None]
            good_s = bool(vals) and all(isinstance(v, ast.Call) and isinstance(v.func, ast.Attribute) and self_attr(v.func.value, gs.params[0]) == 'registry' for v in vals)
            why_s += f' = {[norm(v) for v in vals]}'
        elif isinstance(a3, ast.List) and len(a3.elts) == 1 and isinstance(a3.elts[0], ast.Name):
            vals = [v for v in gdefs.get(a3.elts[0].id, []) if v is not None]
            good_s = bool(vals) and all(isinstance(v, ast.Call) and isinstance(v.func, ast.Attribute) and self_attr(v.func.value, gs.params[0]) == 'registry' for v in vals)
        elif isinstance(a3, ast.Name) or (isinstance(a3, ast.Attribute)):
            good_s = False
        if isinstance(a3, (ast.Name, ast.List)) or not good_s:
            obs.append(ob(R, gs, c, 'a strategy answers from every service the registry returned for the asked name (the look-up result as it is)', good_s or (isinstance(a3, ast.Name) and a3.id.startswith('_EMPTY')), why_s))
    if n_strat < 4:
        raise AnalysisError(f'anchor vanished: strategy constructions in _get_answer_strategies (found {n_strat})')
    return obs


BUILDERS = {
    # builder -> (record class, type, class, ttl field, owner-name field(s))
    '_dns_pointer': ('DNSPointer', {12}, 1, 'other_ttl'),
    '_dns_service': ('DNSService', {33}, 0x8001, 'host_ttl'),
    '_dns_text': ('DNSText', {16}, 0x8001, 'other_ttl'),
    '_dns_addresses': ('DNSAddress', {1, 28}, 0x8001, 'host_ttl'),
    '_dns_nsec': ('DNSNsec', {47}, 0x8001, 'host_ttl'),
}


# builder -> {rdata parameter of the record constructor: the expression it must receive}
RDATA_WIRING = {
    '_dns_service': {'priority': 'self.priority', 'weight': 'self.weight', 'port': 'self.port', 'server': 'self.server or self._name'},
    '_dns_text': {'text': 'self.text'},
    '_dns_pointer': {'alias': 'self._name'},
    '_dns_nsec': {'next_name': 'self._name', 'rdtypes': '<param>'},
}


def _local_def(f: FuncInfo, name: str) -> Optional[ast.AST]:
    defs = [st.value for st in walk_local_ordered(f.node) if isinstance(st, ast.Assign) and any(isinstance(t, ast.Name) and t.id == name for t in st.targets)]
    return defs[0] if len(defs) == 1 else None


@rule('C03.TTLCLASS', 'D', expect_min=16)
def ttlclass(ctx: Any) -> List[Ob]:
    """Field table of the record builders (RFC 6762 section 10): PTR and TXT carry
    the service's other_ttl, SRV / A / AAAA / NSEC its host_ttl; an override TTL
    replaces it only when given; PTR (and the enumeration PTR) are shared
    records (class IN), all others unique (IN | cache-flush)."""
    R = 'C03.TTLCLASS'
    prog = ctx.prog
    info = prog.cls(INFO)
    obs: List[Ob] = []
    for bn, (rcls, types, klass, ttlf) in BUILDERS.items():
        f = info.methods.get(bn)
        if f is None:
            raise AnalysisError(f'anchor vanished: ServiceInfo.{bn}')
        me = f.params[0]
        ctor = [c for c in walk_local_ordered(f.node) if isinstance(c, ast.Call) and call_name(c) == rcls]
        if len(ctor) != 1:
            raise AnalysisError(f'{f.where()}: expected one {rcls}(...) construction, found {len(ctor)}')
        c = ctor[0]
        args = list(c.args)
        if len(args) < 4:
            raise AnalysisError(f'{f.where()}: {rcls}(...) is not called positionally (name, type, class, ttl, ...)')
        # type
        te = args[1]
        tvals: Set[int] = set()
        for x in ([te.body, te.orelse] if isinstance(te, ast.IfExp) else [te]):
            okf, v = prog.try_fold(f.module, x)
            if okf:
                tvals.add(v)
        obs.append(ob(R, f, c, f'{bn} builds records of type {sorted(types)}', tvals == types, f'got {sorted(tvals)}'))
        if bn == '_dns_addresses':
            # which of the two: an IPv6 address gives an AAAA record, an IPv4 address an A record; the owner is the host name
            # (the instance name only when no host was given); the rdata is the packed address of that very element
            for ver, want_t in ((4, 1), (6, 28)):
                got_t = fd.Evaluator(prog, f.module, {'.version': ver}).ev(te)
                obs.append(ob(R, f, te, f'{bn}: an IPv{ver} address becomes a record of type {want_t}', got_t == want_t, f'type evaluates to {got_t}'))
            ne = args[0]
            if isinstance(ne, ast.Name) and _local_def(f, ne.id) is not None:
                ne = _local_def(f, ne.id)  # type: ignore[assignment]
            obs.append(ob(R, f, ne, f'{bn}: the owner of the address records is the host name (`self.server or self._name`)', norm(ne) == f'{me}.server or {me}._name', f'owner is `{norm(ne)}`'))
            comp = next((x for x in walk_local_ordered(f.node) if isinstance(x, (ast.ListComp, ast.SetComp, ast.GeneratorExp)) and any(y is c for y in ast.walk(x.elt))), None)
            lv = comp.generators[0].target.id if comp is not None and isinstance(comp.generators[0].target, ast.Name) else None
            rd = args[4] if len(args) > 4 else None
            obs.append(ob(R, f, rd if rd is not None else c, f'{bn}: the rdata is the packed form of the address the record is built for', lv is not None and rd is not None and norm(rd) == f'{lv}.packed' and norm(te).count(f'{lv}.version') == 1, f'rdata `{norm(rd) if rd is not None else "?"}`, element `{lv}`'))
        ce = args[2]
        if isinstance(ce, ast.Name) and _local_def(f, ce.id) is not None:
            ce = _local_def(f, ce.id)  # type: ignore[assignment]
        okf, cv = prog.try_fold(f.module, ce)
        obs.append(ob(R, f, c, f'{bn} uses class {"IN (shared)" if klass == 1 else "IN|UNIQUE (cache-flush)"}', okf and cv == klass, f'class folds to {cv}'))
        tt = args[3]
        if isinstance(tt, ast.Name) and _local_def(f, tt.id) is not None:
            tt = _local_def(f, tt.id)  # type: ignore[assignment]
        # accepted: `o if o is not None else self.F`  /  `self.F if o is None else o`
        good = False
        why = norm(tt)
        if isinstance(tt, ast.IfExp) and isinstance(tt.test, ast.Compare) and len(tt.test.ops) == 1:
            op = tt.test.ops[0]
            ov = norm(tt.test.left)
            is_none = isinstance(tt.test.comparators[0], ast.Constant) and tt.test.comparators[0].value is None
            if is_none and ov in f.params:
                a, b = tt.body, tt.orelse
                if isinstance(op, ast.IsNot):
                    good = norm(a) == ov and self_attr(b, me) == ttlf
                elif isinstance(op, ast.Is):
                    good = norm(b) == ov and self_attr(a, me) == ttlf
        if not good:
            # ... or decided along the paths of the builder (the TTL chosen in the arms of an `if`): with no override the
            # constructor gets the service's field, with one it gets the override -- on every path that builds a record
            ovp = next((p_ for p_ in f.params[1:] if 'ttl' in p_), None)
            if ovp is not None:
                good = True
                for ov_v in (None, 77):
                    seen_t: Set[Any] = set()

                    def eff_t(node: Any, evl: Any, seen_t: Set[Any] = seen_t) -> List[Any]:
                        for c2 in fd.node_calls(node, evl):
                            if c2 is c:
                                v_ = evl.ev(c2.args[3])
                                seen_t.add('UNKNOWN' if isinstance(v_, fd._Unknown) else v_)
                        return []

                    atoms_t = {ovp: ov_v, f'{me}.{ttlf}': fd.Sym('FIELD')}
                    for a_ in {x.attr for x in ast.walk(f.node) if isinstance(x, ast.Attribute) and self_attr(x, me) and x.attr.endswith('_cache')}:
                        atoms_t[f'{me}.{a_}'] = None
                    traces(ctx, f, atoms_t, eff_t, loop_bound=1)
                    good = good and seen_t == {fd.Sym('FIELD') if ov_v is None else ov_v}
                    why = f'{why}; override {ov_v}: constructor gets {sorted(map(str, seen_t))}'
        obs.append(ob(R, f, c, f'{bn} uses the service\'s {ttlf} unless an override TTL is given', good, why))
    # enumeration pointer
    g = prog.func(QH + '._add_service_type_enumeration_query_answers')
    ctor = [c for c in walk_local_ordered(g.node) if isinstance(c, ast.Call) and call_name(c) == 'DNSPointer']
    if len(ctor) != 1:
        raise AnalysisError('anchor vanished: enumeration DNSPointer')
    vals = [prog.try_fold(g.module, a) for a in ctor[0].args[:4]]
    enum_name = prog.const('zeroconf.const', '_SERVICE_TYPE_ENUMERATION_NAME')
    obs.append(ob(R, g, ctor[0], 'the enumeration answer is a shared PTR (class IN, 4500 s) owned by the enumeration name', [v for _, v in vals] == [enum_name, 12, 1, 4500], str([v for _, v in vals])))
    # rdata wiring: each rdata parameter of the record constructor receives the service's field of that role
    for bn, want in RDATA_WIRING.items():
        f = info.methods[bn]
        me = f.params[0]
        c = [x for x in walk_local_ordered(f.node) if isinstance(x, ast.Call) and call_name(x) == BUILDERS[bn][0]][0]
        init = prog.cls('zeroconf._dns.' + BUILDERS[bn][0]).find_method('__init__')
        if init is None:
            raise AnalysisError(f'anchor vanished: {BUILDERS[bn][0]}.__init__')
        ip = init.params[1:]
        bound = {ip[i]: a for i, a in enumerate(c.args) if i < len(ip)}
        bound.update({k.arg: k.value for k in c.keywords if k.arg})
        for par, exp in want.items():
            from .common import xnorm

            got = xnorm(f, bound[par]) if par in bound else '<not passed>'
            exp_t = exp.replace('self.', me + '.') if exp != '<param>' else None
            good = (got == exp_t) if exp_t is not None else (got in f.params)
            obs.append(ob(R, f, c, f'{bn}: constructor parameter `{par}` receives {exp if exp != "<param>" else "the caller-supplied list"}', good, f'receives `{got}`'))
    # owner names of the instance records
    owners = {'_dns_pointer': ('type', '_name'), '_dns_service': ('_name', None), '_dns_text': ('_name', None)}
    for bn, (own, alias) in owners.items():
        f = info.methods[bn]
        me = f.params[0]
        c = [x for x in walk_local_ordered(f.node) if isinstance(x, ast.Call) and call_name(x) == BUILDERS[bn][0]][0]
        ok = self_attr(c.args[0], me) == own and (alias is None or self_attr(c.args[4], me) == alias)
        obs.append(ob(R, f, c, f'{bn}: owner name is self.{own}' + (f', target self.{alias}' if alias else ''), ok))
    return obs


def _memo_slots(ctx: Any) -> Dict[str, FuncInfo]:
    """attr -> builder, for attributes a ServiceInfo method returns when set and stores before returning."""
    info = ctx.prog.cls(INFO)
    out: Dict[str, FuncInfo] = {}
    for f in info.methods.values():
        me = f.params[0] if f.params else 'self'
        rets = {self_attr(r.value, me) for r in walk_local_ordered(f.node) if isinstance(r, ast.Return) and r.value is not None}
        # ... also when the slot is read into a local first (`cached = self._slot ... return cached`)
        from .common import local_defs as _ld

        ld = _ld(f)
        for r in walk_local_ordered(f.node):
            if isinstance(r, ast.Return) and isinstance(r.value, ast.Name):
                rets |= {self_attr(v, me) for v in ld.get(r.value.id, []) if v is not None}
        stores = {t.attr for t, s in attr_stores(f.node) if self_attr(t, me) and isinstance(s, ast.Assign) and not (isinstance(s.value, ast.Constant) and s.value.value is None)}
        for a in (rets & stores) - {None}:
            out[a] = f  # type: ignore[index]
    return out


def memo_clear_obligations(ctx: Any, R: str) -> List[Ob]:
    """Every memo slot is reset on EVERY path through async_clear_cache (shared with C08.PURGE: a memo that survives a
    re-registration keeps serving -- with a full TTL -- records of the name the description had before, after their goodbyes)."""
    info = ctx.prog.cls(INFO)
    slots = _memo_slots(ctx)
    clr = info.methods.get('async_clear_cache')
    if clr is None:
        raise AnalysisError('anchor vanished: ServiceInfo.async_clear_cache')
    me = clr.params[0]

    def eff(node: Any, evl: Any) -> List[Any]:
        out = []
        if node.kind == 'stmt':
            for t, st in attr_stores(node.ast):
                if self_attr(t, me) and isinstance(st, ast.Assign) and isinstance(st.value, ast.Constant) and st.value.value is None:
                    out.append('CLR:' + t.attr)
        return out

    oc, _ = traces(ctx, clr, {}, eff, loop_bound=1)
    on_all = set.intersection(*[{x[4:] for x in strip_ret(t) if isinstance(x, str) and x.startswith('CLR:')} for t in oc]) if oc else set()
    obs: List[Ob] = []
    for a, b in sorted(slots.items()):
        obs.append(ob(R, clr, f'self.{a} = None', f'async_clear_cache resets memo slot `{a}` (filled by {b.name}) on every path', a in on_all, f'reset on every path: {sorted(on_all)}'))
    return obs


@rule('C03.MEMO', 'N', expect_min=12)
def memo(ctx: Any) -> List[Ob]:
    """Record-memo discipline of a service description: every memo slot
    (discovered: returned when set, stored before returning) is reset by
    async_clear_cache; the registry clears the memos before inserting, so
    re-registration and update always serve rebuilt records; a record built
    with an override TTL (a goodbye copy, TTL 0) is never memoised nor served
    from the memo; the query handler requests records with no override."""
    R = 'C03.MEMO'
    prog = ctx.prog
    info = prog.cls(INFO)
    slots = _memo_slots(ctx)
    ctx.counters['memo_slots'] = sorted(slots)
    if len(slots) < 3:
        raise AnalysisError(f'memo-slot discovery found only {sorted(slots)}')
    obs: List[Ob] = []
    clr = info.methods.get('async_clear_cache')
    if clr is None:
        raise AnalysisError('anchor vanished: ServiceInfo.async_clear_cache')
    obs.extend(memo_clear_obligations(ctx, R))
    # registry clears before inserting
    add = prog.func(REG + '._add')
    cfg = cfg_of(add.node)
    clr_nodes = cfg.nodes_calling('async_clear_cache')
    ins = [n for n in cfg.nodes if n.kind == 'stmt' and isinstance(n.ast, ast.Assign) and isinstance(n.ast.targets[0], ast.Subscript) and self_attr(n.ast.targets[0].value, add.params[0]) == '_services']
    if not ins:
        raise AnalysisError('anchor vanished: insertion into _services')
    for i in ins:
        obs.append(ob(R, add, i.ast, 'the registry clears the description\'s record memos before inserting it', cfg.dominated_by_any(i, clr_nodes)))
    upd = prog.func(REG + '.async_update')
    calls = [call_name(c) for c in walk_local_ordered(upd.node) if isinstance(c, ast.Call)]
    obs.append(ob(R, upd, 'self._remove([info]); self._add(info)', 'an update re-inserts through _add (memos cleared, indexes rebuilt)', '_remove' in calls and '_add' in calls and calls.index('_remove') < calls.index('_add')))
    # override TTL never memoised / never served from memo
    for a, b in sorted(slots.items()):
        me = b.params[0]
        ov = next((p for p in b.params[1:] if 'ttl' in p), None)
        if ov is None:
            raise AnalysisError(f'{b.where()}: no override-ttl parameter')

        def eff(node: Any, evl: Any, a=a, me=me) -> List[Any]:
            out = []
            if node.kind == 'stmt':
                for t, s in attr_stores(node.ast):
                    if self_attr(t, me) == a and isinstance(s, ast.Assign) and not (isinstance(s.value, ast.Constant) and s.value.value is None):
                        out.append('MEMO-STORE')
            if node.kind == 'return' and node.ast.value is not None and self_attr(node.ast.value, me) == a:
                out.append('MEMO-RETURN')
            return out

        atoms = {ov: 0, f'{me}.{a}': Sym('memoised')}
        oc, _ = traces(ctx, b, atoms, eff, loop_bound=1)
        bad = [t for t in oc if 'MEMO-STORE' in t or 'MEMO-RETURN' in t]
        obs.append(ob(R, b, f'{b.name}(override_ttl=0)', f'a goodbye copy (override TTL) is neither stored in nor served from memo `{a}`', not bad and bool(oc), str(sorted(map(str, bad)))[:200]))
        # every other parameter the built value depends on keys the memo too: a build for a non-default value of it is
        # neither stored nor served (else a filtered list poisons the memo that the responder reads as the full set)
        for extra in [p for p in b.params[1:] if p != ov]:
            for stored in (None, Sym('memoised')):
                atoms3 = {ov: None, extra: Sym('IPVersion.V4Only'), f'{me}.{a}': stored}
                oc3, und3 = traces(ctx, b, atoms3, eff, loop_bound=1)
                bad3 = [t for t in oc3 if 'MEMO-STORE' in t or 'MEMO-RETURN' in t]
                obs.append(ob(R, b, f'{b.name}({extra}=<a value other than the default>), memo {"set" if stored else "unset"}', f'a build that depends on `{extra}` is neither stored in nor served from memo `{a}`', not bad3 and bool(oc3), str(sorted(map(str, bad3)))[:200]))
        atoms2 = {ov: None, f'{me}.{a}': None}
        if 'version' in b.params:
            atoms2['version'] = Sym('IPVersion.All')
        oc2, _ = traces(ctx, b, atoms2, eff, loop_bound=1)
        obs.append(ob(R, b, f'{b.name}(override_ttl=None)', f'a normal build fills memo `{a}`', all('MEMO-STORE' in t for t in oc2) and bool(oc2)))
    # query handler asks with None override
    n_sites = 0
    builder_names = {b.name for b in slots.values()} | {'_dns_nsec'}
    for f in prog.functions.values():
        if f.module.name != 'zeroconf._handlers.query_handler':
            continue
        for c in walk_local_ordered(f.node):
            if isinstance(c, ast.Call) and call_name(c) in builder_names:
                tgt = info.methods[call_name(c)]
                idx = next(i for i, p in enumerate(tgt.params[1:]) if 'ttl' in p)
                arg = c.args[idx] if idx < len(c.args) else None
                n_sites += 1
                obs.append(ob(R, f, c, 'the query handler builds answers with the configured TTL (no override)', isinstance(arg, ast.Constant) and arg.value is None))
    if n_sites < 5:
        raise AnalysisError('anchor vanished: record-builder calls in the query handler')
    return obs


@rule('C03.ADDL', 'N', expect_min=2)
def addl(ctx: Any) -> List[Ob]:
    """Additional records never repeat an answer: additionals are attached only
    in one function, under a membership test against a set seeded with the
    answers and extended with each additional added."""
    R = 'C03.ADDL'
    prog = ctx.prog
    obs: List[Ob] = []
    owner = prog.func('zeroconf._handlers.answers._add_answers_additionals')
    target = prog.func('zeroconf._protocol.outgoing.DNSOutgoing.add_additional_answer')
    for s in ctx.cg.callers_of(target):
        obs.append(ob(R, s.caller, s.node, 'additionals are attached only by _add_answers_additionals', s.caller is owner))
    cfg = cfg_of(owner.node)
    p_answers = owner.params[1]
    seeded = None
    for st in owner.node.body:
        if isinstance(st, (ast.Assign, ast.AnnAssign)):
            v = st.value
            if isinstance(v, ast.Call) and norm(v.func) == 'set' and v.args and norm(v.args[0]) == p_answers:
                seeded = st.targets[0].id if isinstance(st, ast.Assign) else st.target.id  # type: ignore[union-attr]
    obs.append(ob(R, owner, f'sending = set({p_answers})', 'the de-duplication set is seeded with the answers', seeded is not None))
    # every answer of the set goes out: one trip of the loop over the answers adds the answer of that trip at time 0 (its full
    # TTL), and a new additional of it is attached on the path where the membership test lets it through
    loops_o = [n for n in cfg.nodes if n.kind == 'for' and not n.in_loop and isinstance(n.ast.target, ast.Name) and any(isinstance(x, ast.Name) and x.id == p_answers for x in ast.walk(n.ast.iter))]
    if len(loops_o) != 1:
        raise AnalysisError('anchor vanished: the loop over the answers in _add_answers_additionals')
    lo = loops_o[0]
    av = lo.ast.target.id
    whole = not any(isinstance(x, (ast.Subscript, ast.IfExp, ast.comprehension)) for x in ast.walk(lo.ast.iter))
    oc_o, _ = fd.run_paths(prog, owner.module, cfg, {}, lambda node, evl: [('ANS', tuple(norm(a) for a in c.args)) for c in fd.node_calls(node, evl) if call_name(c) in ('add_answer_at_time', 'add_answer')], start=lo, stop=lambda n: n is lo, loop_bound=1, for_iter=lambda n, e: True if n is lo else None)
    per_o = {tuple(x for x in strip_ret(t) if isinstance(x, tuple) and x[0] == 'ANS') for t in oc_o}
    obs.append(ob(R, owner, lo.ast, 'every answer of the set is written to the reply once, with its full TTL (time 0), whatever its additionals are', whole and per_o == {(('ANS', (av, '0')),)}, f'per answer: {sorted(map(str, per_o))[:2]}; iterates the whole set: {whole}'))
    # ... and the two reply constructors fill the message they return through this routine, on every path
    for cname in ('construct_outgoing_multicast_answers', 'construct_outgoing_unicast_answers'):
        cf_ = prog.func('zeroconf._handlers.answers.' + cname)
        ccfg = cfg_of(cf_.node)
        fills = [n for n in ccfg.nodes if any(call_name(c) == owner.name and len(c.args) == 2 and norm(c.args[1]) == cf_.params[0] for c in n.calls())]
        outs_ = {norm(c.args[0]) for n in fills for c in n.calls() if call_name(c) == owner.name}
        rets_c = [r for r in walk_local_ordered(cf_.node) if isinstance(r, ast.Return) and r.value is not None]
        byp_c = ccfg.must_pass_before_exit(ccfg.entry, lambda n: n in fills) if fills else [ccfg.entry]
        obs.append(ob(R, cf_, fills[0].ast if fills else f'{owner.name}(out, answers)', f'{cname} puts the answers and their additionals into the message it returns, on every path', bool(fills) and byp_c is None and len(outs_) == 1 and all(norm(r.value) in outs_ for r in rets_c)))
    for n in cfg.nodes_calling('add_additional_answer'):
        call = next(c for c in n.calls() if call_name(c) == 'add_additional_answer')
        rec = norm(call.args[0])
        guard = [d for d in cfg.nodes if d.kind == 'test' and cfg.dominates(d, n) and isinstance(d.ast, ast.Compare) and isinstance(d.ast.ops[0], ast.NotIn) and norm(d.ast.left) == rec and norm(d.ast.comparators[0]) == seeded and any(cfg.dominates(s, n) or s is n for s, lab in d.succ if lab is True)]
        obs.append(ob(R, owner, call, 'an additional is attached only if it is not already being sent', bool(guard)))
        adds = [m for m in cfg.nodes if any(call_name(c) == 'add' and isinstance(c.func, ast.Attribute) and norm(c.func.value) == seeded and c.args and norm(c.args[0]) == rec for c in m.calls())]
        w = cfg.path_avoiding(n, lambda m: m in (cfg.exit,) or (m.kind == 'for'), lambda m: m in adds)
        obs.append(ob(R, owner, call, 'each attached additional is recorded in the set (no repeat across answers)', bool(adds) and w is None))
    return obs



def address_set_obligations(ctx: Any, R: str) -> List[Ob]:
    """The record set a service hands out for its host (additionals of its PTR / SRV answers, announcements, goodbyes): every
    address record of the service, plus ONE NSEC record that names exactly the address types it has no record of -- present iff
    a type is missing.  (Shared with C08.GOODBYE: the goodbye copies are built by the same routine.)"""
    prog = ctx.prog
    g = prog.cls(INFO).methods.get('_get_address_and_nsec_records')
    if g is None:
        raise AnalysisError('anchor vanished: ServiceInfo._get_address_and_nsec_records')
    me = g.params[0]
    cfg = cfg_of(g.node)
    obs: List[Ob] = []
    loops = [n for n in cfg.nodes if n.kind == 'for' and any(isinstance(c, ast.Call) and call_name(c) == '_dns_addresses' for c in ast.walk(n.ast.iter))]
    if len(loops) != 1 or not isinstance(loops[0].ast.target, ast.Name):
        raise AnalysisError('anchor vanished: the loop over the address records in _get_address_and_nsec_records')
    lp = loops[0]
    lv = lp.ast.target.id
    ldefs = local_defs(g)
    missing = sorted(n_ for n_, vs in ldefs.items() if any(v is not None and isinstance(v, ast.Call) and call_name(v) in ('copy', 'set') and any(prog.try_fold(g.module, x) == (True, frozenset({1, 28})) for x in ast.walk(v)) for v in vs))
    rets = [r for r in walk_local_ordered(g.node) if isinstance(r, ast.Return) and isinstance(r.value, ast.Name)]
    result = sorted({r.value.id for r in rets} - {n_ for n_ in ldefs if False})
    result = [n_ for n_ in result if any(v is not None and isinstance(v, (ast.Call, ast.Set)) for v in ldefs.get(n_, []))]
    if len(missing) != 1 or len(result) != 1:
        raise AnalysisError(f'_get_address_and_nsec_records: cannot identify the missing-type set / the result set ({missing}, {result})')
    mv, rv = missing[0], result[0]
    obs.append(ob(R, g, f'{mv} = copy of {{A, AAAA}}', 'the types still missing start as both address types', True))

    def eff(node: Any, evl: Any) -> List[Any]:
        out = []
        for c in fd.node_calls(node, evl):
            if isinstance(c.func, ast.Attribute) and isinstance(c.func.value, ast.Name):
                if c.func.value.id == mv and call_name(c) in ('discard', 'remove') and c.args:
                    out.append('SEEN:' + norm(c.args[0]))
                if c.func.value.id == rv and call_name(c) == 'add' and c.args:
                    a = c.args[0]
                    out.append('NSEC' if isinstance(a, ast.Call) and call_name(a) == '_dns_nsec' else 'ADD:' + norm(a))
        return out

    oc, _ = fd.run_paths(prog, g.module, cfg, {}, eff, start=lp, stop=lambda n: n is lp, loop_bound=1, for_iter=lambda n, e: True)
    per_trip = {tuple(sorted(x for x in strip_ret(t) if isinstance(x, str))) for t in oc}
    obs.append(ob(R, g, lp.ast, 'each address record of the service is put into the set, and its type is struck off the missing types, on every path of the loop', per_trip == {(f'ADD:{lv}', f'SEEN:{lv}.type')}, f'effects per trip: {sorted(per_trip)}'))
    nsec_nodes = [n for n in cfg.nodes if any(call_name(c) == '_dns_nsec' for c in n.calls())]
    tests = [t for t in cfg.nodes if t.kind == 'test' and (norm(t.ast) == mv or norm(t.ast) in (f'len({mv}) > 0', f'len({mv}) != 0', f'len({mv})', f'bool({mv})'))]
    ok_n = len(nsec_nodes) == 1 and len(tests) >= 1 and any(cfg.only_through_edge(t, True, nsec_nodes[0]) for t in tests) and not lp.in_loop and cfg.path_avoiding(lp, lambda n: n is nsec_nodes[0], lambda n: False) is not None and nsec_nodes[0] not in [n for n in cfg.nodes if n.in_loop and lp.ast in n.in_loop]
    added = any(x == 'NSEC' for t in fd.run_paths(prog, g.module, cfg, {}, eff, start=nsec_nodes[0], stop=lambda n: n is cfg.exit, loop_bound=1)[0] for x in t) if nsec_nodes else False
    obs.append(ob(R, g, nsec_nodes[0].ast if nsec_nodes else '_dns_nsec', 'after all addresses were seen, one NSEC record is added to the set exactly when a type is still missing', ok_n and added, '' if ok_n and added else 'the NSEC is not added exactly under the test of the missing-type set, after the address loop'))
    if nsec_nodes:
        call = next(c for c in nsec_nodes[0].calls() if call_name(c) == '_dns_nsec')
        a0 = call.args[0] if call.args else None
        from_missing = isinstance(a0, ast.Call) and isinstance(a0.func, ast.Name) and a0.func.id in ('list', 'sorted', 'tuple') and len(a0.args) == 1 and norm(a0.args[0]) == mv
        obs.append(ob(R, g, call, 'the NSEC names exactly the types still missing, with the TTL override it was given', from_missing and len(call.args) >= 2 and norm(call.args[1]) == g.params[1], f'arguments `{", ".join(norm(a) for a in call.args)}`'))
    return obs

@rule('C03.ADDRNSEC', 'D', expect_min=8)
def addrnsec(ctx: Any) -> List[Ob]:
    """Address questions: per address of the host -- the asked type becomes an answer unless the querier
    knows it, the other type becomes an additional, and every type seen is recorded; afterwards -- with
    answers, an NSEC for the missing types is attached as additional and each answer is stored; with no
    answer and the asked type missing, the NSEC is the answer; otherwise nothing.  The missing types
    are exactly {A, AAAA} minus the types seen."""
    R = 'C03.ADDRNSEC'
    prog = ctx.prog
    f = prog.func(QH + '._add_address_answers')
    cfg = cfg_of(f.node)
    p_set, p_known, p_type = f.params[2], f.params[3], f.params[4]
    obs: List[Ob] = []
    inner = [n for n in cfg.nodes if n.kind == 'for' and n.in_loop]
    if len(inner) < 1:
        raise AnalysisError('anchor vanished: address loop in _add_address_answers')
    from .common import expand

    addr_loop = next((n for n in inner if any(isinstance(c, ast.Call) and call_name(c) == '_dns_addresses' for c in ast.walk(expand(f, n.ast.iter)))), None)
    if addr_loop is None:
        raise AnalysisError('anchor vanished: the loop over the addresses of a service in _add_address_answers')
    avar = norm(addr_loop.ast.target)
    # every service that shares the host name is answered for: no path round the per-service loop skips its address loop
    outer = [n for n in cfg.nodes if n.kind == 'for' and not n.in_loop]
    if len(outer) != 1:
        raise AnalysisError('anchor vanished: the per-service loop of _add_address_answers')
    body_starts = [s_ for s_, lab in outer[0].succ if lab == 'iter']
    skip = [w for s_ in body_starts for w in [None if s_ is addr_loop else cfg.path_avoiding(s_, lambda n: n is outer[0], lambda n: n is addr_loop, skip_start=False)] if w is not None]
    obs.append(ob(R, f, skip[0][-2].ast if skip and len(skip[0]) > 1 and skip[0][-2].ast is not None else outer[0].ast, 'every service registered under the asked host name has its addresses examined (no service is skipped)', not skip, 'a path of the per-service loop reaches the next service without walking this one\'s addresses' if skip else ''))
    # roles of the locals
    # roles from how the collections are consumed after the loop (robust against edits inside the loop)
    add_v = sorted({norm(st.value) for st in walk_local_ordered(f.node) if isinstance(st, ast.Assign) and isinstance(st.targets[0], ast.Subscript) and norm(st.targets[0].value) == p_set and isinstance(st.value, ast.Name)})
    ans_v = sorted({norm(lp.iter) for lp in walk_local_ordered(f.node) if isinstance(lp, ast.For) and isinstance(lp.iter, ast.Name) and any(isinstance(st, ast.Assign) and isinstance(st.targets[0], ast.Subscript) and norm(st.targets[0].value) == p_set and norm(st.targets[0].slice) == norm(lp.target) for st in lp.body)})
    seen_v = sorted({norm(v.right) for vs in local_defs(f).values() for v in vs if v is not None and isinstance(v, ast.BinOp) and isinstance(v.op, ast.Sub) and prog.try_fold(f.module, v.left) == (True, frozenset({1, 28})) and isinstance(v.right, ast.Name)})
    if len(ans_v) != 1 or len(add_v) != 1 or len(seen_v) != 1:
        raise AnalysisError(f'_add_address_answers: cannot identify the answer / additional / seen-type collections ({ans_v}, {add_v}, {seen_v})')
    ans_v, add_v, seen_v = ans_v[0], add_v[0], seen_v[0]

    def eff(node: Any, evl: Any) -> List[Any]:
        out = []
        for c in fd.node_calls(node, evl):
            nm = call_name(c)
            if nm in ('append', 'add') and isinstance(c.func, ast.Attribute) and isinstance(c.func.value, ast.Name):
                out.append({ans_v: 'ANSWER', add_v: 'ADDITIONAL', seen_v: 'SEEN'}.get(c.func.value.id, '?'))
        return out

    for same in (True, False):
        for sup in (True, False):
            atoms = {f'{avar}.type': 1, p_type: 1 if same else 28, '.suppresses()': sup}
            oc, und = fd.run_paths(prog, f.module, cfg, atoms, eff, start=addr_loop, stop=lambda n: n is addr_loop, loop_bound=1, for_iter=lambda n, e: True)
            got = {tuple(sorted(strip_ret(t))) for t in oc}
            want = {'SEEN'} | ({'ADDITIONAL'} if not same else (set() if sup else {'ANSWER'}))
            obs.append(ob(R, f, f'address of the {"asked" if same else "other"} type, querier {"knows" if sup else "does not know"} it', f'effects {sorted(want)}', got == {tuple(sorted(want))} and not und, f'got {sorted(got)} undecided {und}'))
    # missing types
    miss = find_locals(f, lambda v: isinstance(v, ast.BinOp) and isinstance(v.op, ast.Sub) and prog.try_fold(f.module, v.left) == (True, frozenset({1, 28})) and norm(v.right) == seen_v)
    obs.append(ob(R, f, f'missing_types = _ADDRESS_RECORD_TYPES - {seen_v}', 'the missing types are {A, AAAA} minus the types the host has', len(miss) == 1))
    # the three per-service collections start empty for EVERY service of the host: they are initialised inside the loop over
    # the services (hoisted out of it, the types / additionals of one service leak into the NSEC and additionals of the next)
    svc_loops = [n for n in cfg.nodes if n.kind == 'for' and not n.in_loop]
    for v in (ans_v, add_v, seen_v):
        inits = [n for n in cfg.nodes if n.kind == 'stmt' and isinstance(n.ast, (ast.Assign, ast.AnnAssign)) and norm(n.ast.targets[0] if isinstance(n.ast, ast.Assign) else n.ast.target) == v]
        per_service = bool(inits) and len(svc_loops) == 1 and all(svc_loops[0].ast in n.in_loop and len(n.in_loop) == 1 for n in inits)
        obs.append(ob(R, f, inits[0].ast if inits else v, f'`{v}` is started afresh for each service that shares the host name', per_service, '' if per_service else f'`{v}` is not (re)initialised inside the loop over the services: it accumulates across services'))
    if len(miss) != 1:
        return obs
    miss_v = miss[0]
    after = [s_ for s_, lab in addr_loop.succ if lab == 'done']

    def eff2(node: Any, evl: Any) -> List[Any]:
        out = []
        for c in fd.node_calls(node, evl):
            if call_name(c) == '_dns_nsec':
                out.append('NSEC')
            if call_name(c) == 'add' and isinstance(c.func, ast.Attribute) and norm(c.func.value) == add_v:
                out.append('->ADDITIONAL')
        if node.kind == 'stmt' and isinstance(node.ast, ast.Assign) and isinstance(node.ast.targets[0], ast.Subscript) and norm(node.ast.targets[0].value) == p_set:
            k = node.ast.targets[0].slice
            out.append('STORE-NSEC-ANSWER' if isinstance(k, ast.Call) and call_name(k) == '_dns_nsec' else 'STORE-ANSWER')
        return out

    outer = [n for n in cfg.nodes if n.kind == 'for' and not n.in_loop][0]
    for has_ans in (True, False):
        for has_miss in (True, False):
            for asked_missing in (True, False):
                if asked_missing and not has_miss:
                    continue
                atoms = {ans_v: ['a'] if has_ans else [], miss_v: frozenset({28}) if has_miss else frozenset(), p_type: 28 if asked_missing else 1}
                oc, und = fd.run_paths(prog, f.module, cfg, atoms, eff2, start=after[0], stop=lambda n: n is outer, loop_bound=1, for_iter=lambda n, e: True)
                got = {tuple(strip_ret(t)) for t in oc}
                if has_ans:
                    want = (('NSEC', '->ADDITIONAL') if has_miss else ()) + ('STORE-ANSWER',)
                elif asked_missing:
                    want = ('NSEC', 'STORE-NSEC-ANSWER')
                else:
                    want = ()
                obs.append(ob(R, f, f'answers={"yes" if has_ans else "none"}, missing types={"yes" if has_miss else "none"}, asked type missing={asked_missing}', f'effects {want}', got == {want}, f'got {sorted(got)} undecided {und}'))
    obs.extend(address_set_obligations(ctx, R))
    return obs


@rule('C03.SUPPRESS', 'D', expect_min=2)
def suppress(ctx: Any) -> List[Ob]:
    """Known-answer suppression threshold as a linear form: a record is
    suppressed iff the querier lists the same record with TTL strictly greater
    than half the record's TTL  (other.ttl - ttl/2 > 0), in both implementations."""
    R = 'C03.SUPPRESS'
    prog = ctx.prog
    obs: List[Ob] = []
    want = lf.parse_cmp('0 < K - T / 2')
    f = prog.func('zeroconf._dns.DNSRRSet.suppresses')
    # the ordering comparison that a return evaluates (the whole value, or a conjunct of it: `other is not None and ...`)
    rets = [x for r in walk_local_ordered(f.node) if isinstance(r, ast.Return) and r.value is not None for x in ast.walk(r.value) if isinstance(x, ast.Compare) and len(x.ops) == 1 and isinstance(x.ops[0], (ast.Lt, ast.LtE, ast.Gt, ast.GtE))]
    if len(rets) != 1:
        raise AnalysisError('anchor vanished: comparison returned by DNSRRSet.suppresses')
    rec = f.params[1]
    lookup_var = '?'
    for st in walk_local_ordered(f.node):
        if isinstance(st, ast.Assign) and isinstance(st.value, ast.Call) and call_name(st.value) == 'get' and [norm(a) for a in st.value.args] == [rec] and isinstance(st.targets[0], ast.Name):
            lookup_var = st.targets[0].id

    def sym1(e: ast.AST) -> Optional[str]:
        t = norm(e)
        if t == f'{rec}.ttl':
            return 'T'
        if t == f'{lookup_var}.ttl':
            return 'K'
        return None

    try:
        got = lf.comparison(prog, f.module, rets[0], sym1)
        ok = lf.same_cmp(got, want)
        why = f'{lf.p_str(got[0])} {got[1]} 0'
    except lf.NotLinear as ex:
        ok, why = False, str(ex)
    obs.append(ob(R, f, rets[0], 'suppressed iff known TTL > half of the record TTL', ok, why))
    # the looked-up record is the one equal to `record` and a miss means not suppressed
    src_ok = any(isinstance(st, ast.Assign) and isinstance(st.value, ast.Call) and call_name(st.value) == 'get' and [norm(a) for a in st.value.args] == [rec] and norm(st.targets[0]) == lookup_var for st in walk_local_ordered(f.node))
    obs.append(ob(R, f, f'{lookup_var} = lookup.get({rec})', 'the known answer consulted is the one equal to the record (identity per C20)', src_ok))
    # ... as a table: not listed -> not suppressed; listed -> suppressed exactly when the listed TTL is above half
    for listed, k_ttl in ((False, 0), (True, 61), (True, 60), (True, 10)):
        atoms_k: Dict[str, Any] = {'.get()': Sym('known') if listed else None, f'{rec}.ttl': 120}
        if listed:
            atoms_k[f'{lookup_var}.ttl'] = k_ttl  # (an absent answer has no TTL to read)
        oc_k, und_k = traces(ctx, f, atoms_k, lambda n, e: [], loop_bound=1)
        rets_k = {x[1] for t in oc_k for x in t if isinstance(x, tuple) and x[0] == 'ret'}
        want_k = listed and k_ttl > 60
        obs.append(ob(R, f, f'record with TTL 120 {"listed with TTL " + str(k_ttl) if listed else "not listed"}', f'suppresses() is {want_k}', rets_k == {want_k} and not und_k, f'returns {sorted(map(str, rets_k))}; undecided {und_k}'))
    # the table the look-up reads holds every known answer of the packet, under itself, built once
    gl = prog.func('zeroconf._dns.DNSRRSet._get_lookup')
    gme = gl.params[0]
    from .common import expand as _xp_l

    # (the table read through the local it is built in: `lookup = {...}; self._lookup = lookup; return lookup`)
    comps_l = [v for _, st_ in attr_stores(gl.node) if isinstance(st_, ast.Assign) and self_attr(st_.targets[0], gme) == '_lookup' for v in [_xp_l(gl, st_.value, 1)] if isinstance(v, ast.DictComp)]
    stored_locals = {st_.value.id for _, st_ in attr_stores(gl.node) if isinstance(st_, ast.Assign) and self_attr(st_.targets[0], gme) == '_lookup' and isinstance(st_.value, ast.Name)}
    ok_l = len(comps_l) == 1 and len(comps_l[0].generators) == 1 and not comps_l[0].generators[0].ifs and self_attr(comps_l[0].generators[0].iter, gme) == '_records' and norm(comps_l[0].key) == norm(comps_l[0].value) == norm(comps_l[0].generators[0].target)
    for built in (False, True):
        oc_l, _ = traces(ctx, gl, {f'{gme}._lookup': ({'r': 'r'} if built else None)}, lambda n, e: ['BUILD'] if n.kind == 'stmt' and any(self_attr(t_, gme) == '_lookup' for t_, _ in attr_stores(n.ast)) else [], loop_bound=1)
        builds = {strip_ret(t).count('BUILD') for t in oc_l}
        ok_l = ok_l and builds == ({0} if built else {1})
    rets_l = [r for r in walk_local_ordered(gl.node) if isinstance(r, ast.Return) and r.value is not None]
    obs.append(ob(R, gl, comps_l[0] if comps_l else '{record: record for record in self._records}', 'the known-answer table maps every known answer of the packet to itself, is built on first use and then reused', ok_l and all(self_attr(r.value, gme) == '_lookup' or (isinstance(r.value, ast.Name) and r.value.id in stored_locals) for r in rets_l) and bool(rets_l)))
    ctor_rr = prog.func('zeroconf._dns.DNSRRSet.__init__')
    st_rr = [st_ for t_, st_ in attr_stores(ctor_rr.node) if self_attr(t_, ctor_rr.params[0]) == '_records' and isinstance(st_, ast.Assign)]
    obs.append(ob(R, ctor_rr, st_rr[0] if st_rr else 'self._records = records', 'the set keeps the known answers it is given', len(st_rr) == 1 and norm(st_rr[0].value) == ctor_rr.params[1]))
    g = prog.func('zeroconf._dns.DNSRecord._suppressed_by_answer')
    e = single_return_expr(g)
    me, other = g.params[0], g.params[1]
    ok = False
    why = norm(e)
    if isinstance(e, ast.BoolOp) and isinstance(e.op, ast.And) and len(e.values) == 2:
        eqs = [v for v in e.values if isinstance(v, ast.Compare) and isinstance(v.ops[0], ast.Eq)]
        cmps = [v for v in e.values if isinstance(v, ast.Compare) and not isinstance(v.ops[0], ast.Eq)]
        if len(eqs) == 1 and len(cmps) == 1 and {norm(eqs[0].left), norm(eqs[0].comparators[0])} == {me, other}:
            def sym2(x: ast.AST) -> Optional[str]:
                t = norm(x)
                return 'T' if t == f'{me}.ttl' else ('K' if t == f'{other}.ttl' else None)
            try:
                got = lf.comparison(prog, g.module, cmps[0], sym2)
                ok = lf.same_cmp(got, want)
                why = f'{lf.p_str(got[0])} {got[1]} 0'
            except lf.NotLinear as ex:
                why = str(ex)
    obs.append(ob(R, g, e, 'suppressed by an answer iff it is the same record with TTL > half', ok, why))
    # the known-answer lookup is a hash lookup: it finds the equal record only if hashing agrees with equality
    from .c20 import congruence

    for o in congruence.fn(ctx):
        if o.statement.startswith('equal records hash equal'):
            o.rule = R
            o.statement = 'the known-answer table is a hash table: equal records must hash equal, else an equal known answer is not found and nothing is suppressed'
            obs.append(o)
    # the TTL a known answer is judged by is the TTL the querier sent: the decoder hands the frame fields on unchanged (a floor or
    # clamp applied while parsing would make a half-expired known answer look fresh and suppress the reply)
    from .c01 import frame_locals_obligations

    obs.extend(frame_locals_obligations(ctx, R))
    # `minus records the querier lists as known answers`: wherever the query handler asks whether a record is suppressed, the
    # record is offered on exactly the paths where the answer was no -- decision table per site over (suppressed?)
    qh = prog.cls('zeroconf._handlers.query_handler.QueryHandler')
    n_sites = 0
    for m in sorted(qh.methods.values(), key=lambda x: x.name):
        asks = [c for c in walk_local_ordered(m.node) if isinstance(c, ast.Call) and call_name(c) == 'suppresses' and c.args]
        if not asks:
            continue
        keys = {norm(c.args[0]) for c in asks}

        def eff_k(node: Any, evl: Any, keys: Set[str] = keys) -> List[Any]:
            out = []
            for c in fd.node_calls(node, evl):
                if call_name(c) == 'suppresses' and c.args and norm(c.args[0]) in keys:
                    out.append('ASKED:' + norm(c.args[0]))
                if call_name(c) in ('append', 'add') and c.args and norm(c.args[0]) in keys:
                    out.append('OFFER:' + norm(c.args[0]))
            if node.kind == 'stmt' and isinstance(node.ast, ast.Assign) and isinstance(node.ast.targets[0], ast.Subscript) and norm(node.ast.targets[0].slice) in keys:
                out.append('OFFER:' + norm(node.ast.targets[0].slice))
            return out

        for k in sorted(keys):
            n_sites += 1
            res = {}
            for sup in (True, False):
                oc, _ = traces(ctx, m, {'.suppresses()': sup}, eff_k, loop_bound=1, for_iter=lambda n, e: True)
                asked = [t for t in oc if 'ASKED:' + k in t]
                res[sup] = (bool(asked), {('OFFER:' + k in t[t.index('ASKED:' + k):]) for t in asked})
            good = res[True][0] and res[False][0] and res[True][1] == {False} and res[False][1] == {True}
            obs.append(ob(R, m, f'known_answers.suppresses({k})', f'`{k}` is offered exactly when the querier\'s known answers do not suppress it', good, f'suppressed -> offered on {sorted(res[True][1])}; not suppressed -> offered on {sorted(res[False][1])}'))
    if n_sites < 4:
        raise AnalysisError(f'anchor vanished: known-answer tests of the query handler (found {n_sites})')
    return obs


@rule('C03.OFFERED', 'D', expect_min=10)
def offered(ctx: Any) -> List[Ob]:
    """What answers the questions is actually offered: each of the three routines that file an answer set (QU, unicast
    source, multicast) puts it into at least one of the four reply buckets, for every combination of (probe, recently
    multicast, seen in the last second, question shape) -- no combination lets the records of a registered service fall
    through unanswered.  (Which bucket is right is C11.ROUTE / C12.ROUTE; this is the `exactly the records ... are offered` part.)"""
    from .c11 import _bucket_eff, QR

    R = 'C03.OFFERED'
    prog = ctx.prog
    obs: List[Ob] = []
    g = prog.func(QR + '.add_qu_question_response')
    me = g.params[0]
    for probe in (False, True):
        for recent in (False, True):
            oc, und = traces(ctx, g, {f'{me}._is_probe': probe, '._has_mcast_within_one_quarter_ttl()': recent}, _bucket_eff(me), loop_bound=1, for_iter=lambda n, e: True)
            got = {frozenset(strip_ret(t)) for t in oc}
            obs.append(ob(R, g, f'QU answer set: probe={probe}, multicast within a quarter TTL={recent}', 'the records are filed in at least one reply bucket', bool(got) and all(got) and not und, f'buckets per path: {[sorted(x) for x in got]}'))
    h = prog.func(QR + '.add_mcast_question_response')
    me = h.params[0]
    for probe in (False, True):
        for last_second in (False, True):
            for nq, qtype in ((1, 33), (1, 12), (2, 33)):
                oc, und = traces(ctx, h, {f'{me}._is_probe': probe, '._has_mcast_record_in_last_second()': last_second, f'{me}._questions': ['Q'] * nq, '.type': qtype}, _bucket_eff(me), loop_bound=1, for_iter=lambda n, e: True)
                got = {frozenset(strip_ret(t)) for t in oc}
                obs.append(ob(R, h, f'multicast answer set: probe={probe} seen<1s={last_second} questions={nq} type={qtype}', 'the records are filed in at least one reply bucket', bool(got) and all(got) and not und, f'buckets per path: {[sorted(x) for x in got]}'))
    u = prog.func(QR + '.add_ucast_question_response')
    me = u.params[0]
    oc, und = traces(ctx, u, {}, _bucket_eff(me), loop_bound=1, for_iter=lambda n, e: True)
    got = {frozenset(strip_ret(t)) for t in oc}
    obs.append(ob(R, u, 'answer set for a unicast source', 'the records are filed in the unicast bucket', bool(got) and all('UCAST' in x for x in got)))
    # a record filed for delayed multicast is offered only if the queue it waits in is flushed: the flush timer of the outgoing
    # queues stays alive (no cancellation that leaves groups behind) -- shared with C12.WIRING
    from .c12 import flush_timer_cancel_obligations

    obs.extend(flush_timer_cancel_obligations(ctx, R))
    return obs


EXPLANATION = (
    'C03.INDEX (necessary condition): add/remove sibling agreement over the three registry indexes and bucket hygiene for every '
    'index whose key set is observable. C03.KEYS (decided): lower-case provenance of every registry key, through call sites. '
    'C03.DISPATCH (decided): finite-domain decision table of the question dispatcher (9 question types x 6 kinds of name) and of the '
    'answering arms. C03.TTLCLASS (decided): field table of the record builders (TTL source, class/cache-flush bit, type, owner). '
    'C03.MEMO (necessary): memo slots discovered; cleared before (re)insertion; goodbye copies never memoised. C03.ADDL (necessary): '
    'additionals attached at one site under a membership test. C03.ADDRNSEC (decided): decision tables of the address-answer routine (answer / additional / NSEC). C03.SUPPRESS (decided): half-TTL threshold as a linear form. '
    'Not decided: exactness of the answer set for arbitrary registries and histories [X].'
)
EXPLANATION_ADDENDUM = (
    " C03.TTLCLASS also checks that each rdata parameter of a record constructor receives the service's field of that role; C03.MEMO that the record memo is keyed by every builder parameter; C03.INDEX that un-indexing uses the keys of the registered entry; C03.ADDRNSEC (decided): decision tables of the address / NSEC answers, per-service collections, no service of a shared host skipped."
)
EXPLANATION = EXPLANATION + EXPLANATION_ADDENDUM

RULES = [index, keys, dispatch, ttlclass, memo, addl, addrnsec, suppress, offered]

"""C19 -- service names are validated per RFC 6763 and TXT properties round-trip."""
from __future__ import annotations

import ast
import re
from typing import Any, Dict, List, Optional, Set, Tuple

from sa import AnalysisError
from sa import lf
from sa.cf import cfg_of
from sa.ex import MayRaise
from sa.ln import LenAnalysis
from sa.pm import FuncInfo, RegexConst, call_name, norm, self_attr, walk_local_ordered
from sa.report import Ob, rule

from .common import ob

VALIDATOR = 'zeroconf._utils.name.service_type_name'
BAD = 'zeroconf._exceptions.BadTypeInNameException'
INFO = 'zeroconf._services.info.ServiceInfo'


@rule('C19.TOTAL', 'D', expect_min=2)
def total(ctx: Any) -> List[Ob]:
    """Exception totality of the name validator: with the full implicit
    catalogue and path-sensitive length intervals (split gives >= 1 element,
    pop needs >= 1, x[0] needs len >= 1, refined by every guard including
    short-circuit and/or), the only exception class that can leave the
    validator is BadTypeInNameException."""
    R = 'C19.TOTAL'
    f = ctx.prog.func(VALIDATOR)
    la = LenAnalysis(ctx, f)
    la.run()
    n_sites = len(la.sites)
    n_proved = sum(1 for rec in la.sites.values() if rec[1] == 0 and rec[0] > 0)
    ctx.counters['length_obligations'] = {'sites': n_sites, 'proved_on_all_paths': n_proved}

    def discharge(fn: FuncInfo, node: ast.AST, key: str) -> bool:
        return fn is f and key == 'builtins.IndexError' and la.proved(node)

    # the validator is handed any Python string (lone surrogates included): a strict encode inside it can raise
    mr = MayRaise(ctx, lambda g: g is f, discharge=discharge, strict_text=True)
    mr.analyse([f])
    ctx.counters['may_raise'] = mr.stats()
    esc = mr.escaping(f)
    obs: List[Ob] = []
    n_bad = 0
    for (k, where, line), o in esc.items():
        if k == BAD:
            n_bad += 1
            continue
        obs.append(ob(R, f, o.text, f'only BadTypeInNameException may leave the validator ({k.split(".")[-1]} can)', False, 'index not proved in bounds on every path' if k.endswith('IndexError') else k, o.describe()))
    obs.append(ob(R, f, f'{n_bad} raise BadTypeInNameException sites', 'rejections are raised as BadTypeInNameException', n_bad >= 8, f'{n_bad} sites'))
    obs.append(ob(R, f, f'{n_sites} index/pop sites', 'every constant-index subscript and pop is proved in bounds on all paths', all(rec[1] == 0 for rec in la.sites.values()) or bool([1 for x in obs if not x.ok]), f'{n_proved}/{n_sites} proved'))
    return obs


def _regex(ctx: Any, name: str) -> RegexConst:
    v = ctx.prog.const('zeroconf.const', name)
    if not isinstance(v, RegexConst):
        raise AnalysisError(f'{name} is not a compiled regular expression')
    return v


_UNIVERSE = 0x3000  # code points enumerated for categories and negated classes


def _charset(items: Any) -> Set[int]:
    import re._constants as C  # type: ignore[import-not-found]

    out: Set[int] = set()
    negate = False
    for op, av in items:
        if op is C.LITERAL:
            out.add(av)
        elif op is C.RANGE:
            out.update(range(av[0], av[1] + 1))
        elif op is C.CATEGORY:
            # \w, \d, \s ... on a str pattern are Unicode categories: enumerate them over the first planes so that the
            # comparison with the documented ASCII set shows what else is admitted
            esc = {C.CATEGORY_WORD: r'\w', C.CATEGORY_NOT_WORD: r'\W', C.CATEGORY_DIGIT: r'\d', C.CATEGORY_NOT_DIGIT: r'\D', C.CATEGORY_SPACE: r'\s', C.CATEGORY_NOT_SPACE: r'\S'}.get(av)
            if esc is None:
                raise AnalysisError(f'character class uses category {av}')
            rx = re.compile(esc)
            out.update(cp for cp in range(0, _UNIVERSE) if rx.fullmatch(chr(cp)))
        elif op is C.NEGATE:
            negate = True
    if negate:
        out = set(range(0, _UNIVERSE)) - out
    return out


def _only_these(ctx: Any, name: str) -> Tuple[bool, bool, Set[int], str]:
    """(anchored at start, anchored at the very end, charset, description) of ^[set]+$-style pattern."""
    import re._constants as C  # type: ignore[import-not-found]
    import re._parser as P  # type: ignore[import-not-found]

    rc = _regex(ctx, name)
    t = list(P.parse(rc.pattern, rc.flags))
    desc = f'{rc.pattern!r} flags={rc.flags}'
    if len(t) != 3:
        return False, False, set(), desc
    (o1, a1), (o2, a2), (o3, a3) = t
    begin = o1 is C.AT and a1 in (C.AT_BEGINNING, C.AT_BEGINNING_STRING) and not (rc.flags & re.MULTILINE and a1 is C.AT_BEGINNING)
    end = o3 is C.AT and a3 is C.AT_END_STRING
    cs: Set[int] = set()
    if o2 in (C.MAX_REPEAT, C.MIN_REPEAT) and a2[0] >= 1 and a2[1] == C.MAXREPEAT and len(a2[2]) == 1 and a2[2][0][0] is C.IN:
        cs = _charset(a2[2][0][1])
    return begin, end, cs, desc


def _has_any(ctx: Any, name: str) -> Tuple[Set[int], str]:
    import re._constants as C  # type: ignore[import-not-found]
    import re._parser as P  # type: ignore[import-not-found]

    rc = _regex(ctx, name)
    t = list(P.parse(rc.pattern, rc.flags))
    if len(t) == 1 and t[0][0] is C.IN:
        return _charset(t[0][1]), f'{rc.pattern!r}'
    return set(), f'{rc.pattern!r}'


LETTERS = set(range(ord('A'), ord('Z') + 1)) | set(range(ord('a'), ord('z') + 1))
DIGITS = set(range(ord('0'), ord('9') + 1))


@rule('C19.REGEX', 'D', expect_min=6)
def regex(ctx: Any) -> List[Ob]:
    """The validator's patterns, as regex syntax trees: an "only these characters"
    pattern used with .search must be  start-anchor (set)+ END-OF-STRING anchor
    (`$` also matches before a trailing newline); the character sets equal the
    documented ones (strict: letters, digits, hyphen; non-strict: plus
    underscore; control set 0x00-0x1F and 0x7F; at-least-one-letter set)."""
    R = 'C19.REGEX'
    f = ctx.prog.func(VALIDATOR)
    obs: List[Ob] = []
    uses: Dict[str, Set[str]] = {}
    for c in walk_local_ordered(f.node):
        if isinstance(c, ast.Call) and isinstance(c.func, ast.Attribute) and c.func.attr in ('search', 'match', 'fullmatch'):
            from .common import expand as _xp

            # the pattern object, read through the locals that name it; a conditional expression chooses between patterns
            def pats(b: ast.AST) -> List[str]:
                if isinstance(b, ast.IfExp):
                    return pats(b.body) + pats(b.orelse)
                return [b.id] if isinstance(b, ast.Name) else []

            names = [n_ for n_ in _pattern_names(f, c.func.value) if n_.isidentifier()] or pats(_xp(f, c.func.value))
            for n in names:
                uses.setdefault(n, set()).add(c.func.attr)
    ctx.counters['pattern_uses'] = {k: sorted(v) for k, v in uses.items()}
    for name, want, what in (
        ('_HAS_ONLY_A_TO_Z_NUM_HYPHEN', LETTERS | DIGITS | {ord('-')}, 'strict service name: letters, digits, hyphen'),
        ('_HAS_ONLY_A_TO_Z_NUM_HYPHEN_UNDERSCORE', LETTERS | DIGITS | {ord('-'), ord('_')}, 'non-strict service name: letters, digits, hyphen, underscore'),
    ):
        how = uses.get(name)
        if not how:
            raise AnalysisError(f'anchor vanished: use of {name} in the validator')
        begin, end, cs, desc = _only_these(ctx, name)
        need_end = how != {'fullmatch'}
        need_begin = 'search' in how
        obs.append(ob(R, ('src/zeroconf/const.py', '<module>'), f'{name} = {desc}', f'the pattern admits only whole strings over its set (used with {sorted(how)}): anchored at the start and at the very end of the string, not before a trailing newline', (begin or not need_begin) and (end or not need_end), f'start anchor: {begin}, end-of-string anchor: {end}'))
        obs.append(ob(R, ('src/zeroconf/const.py', '<module>'), f'{name} character set', f'{what}', cs == want, f'extra {sorted(map(chr, cs - want))} missing {sorted(map(chr, want - cs))}' if cs != want else ''))
    cs, desc = _has_any(ctx, '_HAS_A_TO_Z')
    obs.append(ob(R, ('src/zeroconf/const.py', '<module>'), f'_HAS_A_TO_Z = {desc}', 'at-least-one-letter test is a search for one ASCII letter', cs == LETTERS and '_HAS_A_TO_Z' in uses and uses['_HAS_A_TO_Z'] == {'search'}))
    cs, desc = _has_any(ctx, '_HAS_ASCII_CONTROL_CHARS')
    obs.append(ob(R, ('src/zeroconf/const.py', '<module>'), f'_HAS_ASCII_CONTROL_CHARS = {desc}', 'control-character test is a search for 0x00-0x1F or 0x7F', cs == set(range(0x20)) | {0x7F} and uses.get('_HAS_ASCII_CONTROL_CHARS') == {'search'}))
    return obs


@rule('C19.CONST', 'D', expect_min=6)
def const(ctx: Any) -> List[Ob]:
    """The documented limits at their use sites: whole name rejected above 256
    characters; strict service label rejected above 15; instance label rejected
    above 63 UTF-8 bytes; the three trailers; each limit test raises."""
    R = 'C19.CONST'
    prog = ctx.prog
    f = prog.func(VALIDATOR)
    p0 = f.params[0]
    cfg = cfg_of(f.node)
    obs: List[Ob] = []
    limits: List[Tuple[str, float, Any]] = []
    for t in cfg.nodes:
        if t.kind != 'test':
            continue
        for cmp_ in [x for x in ast.walk(t.ast) if isinstance(x, ast.Compare)]:
            subj: Dict[str, str] = {}

            def sym(x: ast.AST) -> Optional[str]:
                if isinstance(x, ast.Call) and norm(x.func) == 'len' and len(x.args) == 1:
                    subj['s'] = norm(x.args[0])
                    return 'L'
                if isinstance(x, ast.Name):
                    subj.setdefault('n', x.id)
                    return 'N:' + x.id
                return None

            try:
                p, op = lf.comparison(prog, f.module, cmp_, sym)
            except lf.NotLinear:
                continue
            syms = [m for m in p if m]
            if len(syms) != 1 or len(syms[0]) != 1:
                continue
            name = syms[0][0][0]
            coef, c0 = p[syms[0]], p.get((), 0)
            if coef >= 0 or op not in ('<', '<='):
                continue  # not an upper-limit test of the form  X > K
            K = float(-c0 / coef)
            maxlen = K if op == '<' else K - 1
            if any(s_.kind == 'raise' for s_, lab in t.succ if lab is True):
                limits.append((subj.get('s', name), maxlen, t))
    def find(pred: Any) -> List[Tuple[str, float, Any]]:
        return [x for x in limits if pred(x)]

    def raises_on_true(t: Any) -> bool:
        return any(s.kind == 'raise' or any(cfg.dominates(s, r) for r in cfg.nodes if r.kind == 'raise') for s, lab in t.succ if lab is True) and any(s.kind == 'raise' for s, lab in t.succ if lab is True)

    whole = find(lambda x: x[0] == p0)
    obs.append(ob(R, f, f'len({p0}) limit(s): {[x[1] for x in whole]}', 'the whole name is rejected above 256 characters (and only then, by this test)', [x[1] for x in whole] == [256.0] and raises_on_true(whole[0][2])))
    svc = find(lambda x: x[1] < 63 and x[0] != p0)
    def under_strict(t: Any) -> bool:
        """the limit applies in strict mode only: `strict and len(...) > 15`, or the test sits on the true arm of `if strict:`"""
        if 'strict' in norm(t.ast):
            return True
        return any(g.kind == 'test' and norm(g.ast) == 'strict' and cfg.only_through_edge(g, True, t) for g in cfg.nodes)

    strict_ok = bool(svc) and all(under_strict(x[2]) for x in svc)
    obs.append(ob(R, f, f'service-label limit(s): {[(x[0], x[1]) for x in svc]}', 'in strict mode the service label (without the underscore) is rejected above 15 characters', [x[1] for x in svc] == [15.0] and strict_ok and raises_on_true(svc[0][2])))
    # instance label: byte length of the utf-8 encoding
    inst = find(lambda x: x[1] >= 63 and x[0] != p0)
    enc_ok = False
    for x in inst:
        nm = x[0].replace('N:', '')
        for st in walk_local_ordered(f.node):
            if isinstance(st, ast.Assign) and any(isinstance(t, ast.Name) and t.id == nm for t in st.targets):
                v = st.value
                if isinstance(v, ast.Call) and norm(v.func) == 'len' and isinstance(v.args[0], ast.Call) and call_name(v.args[0]) == 'encode':
                    enc_ok = True
        if 'encode' in x[0]:
            enc_ok = True
    obs.append(ob(R, f, f'instance-label limit(s): {[(x[0], x[1]) for x in inst]}', 'the instance / subtype label is rejected above 63 UTF-8 bytes', [x[1] for x in inst] == [63.0] and enc_ok and raises_on_true(inst[0][2])))
    for nm, want in (('_TCP_PROTOCOL_LOCAL_TRAILER', '._tcp.local.'), ('_NONTCP_PROTOCOL_LOCAL_TRAILER', '._udp.local.'), ('_LOCAL_TRAILER', '.local.')):
        v = prog.const('zeroconf.const', nm)
        obs.append(ob(R, ('src/zeroconf/const.py', '<module>'), f'{nm} = {v!r}', f'trailer is {want!r}', v == want))
    return obs


def _test_kinds(ctx: Any, f: FuncInfo, t: ast.AST) -> List[str]:
    """Semantic kinds of the rejection checks a test expression performs."""
    prog = ctx.prog
    p0 = f.params[0]
    kinds: List[str] = []
    for x in ast.walk(t):
        if isinstance(x, ast.Compare) and len(x.ops) == 1:
            l, o, r = x.left, x.ops[0], x.comparators[0]
            for a, b in ((l, r), (r, l)):
                if isinstance(a, ast.Call) and norm(a.func) == 'len' and a.args:
                    okc, kv = prog.try_fold(f.module, b)
                    if norm(a.args[0]) == p0:
                        kinds.append('whole-length')
                    elif okc and isinstance(kv, int) and 10 <= kv <= 20:
                        kinds.append('service-length')
                if isinstance(a, ast.Name) and a.id not in f.params:
                    okc, kv = prog.try_fold(f.module, b)
                    if okc and isinstance(kv, int) and 60 <= kv <= 70:
                        kinds.append('label-length')
                if isinstance(a, ast.Subscript) and isinstance(b, ast.Constant) and b.value == '_' and isinstance(o, (ast.NotEq, ast.Eq)):
                    kinds.append('underscore')
            if isinstance(o, (ast.In, ast.NotIn)) and isinstance(l, ast.Constant):
                if l.value == '--':
                    kinds.append('double-hyphen')
                if l.value == '-' and isinstance(r, ast.Tuple):
                    kinds.append('edge-hyphen')
        if isinstance(x, ast.Call) and isinstance(x.func, ast.Attribute):
            if x.func.attr == 'endswith' and norm(x.func.value) == p0:
                kinds.append('trailer')
            if x.func.attr == 'startswith' and x.args and isinstance(x.args[0], ast.Constant) and x.args[0].value == '_':
                kinds.append('underscore')
            if x.func.attr in ('startswith', 'endswith') and x.args and isinstance(x.args[0], ast.Constant) and x.args[0].value == '-':
                kinds.append('edge-hyphen')  # `s.startswith('-') or s.endswith('-')`: the other spelling of `'-' in (s[0], s[-1])`
            if x.func.attr in ('search', 'match', 'fullmatch'):
                base = x.func.value
                names = _pattern_names(f, base)
                for n in names:
                    if n == '_HAS_A_TO_Z':
                        kinds.append('has-letter')
                    elif n.startswith('_HAS_ONLY'):
                        kinds.append('charset')
                    elif n == '_HAS_ASCII_CONTROL_CHARS':
                        kinds.append('control-chars')
    return sorted(set(kinds))


def _pattern_names(f: FuncInfo, base: ast.AST) -> List[str]:
    """The pattern constants a `.search` receiver may denote: the name itself, the arms of a conditional expression, or --
    for a local -- what each of its definitions denotes (a local chosen in the arms of an `if`)."""
    if isinstance(base, ast.IfExp):
        return _pattern_names(f, base.body) + _pattern_names(f, base.orelse)
    if isinstance(base, ast.Name):
        from .common import local_defs as _ldp

        defs = [d for d in _ldp(f).get(base.id, []) if d is not None]
        if defs and base.id not in f.params:
            out: List[str] = []
            for d in defs:
                out.extend(_pattern_names(f, d))
            return out
        return [base.id]
    return [norm(base)]


@rule('C19.CASCADE', 'N', expect_min=3)
def cascade(ctx: Any) -> List[Ob]:
    """No accepting path skips a documented rule: every path of the validator that returns (accepts)
    has evaluated the whole-name limit and the trailer test; in strict mode, or when a protocol
    trailer is present, also the underscore, hyphen, letter and character-set checks (and the
    15-character limit in strict mode); and the instance-label checks (63 bytes, control characters)
    are always evaluated together."""
    R = 'C19.CASCADE'
    from sa import fd

    f = ctx.prog.func(VALIDATOR)
    cfg = cfg_of(f.node)
    strict_p = next((p for p in f.params if p == 'strict'), None)
    if strict_p is None:
        raise AnalysisError('anchor vanished: `strict` parameter of the validator')

    def eff(node: Any, evl: Any) -> List[Any]:
        out: List[Any] = []
        if node.kind == 'test':
            out.extend('K:' + k for k in _test_kinds(ctx, f, node.ast))
        if node.kind == 'stmt' and isinstance(node.ast, ast.Assign) and isinstance(node.ast.value, ast.Constant) and isinstance(node.ast.value.value, bool):
            out.append(f'FLAG:{norm(node.ast.targets[0])}={node.ast.value.value}')
        return out

    obs: List[Ob] = []
    BASE = {'whole-length', 'trailer'}
    SVC = {'underscore', 'double-hyphen', 'edge-hyphen', 'has-letter', 'charset'}
    for strict in (True, False):
        oc, _ = fd.run_paths(ctx.prog, f.module, cfg, {strict_p: strict}, eff, loop_bound=1)
        accepting = [t for t in oc if any(isinstance(x, tuple) and x[0] == 'ret' for x in t)]
        if not accepting:
            raise AnalysisError('the validator has no accepting path')
        bad: List[str] = []
        for t in accepting:
            kinds = {x[2:] for x in t if isinstance(x, str) and x.startswith('K:')}
            has_proto = any(isinstance(x, str) and x.startswith('FLAG:') and x.endswith('=True') for x in t)
            need = set(BASE)
            if strict or has_proto:
                need |= SVC
            if strict:
                need.add('service-length')
            miss = need - kinds
            if miss:
                bad.append(f'an accepting path skips {sorted(miss)}')
            if ('label-length' in kinds) != ('control-chars' in kinds):
                bad.append('instance-label length and control-character checks are not evaluated together')
        obs.append(ob(R, f, f'strict={strict}: {len(accepting)} accepting path(s)', 'every accepting path has evaluated every documented rule of its mode', not bad, '; '.join(sorted(set(bad)))[:300]))
        inst = [t for t in accepting if any(x == 'K:label-length' for x in t)]
        obs.append(ob(R, f, f'strict={strict}: {len(inst)} accepting path(s) with an instance label', 'names with an instance / subtype label go through the 63-byte and control-character checks', bool(inst)))
    # an accepted name that HAS an instance / subtype / host label went through its checks: every path to a return either
    # evaluates the 63-byte test or has found the list of remaining labels empty (the false edge of its truthiness test)
    rem = [n_ for n_, vs in __import__('rules.common', fromlist=['local_defs']).local_defs(f).items() if any(v is not None and isinstance(v, ast.Call) and call_name(v) == 'split' for v in vs)]
    bad_paths = []
    n_ret = 0
    for path in cfg.paths(loop_bound=1):
        last = path[-1][0]
        if last is cfg.raise_exit or not any(n.kind == 'return' for n, _ in path):
            continue
        n_ret += 1
        checked = any(n.kind == 'test' and 'label-length' in _test_kinds(ctx, f, n.ast) for n, _ in path)
        empty = any(n.kind == 'test' and isinstance(n.ast, ast.Name) and n.ast.id in rem and lab is False for n, lab in path) or any(n.kind == 'test' and isinstance(n.ast, ast.UnaryOp) and isinstance(n.ast.op, ast.Not) and isinstance(n.ast.operand, ast.Name) and n.ast.operand.id in rem and lab is True for n, lab in path)
        if not (checked or empty):
            bad_paths.append(' -> '.join(str(n.line) for n, _ in path if n.kind in ('test', 'return') and n.line))
    obs.append(ob(R, f, f'{n_ret} accepting path(s) through the validator', 'a name is accepted only after its instance / subtype / host label passed the 63-byte and control-character checks, or when it has no such label', n_ret > 0 and not bad_paths and bool(rem), ('an accepting path skips the label checks: lines ' + bad_paths[0]) if bad_paths else ''))
    return obs


def _rule_atoms(ctx: Any, f: FuncInfo) -> Dict[str, Tuple[str, Any, Any]]:
    """kind -> (normalised text of the atomic predicate, value when the rule is satisfied, value when it is violated)."""
    prog = ctx.prog
    out: Dict[str, Tuple[str, Any, Any]] = {}
    from sa.fd import Sym

    for t in [n for n in walk_local_ordered(f.node) if isinstance(n, ast.If)]:
        for x in ast.walk(t.test):
            ks = _test_kinds(ctx, f, x) if isinstance(x, (ast.Compare, ast.Call)) else []
            if len(ks) != 1:
                continue
            k = ks[0]
            if isinstance(x, ast.Compare):
                o = x.ops[0]
                viol = True
                if k == 'underscore' and isinstance(o, ast.Eq):
                    viol = False
                if isinstance(o, ast.NotIn):
                    viol = False
                if k in ('whole-length', 'service-length', 'label-length'):
                    # which truth value means "too long"
                    try:
                        p_, op_ = lf.comparison(prog, f.module, x, lambda y: 'L' if isinstance(y, (ast.Call, ast.Name)) and not prog.try_fold(f.module, y)[0] else None)
                        coef = p_.get((('L', 1),), 0)
                        viol = coef < 0
                    except lf.NotLinear:
                        continue
                out.setdefault(k, (norm(x), not viol, viol))
            elif isinstance(x, ast.Call) and k in ('has-letter', 'charset', 'control-chars'):
                ok_v, bad_v = (Sym('match'), None) if k != 'control-chars' else (None, Sym('match'))
                out.setdefault(k, (norm(x), ok_v, bad_v))
            elif isinstance(x, ast.Call) and k == 'edge-hyphen':
                if k in out:
                    # the second half of `s.startswith('-') or s.endswith('-')`: a rule of its own
                    out['edge-hyphen/2'] = (norm(x), False, True)
                else:
                    out[k] = (norm(x), False, True)
    return out


@rule('C19.TABLE', 'D', expect_min=10)
def table(ctx: Any) -> List[Ob]:
    """The validator as a decision table over its documented rules: with every rule satisfied a name
    with a protocol trailer is accepted; with any single service-label rule violated no path that saw a
    protocol trailer accepts (in strict mode, and in non-strict mode except for the rules that mode
    relaxes); a violated instance-label rule is never accepted."""
    R = 'C19.TABLE'
    from sa import fd

    f = ctx.prog.func(VALIDATOR)
    cfg = cfg_of(f.node)
    atoms_by_kind = _rule_atoms(ctx, f)
    need = {'whole-length', 'underscore', 'service-length', 'double-hyphen', 'edge-hyphen', 'has-letter', 'charset', 'control-chars', 'label-length'}
    missing = need - set(atoms_by_kind)
    if missing:
        raise AnalysisError(f'anchor vanished: rule predicates {sorted(missing)} not found in the validator')

    def eff(node: Any, evl: Any) -> List[Any]:
        out: List[Any] = []
        if node.kind == 'stmt' and isinstance(node.ast, ast.Assign) and isinstance(node.ast.value, ast.Constant) and isinstance(node.ast.value.value, bool):
            out.append(f'FLAG={node.ast.value.value}')
        if node.kind == 'test' and 'label-length' in _test_kinds(ctx, f, node.ast):
            out.append('INSTANCE')
        return out

    obs: List[Ob] = []
    relaxed_in_non_strict = {'service-length'}
    for strict in (True, False):
        base = {'strict': strict}
        for k, (txt, okv, badv) in atoms_by_kind.items():
            base[txt] = okv
        oc, _ = fd.run_paths(ctx.prog, f.module, cfg, base, eff, loop_bound=1)
        acc = [t for t in oc if any(isinstance(x, tuple) and x[0] == 'ret' for x in t) and 'FLAG=True' in t]
        obs.append(ob(R, f, f'strict={strict}, every rule satisfied', 'a name with a protocol trailer is accepted', bool(acc)))
        for k, (txt, okv, badv) in sorted(atoms_by_kind.items()):
            atoms = dict(base)
            atoms[txt] = badv
            oc, _ = fd.run_paths(ctx.prog, f.module, cfg, atoms, eff, loop_bound=1)
            accepting = [t for t in oc if any(isinstance(x, tuple) and x[0] == 'ret' for x in t)]
            if k in ('label-length', 'control-chars'):
                bad = [t for t in accepting if 'INSTANCE' in t or k == 'control-chars' and 'INSTANCE' in t]
                want_reject = True
            elif k == 'whole-length':
                bad = accepting
                want_reject = True
            else:
                want_reject = strict or k not in relaxed_in_non_strict
                bad = [t for t in accepting if 'FLAG=True' in t]
            if want_reject:
                obs.append(ob(R, f, f'strict={strict}, rule `{k}` violated ({txt})', 'the name is rejected (no accepting path)', not bad, f'{len(bad)} accepting path(s) remain'))
            else:
                obs.append(ob(R, f, f'strict={strict}, rule `{k}` relaxed', 'non-strict mode accepts longer service labels', bool([t for t in accepting if 'FLAG=True' in t])))
    return obs


@rule('C19.TXT', 'N', expect_min=5)
def txt(ctx: Any) -> List[Ob]:
    """TXT codec agreement (RFC 6763 section 6): writer and reader both use a
    one-byte length prefix per item, the same `=` separator, a value-less key
    when the value is None; the reader keeps the first occurrence of a key and
    advances by exactly 1 + length."""
    R = 'C19.TXT'
    prog = ctx.prog
    info = prog.cls(INFO)
    w = info.methods.get('_set_properties')
    r = info.methods.get('_unpack_text_into_properties')
    if w is None or r is None:
        raise AnalysisError('anchor vanished: TXT writer/reader')
    obs: List[Ob] = []
    # writer: prefix = bytes((len(item),)) followed by item
    joins = [c for c in walk_local_ordered(w.node) if isinstance(c, ast.Call) and call_name(c) == 'join' and c.args and isinstance(c.args[0], ast.Tuple)]
    pref_ok = False
    for j in joins:
        el = j.args[0].elts
        for i, e in enumerate(el[:-1]):
            if isinstance(e, ast.Call) and norm(e.func) == 'bytes' and e.args and isinstance(e.args[0], ast.Tuple) and len(e.args[0].elts) == 1:
                inner = e.args[0].elts[0]
                if isinstance(inner, ast.Call) and norm(inner.func) == 'len' and norm(inner.args[0]) == norm(el[i + 1]):
                    pref_ok = True
    obs.append(ob(R, w, 'bytes((len(item),)) + item', 'writer prefixes every item with its one-byte length', pref_ok))
    # `=` is written exactly when a value is present (None = key only; an EMPTY value still gets its `=`): in the writer's flow
    # graph the statement that appends `=` is reached only through the live edge of a `value is None` test, nothing between that
    # edge and the end of the iteration can go round it, and the `=` is not under a conditional inside the statement
    cfgs = cfg_of(w.node)
    sep_nodes = [n for n in cfgs.nodes if n.ast is not None and n.kind in ('stmt', 'return') and any(isinstance(x, ast.Constant) and x.value == b'=' for x in ast.walk(n.ast))]
    sep_ok, sep_why = False, ''
    if len(sep_nodes) != 1:
        sep_why = f'{len(sep_nodes)} statements write the separator'
    else:
        S = sep_nodes[0]
        cond = [x for x in ast.walk(S.ast) if isinstance(x, (ast.IfExp, ast.BoolOp)) and any(isinstance(y, ast.Constant) and y.value == b'=' for y in ast.walk(x))]
        tests = []
        for t in cfgs.nodes:
            if t.kind != 'test' or t.ast is None:
                continue
            e, flip = t.ast, False
            while isinstance(e, ast.UnaryOp) and isinstance(e.op, ast.Not):
                e, flip = e.operand, not flip
            if isinstance(e, ast.Compare) and len(e.ops) == 1 and isinstance(e.ops[0], (ast.Is, ast.IsNot)) and isinstance(e.comparators[0], ast.Constant) and e.comparators[0].value is None:
                live = isinstance(e.ops[0], ast.IsNot)
                tests.append((t, live != flip))
        guard = next(((t, lv) for t, lv in tests if cfgs.only_through_edge(t, lv, S)), None)
        if cond:
            sep_why = 'the separator is written under a condition inside the statement: ' + norm(cond[0])[:80]
        elif guard is None:
            sep_why = 'the statement writing the separator is not reached exactly through the `value is not None` edge'
        else:
            t, lv = guard
            skip = None
            for s2, lab in t.succ:
                if lab == lv and s2 is not S:
                    skip = skip or cfgs.path_avoiding(s2, lambda n: n.kind == 'for' or n is cfgs.exit, lambda n: n is S, skip_start=False)
            sep_ok = skip is None
            sep_why = '' if sep_ok else f'a value that is not None can reach the end of the iteration without its `=` (through line {skip[0].line})'
    obs.append(ob(R, w, sep_nodes[0].ast if len(sep_nodes) == 1 else "record += b'=' + value", 'writer separates key and value with `=` exactly when a value is present (None: key only; an empty value keeps its `=`)', sep_ok, sep_why))
    # the caller's dict may be kept as the decoded properties only if nothing in it had to be converted to bytes
    me_w = w.params[0]
    reuse = [n for n in walk_local_ordered(w.node) if isinstance(n, ast.Assign) and self_attr(n.targets[0], me_w) == '_properties' and norm(n.value) == w.params[1]]
    cfgw = cfg_of(w.node)
    if reuse:
        rnode = next(n for n in cfgw.nodes if n.ast is reuse[0])
        guards = [t for t in cfgw.nodes if t.kind == 'test' and cfgw.dominates(t, rnode) and isinstance(t.ast, ast.UnaryOp) and isinstance(t.ast.op, ast.Not) and isinstance(t.ast.operand, ast.Name)]
        flag = guards[0].ast.operand.id if guards else None
        convs = [n for n in cfgw.nodes if n.kind == 'stmt' and isinstance(n.ast, ast.Assign) and isinstance(n.ast.targets[0], ast.Name) and any(isinstance(c, ast.Call) and call_name(c) == 'encode' for c in ast.walk(n.ast.value))]
        sets = [n for n in cfgw.nodes if n.kind == 'stmt' and isinstance(n.ast, ast.Assign) and flag is not None and norm(n.ast.targets[0]) == flag and norm(n.ast.value) == 'True']
        good = flag is not None and bool(convs)
        missing = []
        for cv in convs:
            # every path from a conversion to the end of the loop iteration sets the flag
            w_ = cfgw.path_avoiding(cv, lambda n: n.kind == 'for' or n is cfgw.exit, lambda n: n in sets)
            if w_ is not None:
                missing.append(norm(cv.ast)[:60])
        obs.append(ob(R, w, reuse[0], 'the caller\'s dictionary is reused as the decoded properties only when no key or value had to be converted to bytes (every conversion marks the dictionary as not reusable)', good and not missing, f'conversion without marking: {missing}' if missing else ('' if good else 'no not-<flag> guard on the reuse')))
    # the writer refuses an item only when it cannot be written: an item of up to 255 bytes has a one-byte length prefix and is
    # legal; an explicit refusal has to be the bound `len(item) > 255`, nothing tighter (the implicit one is bytes((256,)))
    from sa import lf as _lf19

    parents_w: Dict[int, ast.AST] = {}
    for a_ in ast.walk(w.node):
        for ch_ in ast.iter_child_nodes(a_):
            parents_w[id(ch_)] = a_
    for rz in [x for x in walk_local_ordered(w.node) if isinstance(x, ast.Raise)]:
        n_: ast.AST = rz
        guard_w = None
        while id(n_) in parents_w and guard_w is None:
            par_ = parents_w[id(n_)]
            if isinstance(par_, ast.If) and n_ in par_.body:
                guard_w = par_
            n_ = par_
        okz, whyz = False, 'unguarded refusal'
        if guard_w is not None:
            try:
                plz, opz = _lf19.comparison(prog, w.module, guard_w.test, lambda x: 'L' if isinstance(x, ast.Call) and norm(x.func) == 'len' else None)
                if opz == '<=':
                    plz, opz = _lf19.p_add(plz, _lf19.p_const(1), -1), '<'
                okz = _lf19.same_cmp((plz, opz), _lf19.parse_cmp('255 - L < 0'))
                whyz = f'guard `{norm(guard_w.test)}` reads as {_lf19.p_str(plz)} {opz} 0'
            except _lf19.NotLinear as ex_:
                whyz = f'guard `{norm(guard_w.test)}`: {ex_}'
        obs.append(ob(R, w, rz, 'the writer refuses an item only when it is longer than 255 bytes (the largest a one-byte length prefix can announce)', okz, whyz))
    # reader
    parts = [c for c in walk_local_ordered(r.node) if isinstance(c, ast.Call) and call_name(c) in ('partition', 'split') and c.args and isinstance(c.args[0], ast.Constant)]
    obs.append(ob(R, r, parts[0] if parts else 'partition', 'reader splits each item at the first `=`', len(parts) == 1 and parts[0].args[0].value == b'=' and call_name(parts[0]) == 'partition'))
    first = [n for n in walk_local_ordered(r.node) if isinstance(n, ast.If) and isinstance(n.test, ast.Compare) and isinstance(n.test.ops[0], ast.NotIn) and any(isinstance(s, ast.Assign) and isinstance(s.targets[0], ast.Subscript) for s in n.body)]
    obs.append(ob(R, r, first[0].test if first else 'if key not in properties', 'the first occurrence of a key wins', len(first) == 1))
    # ... of THAT key, byte for byte: the membership test is made with the very key the entry is stored under, against the very
    # dictionary it is stored in (a test on a folded or otherwise normalised copy of the key drops `model` after `Model`, which
    # an RFC 6763 section 6 parser of the same bytes keeps as two keys), and the key is the bytes before the first `=`, untouched
    if len(first) == 1:
        from .common import local_defs as _ld

        stt = [s_ for s_ in first[0].body if isinstance(s_, ast.Assign) and isinstance(s_.targets[0], ast.Subscript)]
        tst = first[0].test
        same = len(stt) == 1 and norm(tst.left) == norm(stt[0].targets[0].slice) and norm(tst.comparators[0]) == norm(stt[0].targets[0].value)
        kname = stt[0].targets[0].slice if stt else None
        raw = False
        if isinstance(kname, ast.Name):
            defs_k = _ld(r).get(kname.id, [])
            raw = bool(defs_k) and all(d is None or (isinstance(d, ast.Subscript) and not any(isinstance(x, ast.Call) and call_name(x) not in ('partition', 'split') for x in ast.walk(d))) for d in defs_k)
        elif isinstance(kname, ast.Subscript):
            raw = not any(isinstance(x, ast.Call) and call_name(x) not in ('partition', 'split') for x in ast.walk(kname))
        obs.append(ob(R, r, tst, 'the test for an earlier occurrence uses the key as stored (same bytes, same dictionary); the key is the item up to its first `=`, unchanged', same and raw, ('' if same else f'tested `{norm(tst.left)} not in {norm(tst.comparators[0])}`, stored under `{norm(stt[0].targets[0]) if stt else "?"}`') + ('' if raw else '; the key is transformed before it is stored')))
    la = LenAnalysis(ctx, r)
    whiles = [n for n in walk_local_ordered(r.node) if isinstance(n, ast.While)]
    if len(whiles) != 1:
        raise AnalysisError('anchor vanished: reader loop')
    ok, why = la.while_variant(whiles[0])
    obs.append(ob(R, r, f'while {norm(whiles[0].test)}', 'the reader advances by at least one byte per item (terminates on any bytes)', ok, why))
    # advance is exactly 1 + length: the statements of the loop body that set the index (or a local the index is later set
    # from), composed in order -- `index += 1; ...; index += length` and `start = index + 1; index = start + length` alike
    from sa import lf as _lfa

    wl = whiles[0]
    ivar = (norm(wl.test.left if isinstance(wl.test.ops[0], (ast.Lt, ast.LtE)) else wl.test.comparators[0]) if isinstance(wl.test, ast.Compare) and len(wl.test.ops) == 1 else '?')  # the variable of `v < bound`, either way round
    lens = []
    for st in walk_local_ordered(wl):
        if isinstance(st, ast.Assign) and isinstance(st.value, ast.Subscript) and not isinstance(st.value.slice, ast.Slice) and isinstance(st.targets[0], ast.Name):
            td = ctx.ty.type_of(r.module.name, st.value.value)
            if td and td[0] == 'inst' and td[1] == 'builtins.bytes':
                lens.append(st.targets[0].id)
    adv = None
    if len(lens) == 1:
        env: Dict[str, Any] = {ivar: _lfa.p_sym('I')}
        symf = lambda x: 'L' if isinstance(x, ast.Name) and x.id == lens[0] else None  # noqa: E731
        try:
            for st in wl.body:
                if isinstance(st, ast.Assign) and len(st.targets) == 1 and isinstance(st.targets[0], ast.Name) and st.targets[0].id != lens[0]:
                    try:
                        env[st.targets[0].id] = _lfa.poly(prog, r.module, st.value, symf, env)
                    except _lfa.NotLinear:
                        env.pop(st.targets[0].id, None)
                        if st.targets[0].id == ivar:
                            raise
                elif isinstance(st, ast.AugAssign) and isinstance(st.target, ast.Name) and st.target.id in env and isinstance(st.op, (ast.Add, ast.Sub)):
                    env[st.target.id] = _lfa.p_add(env[st.target.id], _lfa.poly(prog, r.module, st.value, symf, env), 1 if isinstance(st.op, ast.Add) else -1)
                elif any(isinstance(x, ast.Name) and x.id == ivar and isinstance(x.ctx, ast.Store) for x in ast.walk(st)):
                    raise _lfa.NotLinear('the index is set in a nested statement')
            adv = _lfa.p_add(env[ivar], _lfa.p_sym('I'), -1)
        except _lfa.NotLinear:
            adv = None
    obs.append(ob(R, r, f'{ivar} advances by {_lfa.p_str(adv) if adv is not None else "?"}', 'the reader consumes one length byte plus exactly `length` bytes per item', adv is not None and adv == _lfa.parse_poly('1 + L')))
    return obs


EXPLANATION = (
    'C19.TOTAL (decided): may-raise analysis of the validator with the implicit catalogue; IndexError obligations are discharged by '
    'a path-sensitive length-interval analysis (split >= 1, pop, slices, guards with short-circuit); only BadTypeInNameException may '
    'escape. C19.REGEX (decided): regex syntax trees -- start anchor, (set)+, end-of-STRING anchor, exact character sets. '
    'C19.CASCADE (necessary): every accepting path of the validator has evaluated every documented rule of its mode (no fast path around a check). C19.CONST (decided): 256 / 15 / 63 limits as normalised comparisons at their use sites, trailers. C19.TXT (necessary condition): '
    'writer/reader agreement of the TXT item framing. Not decided: agreement of the whole cascade with the grammar on every string [X]; '
    'lone surrogates: assumption A4 is not made here -- a strict encode inside the validator is charged UnicodeEncodeError and has to be contained (F25).'
)
RULES = [total, regex, const, cascade, table, txt]

"""C02 -- the decoder is total, bounded and faithful on arbitrary datagrams."""
from __future__ import annotations

import ast
from typing import Any, Dict, List, Optional, Set, Tuple

from sa import AnalysisError
from sa import fd, lf
from sa.cf import cfg_of
from sa.ex import Hierarchy, MayRaise
from sa.ln import LenAnalysis
from sa.pm import FuncInfo, call_name, norm, self_attr, walk_local_ordered
from sa.report import Ob, rule

from .common import attr_stores, ob, traces

INC = 'zeroconf._protocol.incoming.DNSIncoming'
MAX_DEPTH_CONST = 500  # CPython's default recursion limit (1000) minus generous head-room for the caller's frames


def region(ctx: Any) -> Tuple[List[FuncInfo], List[FuncInfo]]:
    prog = ctx.prog
    roots = [prog.func(INC + '.__init__'), prog.func(INC + '.answers')]
    return roots, ctx.cg.closure(roots)


def decode_exception_keys(ctx: Any) -> List[str]:
    m = ctx.prog.module('zeroconf._protocol.incoming')
    if 'DECODE_EXCEPTIONS' not in m.assigns:
        raise AnalysisError('anchor vanished: DECODE_EXCEPTIONS')
    keys = Hierarchy(ctx.prog).keys_of(m, m.assigns['DECODE_EXCEPTIONS'])
    if not keys:
        raise AnalysisError('DECODE_EXCEPTIONS does not resolve to exception classes')
    return keys


def depth_guard(ctx: Any, f: FuncInfo, call: ast.Call) -> Tuple[bool, str]:
    """Is the (recursive) `call` in f protected by a depth guard?  On every path
    from the entry to the call there is a test comparing a monotone measure
    with a constant <= 500 whose taken arm raises a DECODE_EXCEPTIONS member,
    and the measure strictly grows from one recursion level to the next."""
    prog = ctx.prog
    h = Hierarchy(prog)
    dk = decode_exception_keys(ctx)
    cfg = cfg_of(f.node)
    cnode = next((n for n in cfg.nodes if any(c is call for c in n.calls())), None)
    if cnode is None:
        return False, 'call not in CFG'
    params = f.params
    why = 'no guard test dominates the recursive call'
    for t in cfg.nodes:
        if t.kind != 'test' or not cfg.dominates(t, cnode):
            continue
        e = t.ast
        if not (isinstance(e, ast.Compare) and len(e.ops) == 1):
            continue

        def sym(x: ast.AST) -> Optional[str]:
            if isinstance(x, ast.Call) and norm(x.func) == 'len' and len(x.args) == 1 and isinstance(x.args[0], ast.Name):
                return 'len:' + x.args[0].id
            if isinstance(x, ast.Name):
                return 'int:' + x.id
            return None

        try:
            p, op = lf.comparison(prog, f.module, e, sym)
        except lf.NotLinear:
            continue
        syms = [m for m in p if m]
        if len(syms) != 1 or len(syms[0]) != 1 or syms[0][0][1] != 1 or op not in ('<', '<='):
            continue
        measure = syms[0][0][0]
        coef = p[syms[0]]
        const = p.get((), 0)
        # p OP 0 with p = coef*measure + const.  coef < 0 : test true when measure > K (raise arm is the True arm)
        K = float(-const / coef)
        raise_arm = True if coef < 0 else False
        arm = [s for s, lab in t.succ if lab is raise_arm]
        if not arm:
            continue
        # the raising arm must not reach the call and must raise a decode exception
        raises_ok = False
        stack, seen = list(arm), set()
        reaches_call = False
        while stack:
            n = stack.pop()
            if n.id in seen:
                continue
            seen.add(n.id)
            if n is cnode:
                reaches_call = True
            if n.kind == 'raise' and n.ast.exc is not None:
                keys = h.keys_of(f.module, n.ast.exc) or []
                if keys and all(any(h.is_sub(k, d) for d in dk) for k in keys):
                    raises_ok = True
                continue
            stack.extend(s for s, lab in n.succ if lab != 'exc')
        if reaches_call or not raises_ok:
            why = f'test `{norm(e)}` does not raise a DECODE_EXCEPTIONS member on its limit arm'
            continue
        if K > MAX_DEPTH_CONST:
            why = f'guard constant {K:g} exceeds {MAX_DEPTH_CONST}'
            continue
        kind, name = measure.split(':', 1)
        if name not in params:
            why = f'measure `{name}` is not a parameter carried through the recursion'
            continue
        pi = params.index(name) - (1 if f.cls is not None else 0)
        arg = call.args[pi] if 0 <= pi < len(call.args) else None
        if kind == 'int':
            # d + k with k >= 1
            if isinstance(arg, ast.BinOp) and isinstance(arg.op, ast.Add):
                try:
                    q = lf.poly(prog, f.module, arg, lambda x: x.id if isinstance(x, ast.Name) else None)
                    if q.get(((name, 1),)) == 1 and q.get((), 0) >= 1 and len(q) == 2:
                        return True, f'`{norm(e)}` bounds the depth counter `{name}` (passed as `{norm(arg)}`) by {K:g}'
                except lf.NotLinear:
                    pass
            why = f'depth counter `{name}` is not passed as `{name} + k`'
            continue
        # kind == 'len': same container passed on, and it receives a fresh element before the call on every path
        if not (isinstance(arg, ast.Name) and arg.id == name):
            why = f'container `{name}` is not passed unchanged to the recursive call'
            continue
        grow = []
        for n in cfg.nodes:
            for c in n.calls():
                if call_name(c) in ('add', 'append') and isinstance(c.func, ast.Attribute) and norm(c.func.value) == name:
                    fresh = call_name(c) == 'append'
                    if not fresh and c.args:
                        x = norm(c.args[0])
                        # `if x in S: raise` dominates the add
                        for g in cfg.nodes:
                            if g.kind == 'test' and cfg.dominates(g, n) and isinstance(g.ast, ast.Compare) and isinstance(g.ast.ops[0], ast.In) and norm(g.ast.left) == x and norm(g.ast.comparators[0]) == name:
                                tarm = [s for s, lab in g.succ if lab is True]
                                if tarm and all(not cfg.can_reach(s, n) and s is not n for s in tarm):
                                    fresh = True
                    if fresh and cfg.dominates(n, cnode):
                        grow.append(n)
        if grow:
            return True, f'`{norm(e)}` bounds len({name}) by {K:g}; `{grow[0].text()}` adds a fresh element at every level'
        why = f'len({name}) is not shown to grow at every recursion level'
    return False, why


@rule('C02.TOTAL', 'D', expect_min=4)
def total(ctx: Any) -> List[Ob]:
    """Exception totality of the decoder: over the closure of the incoming-message
    constructor and answers() (hardened region, full implicit catalogue) the
    may-raise set at both boundaries is empty -- every explicit and implicit
    exception source is contained by the decode handlers; recursion must carry a
    proved depth guard; every slot read in the region is assigned in the
    constructor before parsing starts."""
    R = 'C02.TOTAL'
    prog = ctx.prog
    roots, reg = region(ctx)
    rs = {f.full for f in reg}
    ctx.counters['decoder_region'] = sorted(f.qual for f in reg)
    if len(reg) < 15:
        raise AnalysisError(f'decoder region shrank to {len(reg)} functions (24 confirmed by hand)')
    guards: Dict[int, Tuple[bool, str]] = {}

    def rg(f: FuncInfo, c: ast.Call) -> bool:
        r = depth_guard(ctx, f, c)
        guards[id(c)] = r
        return r[0]

    mr = MayRaise(ctx, lambda f: f.full in rs, recursion_guard=rg)
    mr.analyse(roots)
    ctx.counters['may_raise'] = mr.stats()
    obs: List[Ob] = []
    for r in roots:
        esc = mr.escaping(r)
        if not esc:
            obs.append(ob(R, r, f'{r.qual} boundary', 'no exception can leave the decoder boundary', True, f'{mr.stats()["implicit_sources"]} implicit and {mr.stats()["explicit_raise_sites"]} explicit sources contained'))
        for (k, _w, _l), o in esc.items():
            d = o.describe()
            obs.append(ob(R, r, d[-1].split('`')[1] if '`' in d[-1] else d[-1], f'no exception can leave the decoder boundary ({k.split(".")[-1]} is not contained by the decode handlers)', False, k, d))
    # the handlers guard with the DECODE_EXCEPTIONS tuple
    dk = decode_exception_keys(ctx)
    obs.append(ob(R, ('src/zeroconf/_protocol/incoming.py', '<module>'), f'DECODE_EXCEPTIONS = {sorted(k.split(".")[-1] for k in dk)}', 'the decode handler tuple resolves to exception classes', True))
    # definite assignment of slots read in the region
    inc = prog.cls(INC)
    init = inc.methods['__init__']
    me = init.params[0]
    cfg = cfg_of(init.node)
    parse_nodes = [n for n in cfg.nodes if any(call_name(c) == '_initial_parse' for c in n.calls())]
    if not parse_nodes:
        raise AnalysisError('anchor vanished: _initial_parse call in the constructor')
    # definitely assigned: no path from the entry reaches the parse without passing a store of the slot (a store in each arm
    # of an `if` counts: `self.now = now if now else clock()` and its `if` / `else` spelling are the same)
    assigned_before: Set[str] = set()
    storers: Dict[str, List[Any]] = {}
    for n in cfg.nodes:
        if n.kind == 'stmt':
            for t, st in attr_stores(n.ast):
                if self_attr(t, me):
                    storers.setdefault(t.attr, []).append(n)
    for a_, ns_ in storers.items():
        if cfg.path_avoiding(cfg.entry, lambda n: n in parse_nodes, lambda n, ns_=ns_: n in ns_) is None:
            assigned_before.add(a_)
    read: Dict[str, str] = {}
    slots = set(inc.all_slots())
    for f in reg:
        if f.cls is not inc or f is init:
            continue
        s = f.params[0] if f.params else 'self'
        for x in walk_local_ordered(f.node):
            if isinstance(x, ast.Attribute) and isinstance(x.ctx, ast.Load) and self_attr(x, s) in slots:
                read.setdefault(x.attr, f.qual)
    missing = sorted(a for a in read if a not in assigned_before)
    obs.append(ob(R, init, f'slots read while parsing: {sorted(read)}', 'every slot the parser reads is assigned in the constructor before parsing starts (no AttributeError)', not missing, f'not yet assigned: {missing}' if missing else ''))
    return obs


@rule('C02.DEPTH', 'D', expect_min=1)
def depth(ctx: Any) -> List[Ob]:
    """Every call-graph cycle inside the decoder carries a depth guard (a monotone
    measure compared with a constant <= 500 that raises a decode exception), so
    pointer chains cannot exhaust the interpreter stack."""
    R = 'C02.DEPTH'
    roots, reg = region(ctx)
    rs = {f.full for f in reg}
    mr = MayRaise(ctx, lambda f: False)
    mr.scope = reg
    cyc = None
    mr.summ = {f.full: {} for f in reg}
    edges = mr._cycles()
    obs: List[Ob] = []
    for f in reg:
        for s in ctx.cg.sites_in(f):
            for t in s.targets:
                if (f.full, t.full) in edges:
                    ok, why = depth_guard(ctx, f, s.node)
                    obs.append(ob(R, f, s.node, 'recursive call is protected by a depth guard raising a decode exception', ok, why))
    if not obs:
        obs.append(ob(R, ('src/zeroconf/_protocol/incoming.py', '<decoder region>'), 'no call-graph cycle', 'the decoder is not recursive', True))
    return obs


@rule('C02.LOOPS', 'D', expect_min=5)
def loops(ctx: Any) -> List[Ob]:
    """Every loop of the decoder terminates: each `while` has a variant (the
    condition is v < bound and every trip around the body advances v by at least
    one, intervals refined by the path conditions); every `for` iterates a
    range / slice / list built before the loop."""
    R = 'C02.LOOPS'
    roots, reg = region(ctx)
    obs: List[Ob] = []
    n_while = n_for = 0
    for f in reg:
        la = None
        for n in walk_local_ordered(f.node):
            if isinstance(n, ast.While):
                n_while += 1
                la = la or LenAnalysis(ctx, f)
                ok, why = la.while_variant(n)
                obs.append(ob(R, f, f'while {norm(n.test)}', 'every trip around the loop strictly advances the loop variable towards its bound', ok, why))
            elif isinstance(n, (ast.For, ast.comprehension)):
                n_for += 1
                it = n.iter
                finite = False
                if isinstance(it, ast.Call) and isinstance(it.func, ast.Name) and it.func.id in ('range', 'enumerate', 'reversed', 'sorted', 'list', 'tuple', 'zip'):
                    finite = True
                elif isinstance(it, (ast.Subscript, ast.Name, ast.Attribute, ast.Tuple, ast.List)):
                    td = ctx.ty.type_of(f.module.name, it)
                    names = ctx.ty.inst_names(td) if td else []
                    finite = bool(names) and all(x in ('builtins.list', 'builtins.tuple', 'builtins.bytes', 'builtins.str', 'builtins.set', 'builtins.dict', 'builtins.range', 'builtins.frozenset') for x in names) or (td is not None and td[0] == 'tuple')
                obs.append(ob(R, f, f'for ... in {norm(it)}', 'iterates a finite collection built before the loop', finite))
    ctx.counters['decoder_loops'] = {'while': n_while, 'for': n_for}
    return obs


def _from_read_name(ctx: Any, f: FuncInfo, e: ast.AST, depth_: int = 0) -> Tuple[bool, str]:
    if depth_ > 4:
        return False, 'provenance too deep'
    if isinstance(e, ast.Call) and call_name(e) == '_read_name':
        return True, '_read_name()'
    if isinstance(e, ast.Name):
        defs = [st.value for st in walk_local_ordered(f.node) if isinstance(st, ast.Assign) and any(isinstance(t, ast.Name) and t.id == e.id for t in st.targets)]
        if defs:
            for d in defs:
                ok, why = _from_read_name(ctx, f, d, depth_ + 1)
                if not ok:
                    return False, why
            return True, f'{e.id} = _read_name()'
        if e.id in f.params:
            sites = ctx.cg.callers_of(f)
            idx = f.params.index(e.id) - 1
            if not sites:
                return False, 'no call site'
            for s in sites:
                if idx >= len(s.node.args):
                    return False, 'not passed positionally'
                ok, why = _from_read_name(ctx, s.caller, s.node.args[idx], depth_ + 1)
                if not ok:
                    return False, why
            return True, f'parameter {e.id} <- _read_name() at every call site'
    return False, f'`{norm(e)}` is not produced by _read_name()'


NAME_ARGS = {'DNSQuestion': [0], 'DNSAddress': [0], 'DNSPointer': [0, 4], 'DNSText': [0], 'DNSService': [0, 7], 'DNSHinfo': [0], 'DNSNsec': [0, 4]}


@rule('C02.NAMELEN', 'D', expect_min=10)
def namelen(ctx: Any) -> List[Ob]:
    """Every decoded name is at most 253 characters: each name-valued constructor
    argument in the decoder is the result of _read_name(); the label decoder is
    called only from _read_name and itself; in _read_name the length check
    (raise when len(name) > 253) dominates the return."""
    R = 'C02.NAMELEN'
    prog = ctx.prog
    roots, reg = region(ctx)
    obs: List[Ob] = []
    for f in reg:
        if f.cls is None or f.cls.full != INC:
            continue
        for c in walk_local_ordered(f.node):
            if isinstance(c, ast.Call) and call_name(c) in NAME_ARGS:
                for i in NAME_ARGS[call_name(c)]:
                    if i < len(c.args):
                        ok, why = _from_read_name(ctx, f, c.args[i])
                        obs.append(ob(R, f, f'{call_name(c)}(... arg {i} = {norm(c.args[i])})', 'name-valued field of a decoded record comes from _read_name()', ok, why))
    dec = prog.func(INC + '._decode_labels_at_offset')
    rn = prog.func(INC + '._read_name')
    for s in ctx.cg.callers_of(dec):
        obs.append(ob(R, s.caller, s.node, 'the label decoder is entered only through _read_name (or itself)', s.caller in (rn, dec)))
    cfg = cfg_of(rn.node)
    rets = [n for n in cfg.nodes if n.kind == 'return' and n.ast.value is not None]
    if not rets:
        raise AnalysisError('_read_name: no return of a name')
    h = Hierarchy(prog)
    dk = decode_exception_keys(ctx)
    from .common import expand

    for ret in rets:
        rv = norm(ret.ast.value)
        rv_x = norm(expand(rn, ret.ast.value))
        good = False
        why = 'no length check dominates this return'
        for t in cfg.nodes:
            if t.kind == 'test' and cfg.dominates(t, ret) and isinstance(t.ast, ast.Compare):
                def sym(x: ast.AST) -> Optional[str]:
                    if isinstance(x, ast.Call) and norm(x.func) == 'len' and len(x.args) == 1 and (norm(x.args[0]) == rv or norm(expand(rn, x.args[0])) == rv_x):
                        return 'L'
                    return None

                try:
                    p, op = lf.comparison(prog, rn.module, t.ast, sym)
                except lf.NotLinear:
                    continue
                if set(p) - {()} != {(('L', 1),)}:
                    continue
                coef, const = p[(('L', 1),)], p.get((), 0)
                K = float(-const / coef)
                raise_arm = coef < 0
                arm = [s_ for s_, lab in t.succ if lab is raise_arm]
                raises = all(s_.kind == 'raise' and all(any(h.is_sub(k, d) for d in dk) for k in (h.keys_of(rn.module, s_.ast.exc) or ['?'])) for s_ in arm) and bool(arm)
                max_len = K if op == '<' and raise_arm else (K - 1 if raise_arm else None)
                if raises and max_len is not None and max_len <= 253:
                    good, why = True, f'names longer than {max_len:g} raise a decode exception'
                else:
                    why = f'check `{norm(t.ast)}` allows names longer than 253 or does not raise a decode exception'
        obs.append(ob(R, rn, f'return {rv}', 'a name longer than 253 characters is rejected before it is returned (on every returning path)', good, why))
    # the per-packet name cache is a memo of `offset -> labels`: in the function that fills it on a miss, the key stored under
    # is the key that was looked up (else a later pointer to another offset with that key is handed the wrong labels)
    dl = prog.func(INC + '._decode_labels_at_offset')
    dme = dl.params[0]
    gets = [c for c in walk_local_ordered(dl.node) if isinstance(c, ast.Call) and call_name(c) == 'get' and isinstance(c.func, ast.Attribute) and self_attr(c.func.value, dme) == '_name_cache' and c.args]
    sts = [st for st in walk_local_ordered(dl.node) if isinstance(st, ast.Assign) and isinstance(st.targets[0], ast.Subscript) and self_attr(st.targets[0].value, dme) == '_name_cache']
    if not gets or not sts:
        raise AnalysisError('anchor vanished: lookup / fill of the name cache in _decode_labels_at_offset')
    from .common import xnorm as _xn

    keys_get = {_xn(dl, c.args[0]) for c in gets}
    for st in sts:
        k = _xn(dl, st.targets[0].slice)
        obs.append(ob(R, dl, st, 'a name decoded on a cache miss is stored under the offset it was looked up with', k in keys_get, f'stored under `{norm(st.targets[0].slice)}` but looked up with {sorted(keys_get)}'))
    # a miss is told from a hit by identity: the memoised value of the root name is the EMPTY label list, which a truthiness
    # test takes for a miss -- the chain behind it is then chased again on every use and a valid datagram whose names end in
    # pointers to the root runs into the pointer limit (work budget / agreement with a strict parser)
    dcfg = cfg_of(dl.node)
    for g_ in gets:
        # the local the lookup result is bound to, and the tests of it
        tgt = [st.targets[0].id for st in walk_local_ordered(dl.node) if isinstance(st, ast.Assign) and st.value is g_ and isinstance(st.targets[0], ast.Name)]
        tests = []
        for t in dcfg.nodes:
            if t.kind != 'test' or t.ast is None:
                continue
            e = t.ast
            while isinstance(e, ast.UnaryOp) and isinstance(e.op, ast.Not):
                e = e.operand
            if (isinstance(e, ast.Name) and e.id in tgt) or e is g_ or (isinstance(e, ast.NamedExpr) and e.value is g_):
                tests.append((t, 'truthiness'))
            elif isinstance(e, ast.Compare) and len(e.ops) == 1 and isinstance(e.ops[0], (ast.Is, ast.IsNot)):
                sides = [e.left, e.comparators[0]]
                if any(norm(x) == 'None' for x in sides) and any((isinstance(x, ast.Name) and x.id in tgt) or x is g_ or (isinstance(x, ast.NamedExpr) and x.value is g_) for x in sides):
                    tests.append((t, 'identity'))
        bad_t = [t for t, kind in tests if kind == 'truthiness']
        obs.append(ob(R, dl, bad_t[0].ast if bad_t else (tests[0][0].ast if tests else g_), 'a miss of the name memo is recognised by `is None` (the memoised root name is an empty list and must count as a hit)', bool(tests) and not bad_t, 'the memo result is tested for truth: an empty label list (the root name) is taken for a miss' if bad_t else ('' if tests else 'no test of the memo result found')))
    return obs


@rule('C02.GUARD', 'D', expect_min=3)
def guard(ctx: Any) -> List[Ob]:
    """Datagrams over 8966 bytes are dropped before any parsing: in the protocol's
    datagram_received the length test decides, for lengths 8966 / 8967, whether
    the only call into datagram processing is reached."""
    R = 'C02.GUARD'
    prog = ctx.prog
    f = prog.func('zeroconf._listener.AsyncListener.datagram_received')
    data = f.params[1]
    proc = prog.func('zeroconf._listener.AsyncListener._process_datagram_at_time')
    obs: List[Ob] = []
    callers = ctx.cg.callers_of(proc)
    obs.append(ob(R, f, '_process_datagram_at_time', 'datagram processing is entered only from datagram_received', all(s.caller is f for s in callers) and bool(callers)))
    lim = prog.const('zeroconf.const', '_MAX_MSG_ABSOLUTE')
    obs.append(ob(R, f, f'_MAX_MSG_ABSOLUTE = {lim}', 'the absolute datagram limit is 8966 bytes', lim == 8966))

    def eff(node: Any, evl: Any) -> List[Any]:
        return ['PROCESS' for c in node.calls() if call_name(c) in ('_process_datagram_at_time', 'DNSIncoming')]

    for n, want in ((8966, True), (8967, False), (0, True), (20000, False)):
        oc, und = traces(ctx, f, {data: b'\0' * n, 'DEBUG_ENABLED()': False}, eff)
        hit = {('PROCESS' in t) for t in oc}
        obs.append(ob(R, f, f'len(data) = {n}', f'datagram is {"processed" if want else "ignored"}', hit == {want}, f'processed on {hit}'))
    return obs


@rule('C02.LABELDOM', 'D', expect_min=2)
def labeldom(ctx: Any) -> List[Ob]:
    """Faithfulness to RFC 1035 4.1.4 at the label-type boundaries: a first byte below 0x40 (1..63) is an ordinary
    label -- 63 included --, 0x40..0xBF is rejected, 0xC0 and above is a pointer of the low six bits and the next
    byte.  A strict parser accepts 63-byte labels, so narrowing the label arm loses valid datagrams."""
    from .c01 import decoder_label_domain

    obs = decoder_label_domain(ctx, 'C02.LABELDOM')
    # NSEC type bitmaps (RFC 4034 4.1.2): every window number 0..255 and every block length 1..32 is legal; a test on
    # those bytes whose arm rejects must not reject a legal value (the record would silently vanish from a valid message)
    prog = ctx.prog
    rb = prog.func(INC + '._read_bitmap')
    cfg = cfg_of(rb.node)
    byte_locals: Dict[str, ast.AST] = {}
    for st in walk_local_ordered(rb.node):
        if isinstance(st, ast.Assign) and isinstance(st.targets[0], ast.Name) and isinstance(st.value, ast.Subscript) and not isinstance(st.value.slice, ast.Slice):
            byte_locals[st.targets[0].id] = st.value
    from .c01 import bitmap_block

    length_l = bitmap_block(ctx)[0]  # the byte read at cursor + 1, whatever the locals are called
    if length_l not in byte_locals:
        length_l = None
    if length_l is None:
        raise AnalysisError('anchor vanished: the block-length byte of the NSEC bitmap reader')
    domains = {n: ([1, 2, 16, 31, 32] if n == length_l else [0, 1, 255]) for n in byte_locals}
    n_tests = 0
    bad = []
    for t in cfg.nodes:
        if t.kind != 'test':
            continue
        names = {x.id for x in ast.walk(t.ast) if isinstance(x, ast.Name)} & set(byte_locals)
        if len(names) != 1:
            continue
        nm = names.pop()
        rej = {lab for s_, lab in t.succ if s_.kind == 'raise' or (s_.kind == 'return')}
        if not rej:
            continue
        n_tests += 1
        for v in domains[nm]:
            r = fd.Evaluator(prog, rb.module, {nm: v}).ev(t.ast)
            if r is not fd.UNKNOWN and bool(r) in rej:
                bad.append(f'line {t.line}: `{norm(t.ast)[:60]}` rejects {nm} = {v}')
    obs.append(ob('C02.LABELDOM', rb, f'{n_tests} rejecting test(s) on the window / block-length bytes', 'every NSEC window number 0..255 and block length 1..32 is read (no legal value is rejected)', not bad, '; '.join(bad[:3])))
    return obs


# smallest encodings: a question is a root label + type + class, a record a root label + type + class + ttl + rdlength
_MIN_ENTRY = {'_num_questions': 5, '_num_answers': 11, '_num_authorities': 11, '_num_additionals': 11}


def own_rejections(ctx: Any, R: str) -> List[Ob]:
    """`Whenever a strict RFC 1035 parser accepts the datagram ... the decoded questions and records equal the strict parser's`:
    the decoder refuses a datagram of its own accord (an explicit raise) only inside the name reader (malformed or over-long
    names, hostile pointers).  Everywhere else -- header, section loops, rdata readers -- it runs out of bytes exactly where a
    strict parser does or skips the record.  An explicit rejection added there is accepted only if it is a section-count bound
    that a strict parser shares: `bytes left < sum(count_i * k_i)` with every k_i at most the smallest encoding of an entry
    and a strict comparison; a bound that also refuses a datagram with no byte to spare refuses valid datagrams."""
    from .common import local_defs

    prog = ctx.prog
    _, reg = region(ctx)
    names_reg = {g.full for g in ctx.cg.closure([prog.func(INC + '._read_name')])}
    obs: List[Ob] = []
    examined = 0
    for f in sorted(reg, key=lambda g: g.full):
        if f.full in names_reg or f.cls is None or f.cls.full != INC:
            continue
        examined += 1
        parents: Dict[int, ast.AST] = {}
        for a in ast.walk(f.node):
            for ch in ast.iter_child_nodes(a):
                parents[id(ch)] = a
        defs = local_defs(f)
        me = f.params[0] if f.params else 'self'
        for r in walk_local_ordered(f.node):
            if not isinstance(r, ast.Raise) or r.exc is None:
                continue
            n: ast.AST = r
            guard: Optional[ast.If] = None
            in_handler = False
            while id(n) in parents:
                par = parents[id(n)]
                if isinstance(par, ast.ExceptHandler):
                    in_handler = True
                if isinstance(par, ast.If) and guard is None and n in par.body:
                    guard = par
                n = par
            if in_handler:
                continue
            why = 'unguarded rejection'
            good = False
            if guard is not None:
                env: Dict[str, Any] = {}
                try:
                    sym = lf.default_sym(me)
                    for _ in range(3):
                        for k, vs in defs.items():
                            if len(vs) == 1 and vs[0] is not None and k not in env:
                                try:
                                    env[k] = lf.poly(prog, f.module, vs[0], sym, env)
                                except lf.NotLinear:
                                    pass
                    pl, op = lf.comparison(prog, f.module, guard.test, sym, env)
                    if op == '<=':
                        pl, op = lf.p_add(pl, lf.p_const(1), -1), '<'
                    coef = {(k[0][0] if k else ''): v for k, v in pl.items() if len(k) <= 1 and (not k or k[0][1] == 1)}
                    nonlin = [k for k in pl if len(k) > 1 or (k and k[0][1] != 1)]
                    rest = {k: v for k, v in coef.items() if k not in _MIN_ENTRY and k not in ('', '_data_len', 'offset')}
                    good = op == '<' and not nonlin and not rest and coef.get('_data_len') == 1 and coef.get('offset', 0) in (-1, 0) and all(-_MIN_ENTRY[k] <= v <= 0 for k, v in coef.items() if k in _MIN_ENTRY) and coef.get('', 0) >= (0 if coef.get('offset', 0) == -1 else -12)
                    why = f'guard `{norm(guard.test)}` reads as {lf.p_str(pl)} {op} 0'
                except lf.NotLinear as e:
                    why = f'guard `{norm(guard.test)}` is not a linear bound ({e})'
            obs.append(ob(R, f, r, 'outside the name reader the decoder refuses a datagram only on a section-count bound a strict parser shares (strict comparison, per-entry minimum sizes)', good, why))
    obs.append(ob(R, prog.func(INC + '._read_name'), f'{examined} decoder methods outside the name reader examined', 'the decoder\'s own rejections are confined to the name reader or are shared by a strict parser', examined >= 6, ''))
    return obs


@rule('C02.FAITHFUL', 'N', expect_min=10)
def faithful(ctx: Any) -> List[Ob]:
    """Two structural parts of `the decoded records equal the strict parser's`: the NSEC bitmap reader numbers the types as
    RFC 4034 does (also in windows other than 0), and the record constructors keep what the decoder hands them (a
    constructor that clamps a TTL or re-cases a name makes a valid datagram decode to something else).  The layout of the
    records themselves is C01.LAYOUT."""
    from .c01 import ctor_verbatim_obligations, frame_locals_obligations, nsec_reader_obligation, resume_position_obligations, label_walk_obligations, record_loop_obligations

    return [nsec_reader_obligation(ctx, 'C02.FAITHFUL')] + ctor_verbatim_obligations(ctx, 'C02.FAITHFUL') + frame_locals_obligations(ctx, 'C02.FAITHFUL') + resume_position_obligations(ctx, 'C02.FAITHFUL') + label_walk_obligations(ctx, 'C02.FAITHFUL') + record_loop_obligations(ctx, 'C02.FAITHFUL') + own_rejections(ctx, 'C02.FAITHFUL')


@rule('C02.STATELESS', 'N', expect_min=10)
def stateless(ctx: Any) -> List[Ob]:
    """The decoded result is a function of the datagram alone: nothing reachable from the decoder mutates a mutable
    module-level container (directly or through a local alias) -- log de-duplication state excepted under the side
    condition that its users only log.  A module-level memo or scratch buffer would let one datagram change what the
    next one decodes to."""
    from .c01 import log_only_state
    from .common import shared_state_mutations

    R = 'C02.STATELESS'
    prog = ctx.prog
    roots = list(prog.cls(INC).methods.values())
    obs: List[Ob] = []
    for f in sorted(ctx.cg.closure(roots, include_deferred=False), key=lambda g: g.full):
        muts = [m for m in shared_state_mutations(prog, f) if not log_only_state(prog, f, m[1])]
        obs.append(ob(R, f, muts[0][0] if muts else f.name, 'decode path keeps no state between datagrams (no module-level container mutated)', not muts, '; '.join(f'line {n.lineno}: {g} {how}' for n, g, how in muts[:3])))
    return obs


EXPLANATION = (
    'C02.TOTAL (decided): may-raise analysis over the closure of DNSIncoming.__init__ and .answers() with a full catalogue of '
    'implicit exception sources (typed by the mypy oracle); every source must be contained by the DECODE_EXCEPTIONS handlers; an '
    'operation the catalogue does not know is exit 2. C02.DEPTH (decided): each call-graph cycle must carry a proved depth guard. '
    'C02.LOOPS (decided): loop variants by path-sensitive interval analysis. C02.NAMELEN (decided): provenance of every decoded name '
    'and dominance of the 253 check. C02.GUARD (decided): the 8966-byte gate as a decision table. Not decided: equality with a strict '
    'RFC 1035 parser [X] (the layout part is C01.LAYOUT) and the numeric work budget [X].'
)
EXPLANATION_ADDENDUM = (
    ' C02.LABELDOM (decided): label-type domain of the decoder (1..63 label, 64..191 rejected, 192..255 pointer) and the NSEC window / block-length bytes admit every legal value. C02.STATELESS (necessary): nothing reachable from the decoder mutates a module-level container.'
)
EXPLANATION = EXPLANATION + EXPLANATION_ADDENDUM

RULES = [total, depth, loops, namelen, guard, labeldom, faithful, stateless]

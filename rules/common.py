"""Helpers shared by the rule modules."""
from __future__ import annotations

import ast
from typing import Any, Dict, List, Optional, Set, Tuple

from sa import AnalysisError
from sa.pm import ClassInfo, FuncInfo, Program, norm, self_attr, walk_local_ordered
from sa.report import Ob


def ob(rule: str, f: Any, construct: Any, statement: str, ok: bool, why: str = '', path: Optional[List[str]] = None) -> Ob:
    """Obligation anchored in function / class `f` at AST node or text `construct`."""
    if isinstance(f, FuncInfo):
        file, fn = f.module.rel, f.qual
    elif isinstance(f, ClassInfo):
        file, fn = f.module.rel, f.name
    elif isinstance(f, tuple):
        file, fn = f
    else:
        file, fn = str(f), ''
    if isinstance(construct, ast.AST):
        text = norm(construct)
        line = getattr(construct, 'lineno', None)
    else:
        text, line = str(construct), None
    if len(text) > 200:
        text = text[:197] + '...'
    return Ob(rule, file, fn, text, statement, ok, why, path, line)


def first_param(f: FuncInfo) -> str:
    a = f.node.args  # type: ignore[attr-defined]
    allp = a.posonlyargs + a.args
    if not allp:
        raise AnalysisError(f'{f.where()} has no self parameter')
    return allp[0].arg


def returns_of(f: FuncInfo) -> List[ast.Return]:
    return [n for n in walk_local_ordered(f.node) if isinstance(n, ast.Return)]


def _is_log_call(e: ast.AST) -> bool:
    """`log.debug(...)` and friends: not an effect any rule cares about."""
    return isinstance(e, ast.Call) and isinstance(e.func, ast.Attribute) and isinstance(e.func.value, ast.Name) and e.func.value.id in ('log', 'logger', 'logging')


def _chain_expr(body: List[ast.stmt]) -> Optional[ast.AST]:
    """`if c: return A` ... `return B` as one expression (`A if c else B`, spelled with and/or when A or B is a truth constant)."""
    body = [st for st in body if not (isinstance(st, ast.Expr) and (isinstance(st.value, ast.Constant) or _is_log_call(st.value)))]
    if not body:
        return None
    st = body[0]
    if isinstance(st, ast.Return):
        return st.value if len(body) == 1 else None
    if isinstance(st, ast.If) and not st.orelse:
        a = _chain_expr(st.body)
        b = _chain_expr(body[1:])
        if a is None or b is None:
            return None
        c = st.test
        neg = c.operand if isinstance(c, ast.UnaryOp) and isinstance(c.op, ast.Not) else ast.UnaryOp(op=ast.Not(), operand=c)  # in a truth context `not not x` is `x`
        if isinstance(a, ast.Constant) and a.value is True and isinstance(b, ast.Constant) and b.value is False:
            e: ast.AST = c
        elif isinstance(a, ast.Constant) and a.value is False and isinstance(b, ast.Constant) and b.value is True:
            e = neg
        elif isinstance(a, ast.Constant) and a.value is True:
            e = ast.BoolOp(op=ast.Or(), values=[c, b])
        elif isinstance(a, ast.Constant) and a.value is False:
            e = ast.BoolOp(op=ast.And(), values=[neg, b])
        elif isinstance(b, ast.Constant) and b.value is True:
            e = ast.BoolOp(op=ast.Or(), values=[neg, a])
        elif isinstance(b, ast.Constant) and b.value is False:
            e = ast.BoolOp(op=ast.And(), values=[c, a])
        else:
            e = ast.IfExp(test=c, body=a, orelse=b)
        return ast.copy_location(ast.fix_missing_locations(e), st)
    return None


def single_return_expr(f: FuncInfo, skip_assigns: bool = False) -> ast.AST:
    rs = [r for r in returns_of(f) if r.value is not None]
    if len(rs) != 1:
        body = list(f.node.body)  # type: ignore[attr-defined]
        if skip_assigns:  # the caller reads the leading local definitions itself
            while body and (isinstance(body[0], (ast.Assign, ast.AnnAssign)) or isinstance(body[0], ast.Expr) and isinstance(body[0].value, ast.Constant)):
                body.pop(0)
        e = _chain_expr(body)
        if e is not None:
            return e
        raise AnalysisError(f'{f.where()}: expected exactly one `return <expr>`, found {len(rs)}')
    return rs[0].value  # type: ignore[return-value]


def attr_stores(node: ast.AST) -> List[Tuple[ast.Attribute, ast.AST]]:
    """(target attribute, statement) for every attribute store in `node`."""
    out: List[Tuple[ast.Attribute, ast.AST]] = []
    for n in walk_local_ordered(node):
        tgts: List[ast.AST] = []
        if isinstance(n, ast.Assign):
            tgts = list(n.targets)
        elif isinstance(n, (ast.AugAssign, ast.AnnAssign)):
            if isinstance(n, ast.AnnAssign) and n.value is None:
                continue
            tgts = [n.target]
        elif isinstance(n, ast.Delete):
            tgts = list(n.targets)
        elif isinstance(n, (ast.For, ast.AsyncFor)):
            tgts = [n.target]
        elif isinstance(n, (ast.With, ast.AsyncWith)):
            tgts = [i.optional_vars for i in n.items if i.optional_vars is not None]
        flat: List[ast.AST] = []
        while tgts:
            t = tgts.pop()
            if isinstance(t, (ast.Tuple, ast.List)):
                tgts.extend(t.elts)
            elif isinstance(t, ast.Starred):
                tgts.append(t.value)
            else:
                flat.append(t)
        for t in flat:
            if isinstance(t, ast.Attribute):
                out.append((t, n))
    return out


def const_int(prog: Program, module: str, name: str) -> Any:
    return prog.const(module, name)


# ------------------------------------------------------------ FD conveniences
from sa.cf import CFG, Node, cfg_of  # noqa: E402
from sa import fd as _fd  # noqa: E402
from sa.pm import call_name  # noqa: E402


def call_labeler(names: Any) -> Any:
    """Effect function: label every call whose callee's last name is in `names`
    (dict name->label or iterable of names)."""
    table = names if isinstance(names, dict) else {n: n for n in names}

    def eff(node: Node, evl: Any) -> List[Any]:
        out = []
        for c in node.calls():
            nm = call_name(c)
            if nm in table:
                out.append(table[nm])
        return out

    return eff


def traces(ctx: Any, f: FuncInfo, atoms: Dict[str, Any], eff: Any, **kw: Any) -> Tuple[Any, List[str]]:
    return _fd.run_paths(ctx.prog, f.module, cfg_of(f.node), atoms, eff, **kw)


def strip_ret(trace: Tuple[Any, ...]) -> Tuple[Any, ...]:
    return tuple(x for x in trace if not (isinstance(x, tuple) and x and x[0] in ('ret', 'raise')))


def node_of_call(cfg: CFG, pred: Any) -> List[Node]:
    return [n for n in cfg.nodes if any(pred(c) for c in n.calls())]


def receiver_classes(ctx: Any, f: FuncInfo, recv: ast.AST) -> List[str]:
    """Full names of classes the receiver expression may be an instance of."""
    if isinstance(recv, ast.Name) and f.cls is not None and f.params and recv.id == f.params[0]:
        return [f.cls.full]
    td = ctx.ty.type_of(f.module.name, recv)
    return ctx.ty.inst_names(td) or ['?']


# ------------------------------------------------- role-based access to locals
import copy as _copy  # noqa: E402


def local_defs(f: FuncInfo) -> Dict[str, List[ast.AST]]:
    """name -> list of value expressions assigned to that local (None for loop/with/unpack targets, AugAssign)."""
    out: Dict[str, List[Any]] = {}
    for st in walk_local_ordered(f.node):
        if isinstance(st, ast.Assign):
            for t in st.targets:
                if isinstance(t, ast.Name):
                    out.setdefault(t.id, []).append(st.value)
                elif isinstance(t, (ast.Tuple, ast.List)):
                    for e in ast.walk(t):
                        if isinstance(e, ast.Name):
                            out.setdefault(e.id, []).append(None)
        elif isinstance(st, ast.AnnAssign) and isinstance(st.target, ast.Name) and st.value is not None:
            out.setdefault(st.target.id, []).append(st.value)
        elif isinstance(st, ast.AugAssign) and isinstance(st.target, ast.Name):
            out.setdefault(st.target.id, []).append(None)
        elif isinstance(st, (ast.For, ast.AsyncFor, ast.comprehension)):
            for e in ast.walk(st.target):
                if isinstance(e, ast.Name):
                    out.setdefault(e.id, []).append(None)
        elif isinstance(st, ast.NamedExpr):
            out.setdefault(st.target.id, []).append(None)
    return out


def find_locals(f: FuncInfo, pred: Any) -> List[str]:
    """Names of locals at least one of whose assigned values satisfies `pred`."""
    return [n for n, vs in local_defs(f).items() if any(v is not None and pred(v) for v in vs)]


def expand(f: FuncInfo, e: ast.AST, depth: int = 4) -> ast.AST:
    """Copy of `e` with every single-definition local replaced by its definition (recursively)."""
    defs = local_defs(f)
    params = set(f.params)

    class T(ast.NodeTransformer):
        def __init__(self, d: int) -> None:
            self.d = d

        def visit_Name(self, n: ast.Name) -> ast.AST:
            if isinstance(n.ctx, ast.Load) and n.id not in params and n.id in defs and len(defs[n.id]) == 1 and defs[n.id][0] is not None and self.d > 0:
                v = defs[n.id][0]
                if not any(isinstance(x, ast.Name) and x.id == n.id for x in ast.walk(v)):
                    return T(self.d - 1).visit(_copy.deepcopy(v))
            return n

    return T(depth).visit(_copy.deepcopy(e))


def inline_helpers(prog: Any, f: FuncInfo, e: ast.AST, depth: int = 3) -> ast.AST:
    """Copy of `e` in which every call `self.m(a, ...)` of a method of f's class whose body is a single `return <expr>`
    (a docstring may precede it) is replaced by that expression with the parameters substituted by the arguments."""
    me = first_param(f) if f.cls is not None else None

    def one_expr(g: FuncInfo) -> Optional[ast.AST]:
        body = [st for st in g.node.body if not (isinstance(st, ast.Expr) and (isinstance(st.value, ast.Constant) or _is_log_call(st.value)))]  # type: ignore[attr-defined]
        if len(body) == 1 and isinstance(body[0], ast.Return) and body[0].value is not None:
            return body[0].value
        # a chain of guard returns (`if a: return True ... return d`) read as one expression
        return _chain_expr(body)

    class T(ast.NodeTransformer):
        def __init__(self, d: int) -> None:
            self.d = d

        def visit_Call(self, c: ast.Call) -> ast.AST:
            self.generic_visit(c)
            if self.d <= 0 or me is None or not (isinstance(c.func, ast.Attribute) and isinstance(c.func.value, ast.Name) and c.func.value.id == me):
                return c
            g = f.cls.find_method(c.func.attr) if f.cls is not None else None
            if g is None or c.keywords:
                return c
            body = one_expr(g)
            va = g.node.args.vararg.arg if g.node.args.vararg is not None else None  # type: ignore[attr-defined]
            npos = len(g.params) - 1 - len(g.node.args.kwonlyargs)  # type: ignore[attr-defined]
            if any(isinstance(a, ast.Starred) for a in c.args[:npos]):
                return c
            if body is None or (len(c.args) != npos if va is None else len(c.args) < npos):
                return c
            sub = dict(zip(g.params[1:1 + npos], c.args))
            extra = list(c.args[npos:])
            gme = g.params[0]

            class S(ast.NodeTransformer):
                def visit_Starred(self, n: ast.Starred) -> Any:
                    if va is not None and isinstance(n.value, ast.Name) and n.value.id == va:
                        return [_copy.deepcopy(a) for a in extra]
                    return self.generic_visit(n)

                def visit_Name(self, n: ast.Name) -> ast.AST:
                    if n.id in sub:
                        return _copy.deepcopy(sub[n.id])
                    if n.id == gme:
                        return ast.Name(id=me, ctx=ast.Load())
                    return n

            return T(self.d - 1).visit(S().visit(_copy.deepcopy(body)))

    return T(depth).visit(_copy.deepcopy(e))


def xnorm(f: FuncInfo, e: ast.AST) -> str:
    """Normalised text of `e` after expanding single-definition locals."""
    return norm(expand(f, e))


# ----------------------------------------------------------------- shared mutable module state
_MUTABLE_CTORS = {'bytearray', 'list', 'dict', 'set', 'deque', 'defaultdict', 'OrderedDict', 'array', 'memoryview', 'Counter'}
_MUTATORS = {'append', 'appendleft', 'extend', 'insert', 'pop', 'popleft', 'popitem', 'remove', 'clear', 'update', 'setdefault', 'add', 'discard', 'sort', 'reverse', '__setitem__', '__delitem__', 'write', 'pack_into'}


def mutable_module_globals(prog: Any, m: Any) -> Dict[str, ast.AST]:
    """Module-level names bound to a mutable container (literal or constructor call)."""
    out: Dict[str, ast.AST] = {}
    for name, val in m.assigns.items():
        if isinstance(val, (ast.List, ast.Dict, ast.Set, ast.ListComp, ast.DictComp, ast.SetComp)):
            out[name] = val
        elif isinstance(val, ast.Call) and call_name(val) in _MUTABLE_CTORS:
            out[name] = val
    return out


def shared_state_mutations(prog: Any, f: FuncInfo) -> List[Tuple[ast.AST, str, str]]:
    """Sites in f that mutate a mutable module-level container -- directly or through a local alias
    (`buf = _SCRATCH; buf[i] |= x`) -- or rebind a module global.  Returns (node, global name, how)."""
    m = f.module
    glob = mutable_module_globals(prog, m)
    for nm, src in m.imports.items():  # from .x import _TABLE
        if len(src) == 3 and src[0] == 'from':
            mod = prog.modules.get(src[1])
            if mod is not None and src[2] in mutable_module_globals(prog, mod):
                glob[nm] = mod.assigns[src[2]]
    params = set(f.params)
    stores: Dict[str, List[ast.AST]] = {}
    declared_global: Set[str] = set()
    for n in walk_local_ordered(f.node):
        if isinstance(n, ast.Global):
            declared_global.update(n.names)
        if isinstance(n, ast.Name) and isinstance(n.ctx, ast.Store):
            stores.setdefault(n.id, []).append(n)
    alias: Dict[str, str] = {g: g for g in glob if g not in params and (g not in stores or g in declared_global)}
    changed = True
    while changed:
        changed = False
        for n in walk_local_ordered(f.node):
            if isinstance(n, ast.Assign) and len(n.targets) == 1 and isinstance(n.targets[0], ast.Name) and isinstance(n.value, ast.Name) and n.value.id in alias and n.targets[0].id not in alias:
                alias[n.targets[0].id] = alias[n.value.id]
                changed = True
    out: List[Tuple[ast.AST, str, str]] = []

    def base(x: ast.AST) -> Optional[str]:
        while isinstance(x, ast.Subscript):
            x = x.value
        return alias.get(x.id) if isinstance(x, ast.Name) else None

    for n in walk_local_ordered(f.node):
        if isinstance(n, (ast.Assign, ast.AugAssign, ast.AnnAssign, ast.Delete)):
            tg = n.targets if isinstance(n, (ast.Assign, ast.Delete)) else [n.target]
            for t in tg:
                if isinstance(t, ast.Subscript) and base(t):
                    out.append((n, base(t) or '?', 'item store'))
                if isinstance(t, ast.Name) and t.id in declared_global:
                    out.append((n, t.id, 'module global rebound'))
        if isinstance(n, ast.Call) and isinstance(n.func, ast.Attribute) and n.func.attr in _MUTATORS and base(n.func.value):
            out.append((n, base(n.func.value) or '?', f'.{n.func.attr}()'))
    return out


# ----------------------------------------------------------------- one-shot iterators handed to multi-pass consumers
_ONE_SHOT_CALLS = {'chain', 'map', 'filter', 'iter', 'zip', 'reversed', 'islice', 'from_iterable', 'starmap', 'takewhile', 'dropwhile', 'accumulate', 'enumerate'}
_CONSUMERS = {'list', 'set', 'dict', 'tuple', 'sorted', 'frozenset', 'sum', 'any', 'all', 'min', 'max', 'update', 'extend', 'fromkeys', 'difference_update', 'intersection_update'}


def iteration_weight(f: FuncInfo, name: str) -> Tuple[int, List[ast.AST]]:
    """How often `name` (a parameter or local of f) may be iterated in one call of f: each iteration site counts once,
    a site inside a loop (other than the loop that iterates `name` itself) counts twice."""
    sites: List[Tuple[ast.AST, bool]] = []

    def walk(n: ast.AST, in_loop: bool) -> None:
        if isinstance(n, (ast.FunctionDef, ast.AsyncFunctionDef, ast.Lambda)) and n is not f.node:
            return
        if isinstance(n, (ast.For, ast.AsyncFor)):
            if isinstance(n.iter, ast.Name) and n.iter.id == name:
                sites.append((n, in_loop))
            else:
                walk(n.iter, in_loop)
            for st in n.body + n.orelse:
                walk(st, True)
            return
        if isinstance(n, ast.While):
            walk(n.test, True)
            for st in n.body + n.orelse:
                walk(st, True)
            return
        if isinstance(n, (ast.ListComp, ast.SetComp, ast.GeneratorExp, ast.DictComp)):
            for i, g in enumerate(n.generators):
                if isinstance(g.iter, ast.Name) and g.iter.id == name:
                    sites.append((n, in_loop or i > 0))
                else:
                    walk(g.iter, in_loop or i > 0)
                for c in g.ifs:
                    walk(c, True)
            for e in ([n.key, n.value] if isinstance(n, ast.DictComp) else [n.elt]):
                walk(e, True)
            return
        if isinstance(n, ast.Call) and call_name(n) in _CONSUMERS and any(isinstance(a, ast.Name) and a.id == name for a in n.args):
            sites.append((n, in_loop))
        elif isinstance(n, ast.Call) and any(isinstance(a, ast.Name) and a.id == name for a in list(n.args) + [k.value for k in n.keywords]) and (in_loop or (isinstance(n.func, ast.Attribute) and n.func.attr.startswith('_') or isinstance(n.func, ast.Name) and n.func.id.startswith('_'))):
            # handed to a callee (once per trip in a loop; or to a private routine of the program, spelled out once per
            # receiver -- the unrolled form of such a loop): each callee may walk it
            sites.append((n, in_loop))
        for c in ast.iter_child_nodes(n):
            walk(c, in_loop)

    for st in f.node.body:  # type: ignore[attr-defined]
        walk(st, False)
    return sum(2 if lp else 1 for _, lp in sites), [s for s, _ in sites]


def one_shot_sources(f: FuncInfo, e: ast.AST, depth: int = 3) -> List[ast.AST]:
    """Sub-expressions through which `e` (an argument in f) may be a one-shot iterator: a generator expression, a call of
    an itertools-style adaptor, or a local any of whose definitions is one."""
    if isinstance(e, ast.GeneratorExp):
        return [e]
    if isinstance(e, ast.Call) and call_name(e) in _ONE_SHOT_CALLS:
        return [e]
    if isinstance(e, ast.IfExp):
        return one_shot_sources(f, e.body, depth) + one_shot_sources(f, e.orelse, depth)
    if isinstance(e, ast.Name) and depth > 0 and e.id not in f.params:
        out: List[ast.AST] = []
        for v in local_defs(f).get(e.id, []):
            if v is not None:
                out += one_shot_sources(f, v, depth - 1)
        return out
    return []


_SCALAR_ANN = {'int', 'float', 'str', 'bool', 'bytes', 'int_', 'float_', 'str_', 'bool_', '_int', '_float', '_str', '_bool', 'None', 'Any'}


def param_may_be_iterator(prog: Any, g: FuncInfo, p: str) -> bool:
    """False when the annotation says the parameter is a scalar or an instance of a library class (never an iterator)."""
    a = g.node.args  # type: ignore[attr-defined]
    arg = next((x for x in a.posonlyargs + a.args + a.kwonlyargs if x.arg == p), None)
    if arg is None or arg.annotation is None:
        return True
    names = {x.id for x in ast.walk(arg.annotation) if isinstance(x, ast.Name)} | {x.attr for x in ast.walk(arg.annotation) if isinstance(x, ast.Attribute)}
    names |= {w for x in ast.walk(arg.annotation) if isinstance(x, ast.Constant) and isinstance(x.value, str) for w in x.value.replace('[', ' ').replace(']', ' ').replace(',', ' ').replace("'", ' ').split()}
    names -= {'Optional', 'Union'}
    lib_classes = {c.name for c in prog.classes.values()}
    return not names <= (_SCALAR_ANN | lib_classes)


def shared_argument_obligations(ctx: Any, R: str, g: FuncInfo, what: str) -> List[Ob]:
    """For every parameter of g that may be walked more than once per call (iterated in a loop, or handed to a callee once
    per trip of a loop -- e.g. to each listener in turn): every call site passes something re-iterable."""
    obs: List[Ob] = []
    for p in g.params[1:] if g.cls is not None else g.params:
        w8, where = iteration_weight(g, p)
        if w8 < 2 or not param_may_be_iterator(ctx.prog, g, p):
            continue
        for cs in ctx.cg.callers_of(g):
            idx = g.params.index(p) - (1 if g.cls is not None and isinstance(cs.node.func, ast.Attribute) else 0)
            arg = cs.node.args[idx] if 0 <= idx < len(cs.node.args) else next((k.value for k in cs.node.keywords if k.arg == p), None)
            if arg is None:
                continue
            src = one_shot_sources(cs.caller, arg)
            obs.append(ob(R, cs.caller, cs.node, f'`{p}` of {g.name} is {what}, so the argument must be re-iterable', not src, f'`{norm(src[0])[:70]}` is a one-shot iterator: the first consumer exhausts it' if src else ''))
    return obs


# ----------------------------------------------------------------- structural non-None narrowing (fallback for the type oracle)
def _nonnull_on(t: ast.AST, arm: bool, xt: str) -> bool:
    """Does leaving test `t` by `arm` establish that the expression with text `xt` is not None?"""
    if isinstance(t, ast.UnaryOp) and isinstance(t.op, ast.Not):
        return _nonnull_on(t.operand, not arm, xt)
    if isinstance(t, ast.BoolOp):
        if isinstance(t.op, ast.And) and arm:
            return any(_nonnull_on(v, True, xt) for v in t.values)
        if isinstance(t.op, ast.Or) and not arm:
            return any(_nonnull_on(v, False, xt) for v in t.values)
        return False
    if isinstance(t, ast.Compare) and len(t.ops) == 1 and isinstance(t.comparators[0], ast.Constant) and t.comparators[0].value is None and norm(t.left) == xt:
        if isinstance(t.ops[0], ast.IsNot):
            return arm
        if isinstance(t.ops[0], ast.Is):
            return not arm
        if isinstance(t.ops[0], ast.NotEq):
            return arm
        if isinstance(t.ops[0], ast.Eq):
            return not arm
    if norm(t) == xt:
        return arm  # truthiness
    if isinstance(t, ast.Call) and norm(t.func) == 'isinstance' and t.args and norm(t.args[0]) == xt:
        return arm
    return False


def structurally_non_none(f: FuncInfo, site: ast.AST, x: ast.AST) -> bool:
    """The (canonical) syntax tree shows that `x` is not None where `site` is evaluated: a dominating test all of whose
    establishing arm leads to the site, an earlier operand of the enclosing and/or, or the test of an enclosing conditional
    expression.  Used only when the type oracle -- which reads the source text and narrows on fewer spellings -- says Optional."""
    xt = norm(x)
    cfg = cfg_of(f.node)
    host = next((n for n in cfg.nodes if any(y is site for e in n.exprs() for y in ast.walk(e))), None)
    if host is None:
        return False
    # re-assignment of x between the test and the site would invalidate the narrowing: require x to be a name/attribute chain
    for t in cfg.nodes:
        if t.kind in ('test', 'loop_test') and t is not host and t.ast is not None and cfg.dominates(t, host):
            for arm in (True, False):
                if _nonnull_on(t.ast, arm, xt):
                    arm_nodes = [s for s, lab in t.succ if lab is arm]
                    other = [s for s, lab in t.succ if lab is (not arm)]
                    if arm_nodes and all(s is host or cfg.dominates(s, host) for s in arm_nodes):
                        return True
                    # early exit form: the other arm never reaches the site
                    if other and all(not cfg.can_reach(s, host) and s is not host for s in other):
                        return True

    def within(e: ast.AST) -> bool:
        if e is site:
            return False
        if isinstance(e, ast.BoolOp):
            for i, v in enumerate(e.values):
                if any(y is site for y in ast.walk(v)):
                    want = isinstance(e.op, ast.And)
                    return any(_nonnull_on(u, want, xt) for u in e.values[:i]) or within(v)
            return False
        if isinstance(e, ast.IfExp):
            if any(y is site for y in ast.walk(e.body)):
                return _nonnull_on(e.test, True, xt) or within(e.body)
            if any(y is site for y in ast.walk(e.orelse)):
                return _nonnull_on(e.test, False, xt) or within(e.orelse)
            return within(e.test)
        for c in ast.iter_child_nodes(e):
            if any(y is site for y in ast.walk(c)):
                return within(c)
        return False

    return any(within(e) for e in host.exprs() if any(y is site for y in ast.walk(e)))


def snapshot_iteration(e: ast.AST, me: str, attr: str) -> bool:
    """`e` (the iterable of a loop that runs callbacks) is a copy of self.<attr>: a full slice, .copy(), or list()/tuple()/set()/
    frozenset()/sorted() of it -- so a callback that adds to or removes from the collection cannot shift the iteration."""
    if isinstance(e, ast.Subscript) and self_attr(e.value, me) == attr and isinstance(e.slice, ast.Slice) and e.slice.lower is None and e.slice.upper is None and e.slice.step is None:
        return True
    if isinstance(e, ast.Call) and isinstance(e.func, ast.Attribute) and e.func.attr == 'copy' and self_attr(e.func.value, me) == attr:
        return True
    if isinstance(e, ast.Call) and isinstance(e.func, ast.Name) and e.func.id in ('list', 'tuple', 'set', 'frozenset', 'sorted') and e.args and self_attr(e.args[0], me) == attr:
        return True
    return False

"""C18 -- service-info lookup: bounded, cache-first, never from expired data."""
from __future__ import annotations

import ast
from typing import Any, Dict, List, Optional, Set, Tuple

from sa import AnalysisError
from sa import fd, lf
from sa.cf import cfg_of
from sa.fd import Sym
from sa.pm import FuncInfo, call_name, norm, self_attr, walk_local_ordered
from sa.report import Ob, rule

from .common import attr_stores, expand, ob, strip_ret, traces

INFO = 'zeroconf._services.info.ServiceInfo'
RESULT_FIELDS = {'_ipv4_addresses', '_ipv6_addresses', 'text', 'server', 'server_key', 'port', 'weight', 'priority', '_name', 'key'}
LIST_MUT = {'insert', 'append', 'remove', 'extend', 'clear', 'pop'}
# functions that may write result fields without an expiry check, with the reason
API_WRITERS = {
    '__init__': 'constructor: values supplied by the caller',
    'name.setter': 'public setter',
    'addresses.setter': 'public setter',
    'set_server_if_missing': 'defaults the host to the instance name (registration side)',
    '_set_text': 'helper: reached only from the constructor and from the guarded record processor (checked below)',
    '_set_properties': 'constructor helper',
}


def _expiry_tests(cfg: Any, now: Optional[str] = None) -> List[Tuple[Any, bool]]:
    """(test node, label of the edge on which the record has not expired) for every test that is `x.is_expired(now)` or its negation."""
    out: List[Tuple[Any, bool]] = []
    for t in cfg.nodes:
        if t.kind != 'test' or t.ast is None:
            continue
        e, live = t.ast, False
        while isinstance(e, ast.UnaryOp) and isinstance(e.op, ast.Not):
            e, live = e.operand, not live
        if isinstance(e, ast.Call) and call_name(e) == 'is_expired' and (now is None or [norm(a) for a in e.args] == [now]):
            out.append((t, live))
    return out


def _is_filtered_reader(g: FuncInfo) -> bool:
    """Every element `g` collects (append) is reached only through the live edge of `record.is_expired(now)` with g's own
    time parameter, and what it returns is the list it collected into."""
    cfg = cfg_of(g.node)
    app = [n_ for nm_ in ('append', 'insert', 'add') for n_ in cfg.nodes_calling(nm_)]
    if not app:
        return False
    guards = [(t, live) for p_ in g.params[1:] for t, live in _expiry_tests(cfg, p_)]
    return all(any(cfg.only_through_edge(t, live, a) for t, live in guards) for a in app)


@rule('C18.EXPIRY', 'D', expect_min=8)
def expiry(ctx: Any) -> List[Ob]:
    """Result-field writer table of a service description: outside the constructor
    and the public setters, every write to host / port / priority / weight / text
    / addresses happens where an is_expired(now) rejection dominates it, or takes
    its values from a list filtered by is_expired(now) -- so a lookup is never
    populated from a record that had expired when it was read."""
    R = 'C18.EXPIRY'
    prog = ctx.prog
    info = prog.cls(INFO)
    obs: List[Ob] = []
    readers: Dict[str, FuncInfo] = {}
    for f in list(info.methods.values()) + list(info.setters.values()):
        me = f.params[0] if f.params else 'self'
        qual = f.qual.split('.', 1)[1]
        cfg = cfg_of(f.node)
        writes = []
        for n in cfg.nodes:
            if n.kind != 'stmt':
                continue
            for t, st in attr_stores(n.ast):
                if self_attr(t, me) in RESULT_FIELDS:
                    writes.append((n, norm(st)[:80]))
            for c in n.calls():
                if call_name(c) in LIST_MUT and isinstance(c.func, ast.Attribute):
                    base = c.func.value
                    a = self_attr(base, me)
                    if a is None and isinstance(base, ast.Name):
                        d = [s.value for s in walk_local_ordered(f.node) if isinstance(s, ast.Assign) and norm(s.targets[0]) == base.id]
                        a = self_attr(d[0], me) if len(d) == 1 else None
                    if a in RESULT_FIELDS:
                        writes.append((n, norm(c)[:80]))
        if not writes:
            continue
        if qual in API_WRITERS:
            obs.append(ob(R, f, f'{len(writes)} write(s) of result fields', f'allowed writer: {API_WRITERS[qual]}', True))
            continue
        guards = _expiry_tests(cfg)
        for n, text in writes:
            # reached only through the edge of an expiry test on which the record has NOT expired (either spelling:
            # `if r.is_expired(now): return` or `if not r.is_expired(now): <use r>`)
            ok = any(cfg.only_through_edge(t, live, n) for t, live in guards)
            why = 'dominated by `if record.is_expired(now): return`' if ok else ''
            if not ok and isinstance(n.ast, ast.Assign):
                # the value is what a method of the class collected from the cache, each element behind the live edge of an
                # expiry test (an expiry-filtered reader, found by what it does, whatever it is called)
                for c in ast.walk(n.ast.value):
                    if isinstance(c, ast.Call) and isinstance(c.func, ast.Attribute) and isinstance(c.func.value, ast.Name) and c.func.value.id == me and c.func.attr in info.methods:
                        h = info.methods[c.func.attr]
                        if _is_filtered_reader(h):
                            ok, why = True, f'assigned from the expiry-filtered cache reader {h.name}'
                            readers[h.qual] = h
            obs.append(ob(R, f, text, 'a result field is written only from a record that had not expired when it was read', ok, why))
    # the filtered readers really filter
    for g in readers.values():
        obs.append(ob(R, g, 'if record.is_expired(now): continue', 'addresses loaded from the cache skip expired records', _is_filtered_reader(g)))
    # _set_text callers
    st = info.methods['_set_text']
    callers = {s.caller.qual.split('.', 1)[1] for s in ctx.cg.callers_of(st)}
    obs.append(ob(R, st, f'_set_text callers: {sorted(callers)}', 'the text is set only by the constructor and by the guarded record processor', callers <= {'__init__', '_process_record_threadsafe'}))
    # the time passed to the guarded processor is the caller's `now`
    pr = info.methods['_process_record_threadsafe']
    for s in ctx.cg.callers_of(pr):
        a = s.node.args[2] if len(s.node.args) > 2 else None
        obs.append(ob(R, s.caller, s.node, 'records are judged against the time of the lookup / update (not a stale time)', a is not None and norm(a) in s.caller.params))
    return obs


@rule('C18.MATCH', 'D', expect_min=8)
def match(ctx: Any) -> List[Ob]:
    """Decision table of the record processor over (record kind, owner name equals
    the instance name?, equals the host name?, expired?): addresses are taken
    only from address records of the host, SRV/TXT only from records of the
    instance, nothing from expired or unrelated records."""
    R = 'C18.MATCH'
    prog = ctx.prog
    f = prog.func(INFO + '._process_record_threadsafe')
    me, rec = f.params[0], f.params[2]
    obs: List[Ob] = []

    def eff(node: Any, evl: Any) -> List[Any]:
        out = []
        if node.kind == 'stmt':
            for t, st in attr_stores(node.ast):
                a = self_attr(t, me)
                if a in RESULT_FIELDS:
                    out.append(a)
        for c in fd.node_calls(node, evl):
            if call_name(c) == '_set_text':
                out.append('text')
            if call_name(c) in ('insert', 'remove') and isinstance(c.func, ast.Attribute):
                base = c.func.value
                txt = norm(base)
                if 'ipv4' in txt:
                    out.append('_ipv4_addresses')
                elif 'ipv6' in txt:
                    out.append('_ipv6_addresses')
            if call_name(c) in ('_set_ipv4_addresses_from_cache', '_set_ipv6_addresses_from_cache'):
                out.append('addresses-from-cache')
        return out

    kinds = {'A': Sym('zeroconf._dns.DNSAddress'), 'SRV': Sym('zeroconf._dns.DNSService'), 'TXT': Sym('zeroconf._dns.DNSText'), 'PTR': Sym('zeroconf._dns.DNSPointer'), 'NSEC': Sym('zeroconf._dns.DNSNsec')}
    SRV_FIELDS = {'_name', 'key', 'server', 'server_key', 'port', 'weight', 'priority'}
    for kname, ksym in kinds.items():
        for owner in ('instance', 'host', 'both', 'other'):
            for expired in (False, True):
                atoms: Dict[str, Any] = {
                    f'type({rec})': ksym, '.is_expired()': expired,
                    f'{rec}.key': 'k-both' if owner == 'both' else ('k-inst' if owner == 'instance' else ('k-host' if owner == 'host' else 'k-other')),
                    f'{me}.key': 'k-both' if owner == 'both' else 'k-inst',
                    f'{me}.server_key': 'k-both' if owner == 'both' else 'k-host',
                    'get_ip_address_object_from_record()': Sym('ip'), '.version': 4,
                }
                oc, und = traces(ctx, f, atoms, eff, loop_bound=1)
                touched = set()
                for t in oc:
                    touched |= {x for x in strip_ret(t) if isinstance(x, str)}
                touched.discard('addresses-from-cache')
                if expired:
                    want: Set[str] = set()
                    okc = not touched
                elif kname == 'A' and owner in ('host', 'both'):
                    okc = touched <= {'_ipv4_addresses', '_ipv6_addresses'}
                    want = {'addresses'}
                elif kname == 'TXT' and owner in ('instance', 'both'):
                    okc = touched == {'text'}
                    want = {'text'}
                elif kname == 'SRV' and owner in ('instance', 'both'):
                    okc = touched == SRV_FIELDS
                    want = SRV_FIELDS
                else:
                    okc = not touched
                    want = set()
                obs.append(ob(R, f, f'{kname} record owned by {owner} name, expired={expired}', f'fields written: {sorted(want) if want else "none"}', okc, f'touched {sorted(touched)}'))
    # ... and an unexpired address record of the host IS taken: an address that is not yet in the list of its family is put into
    # that list (and no other) on every path; one that is already there stays there exactly once (moved to the front or left alone)
    from .common import local_defs as _ldm

    ldefs = _ldm(f)

    def family_of(recv: ast.AST) -> Optional[str]:
        a = self_attr(recv, me)
        if a is None and isinstance(recv, ast.Name):
            vals = [self_attr(v, me) for v in ldefs.get(recv.id, []) if v is not None]
            a = vals[0] if len(vals) == 1 else None
        return {'_ipv4_addresses': '4', '_ipv6_addresses': '6'}.get(a or '')

    def eff_addr(node: Any, evl: Any) -> List[Any]:
        out = []
        for c in fd.node_calls(node, evl):
            if isinstance(c.func, ast.Attribute) and call_name(c) in ('insert', 'append', 'add', 'remove', 'discard', 'pop', 'clear'):
                fam = family_of(c.func.value)
                if fam:
                    out.append(('INS' if call_name(c) in ('insert', 'append', 'add') else 'REM') + fam)
        if node.kind == 'stmt':
            for t, st in attr_stores(node.ast):
                if self_attr(t, me) in ('_ipv4_addresses', '_ipv6_addresses'):
                    out.append('SET' + ('4' if '4' in t.attr else '6'))
        return out

    memb = [n for n in ast.walk(f.node) if isinstance(n, ast.Compare) and len(n.ops) == 1 and isinstance(n.ops[0], (ast.In, ast.NotIn)) and family_of(n.comparators[0])]
    firsts = [n for n in ast.walk(f.node) if isinstance(n, ast.Compare) and len(n.ops) == 1 and isinstance(n.ops[0], (ast.Eq, ast.NotEq)) and any(isinstance(x, ast.Subscript) and family_of(x.value) for x in (n.left, n.comparators[0]))]
    if len(memb) < 2:
        raise AnalysisError('anchor vanished: the membership tests of the address lists in the record processor')
    for ver in (4, 6):
        for present, at_front in ((False, False), (True, False), (True, True)):
            atoms_a: Dict[str, Any] = {f'type({rec})': kinds['A'], '.is_expired()': False, f'{rec}.key': 'k-host', f'{me}.key': 'k-inst', f'{me}.server_key': 'k-host', 'get_ip_address_object_from_record()': Sym('ip'), '.version': ver}
            for n_ in memb:
                atoms_a[norm(n_)] = present if isinstance(n_.ops[0], ast.In) else not present
            for n_ in firsts:
                atoms_a[norm(n_)] = at_front if isinstance(n_.ops[0], ast.Eq) else not at_front
            oc_a, und_a = traces(ctx, f, atoms_a, eff_addr, loop_bound=1)
            nets = set()
            for t in oc_a:
                lab = [x for x in strip_ret(t) if isinstance(x, str)]
                nets.add((lab.count('INS4') - lab.count('REM4'), lab.count('INS6') - lab.count('REM6'), any(x.startswith('SET') for x in lab)))
            want_net = ((0, 0, False) if present else ((1, 0, False) if ver == 4 else (0, 1, False)))
            obs.append(ob(R, f, f'unexpired IPv{ver} address record of the host, address {"already listed" + (" first" if at_front else "") if present else "not yet listed"}', 'the address ends up in the list of its family exactly once' + ('' if present else ' (it is added there, and nowhere else, on every path)'), nets == {want_net} and not und_a, f'net inserts (v4, v6, list replaced) per path: {sorted(nets)}; undecided {und_a}'))
    # an SRV record that moves the instance to another host: both address lists are replaced (assigned afresh from the
    # cache records of the new host), never merged into -- else addresses of the previous host survive and count as known
    cfg = cfg_of(f.node)
    info_cls = prog.cls(INFO)

    def resets(g: FuncInfo, field: str, depth: int = 2) -> bool:
        """every path through g assigns self.<field>"""
        gm = g.params[0]
        gc = cfg_of(g.node)

        def hit(n: Any) -> bool:
            if n.kind == 'stmt' and any(self_attr(t, gm) == field and isinstance(st, ast.Assign) for t, st in attr_stores(n.ast)):
                return True
            if depth > 0:
                for c in n.calls():
                    if isinstance(c.func, ast.Attribute) and self_attr(c.func, gm):
                        h = info_cls.find_method(c.func.attr)
                        if h is not None and h is not g and resets(h, field, depth - 1):
                            return True
            return False

        return gc.must_pass_before_exit(gc.entry, hit) is None

    # where the address lists are reloaded: a call of a routine of the class that assigns one of them on every path, or the
    # assignment itself (the routine spelled out in place)
    def reloads(n: Any) -> bool:
        if n.kind == 'stmt' and any(self_attr(t, me) in ('_ipv4_addresses', '_ipv6_addresses') and isinstance(st, ast.Assign) for t, st in attr_stores(n.ast)):
            return True
        for c in n.calls():
            if isinstance(c.func, ast.Attribute) and self_attr(c.func, me):
                h = info_cls.find_method(c.func.attr)
                if h is not None and h is not f and (resets(h, '_ipv4_addresses') or resets(h, '_ipv6_addresses')):
                    return True
        return False

    reloaders = [n for n in cfg.nodes if reloads(n)]
    changed = [t for t in cfg.nodes if t.kind == 'test' and isinstance(t.ast, ast.Compare) and len(t.ast.ops) == 1 and isinstance(t.ast.ops[0], (ast.NotEq, ast.Eq)) and any(isinstance(x, ast.Name) for x in (t.ast.left, t.ast.comparators[0])) and any(self_attr(x, me) for x in (t.ast.left, t.ast.comparators[0])) and reloaders and any(cfg.dominates(t, r_) for r_ in reloaders)]
    changed = [t for t in changed if all(o is t or cfg.dominates(o, t) for o in changed)]  # the innermost guard of the reload
    if not reloaders:
        from sa import StructuralViolation

        raise StructuralViolation(f.module.rel, f.qual, 'self._ipv4_addresses = ... ; self._ipv6_addresses = ...', 'when an SRV record points the instance at another host, the address lists are replaced by the cached addresses of the new host', 'nothing in the record processor (or in a routine it calls) assigns the address lists: the addresses of the previous host stay in the description')
    if len(changed) != 1:
        raise AnalysisError('anchor vanished: the server-changed test of the SRV arm')
    ct = changed[0]
    cmp_attr = next(self_attr(x, me) for x in (ct.ast.left, ct.ast.comparators[0]) if self_attr(x, me))
    obs.append(ob(R, f, ct.ast, 'whether the SRV moved the instance to another host is decided on the lower-cased host key (a re-cased spelling of the same host is not a move)', cmp_attr == 'server_key', f'compares `self.{cmp_attr}` (the name as spelled)'))
    arm = isinstance(ct.ast.ops[0], ast.NotEq)
    for field in ('_ipv4_addresses', '_ipv6_addresses'):
        def hit_f(n: Any, field: str = field) -> bool:
            if n.kind == 'stmt' and any(self_attr(t, me) == field and isinstance(st, ast.Assign) for t, st in attr_stores(n.ast)):
                return True
            for c in n.calls():
                if isinstance(c.func, ast.Attribute) and self_attr(c.func, me):
                    h = info_cls.find_method(c.func.attr)
                    if h is not None and h is not f and resets(h, field):
                        return True
            return False

        starts = [s_ for s_, lab in ct.succ if lab is arm]
        leak = [w for s_ in starts for w in [None if hit_f(s_) else cfg.path_avoiding(s_, lambda n: n is cfg.exit, hit_f, skip_start=False)] if w is not None]
        obs.append(ob(R, f, ct.ast, f'when an SRV record points the instance at another host, `{field}` is replaced by the cached addresses of the new host (not merged into)', bool(starts) and not leak, f'a path from the server-changed arm reaches the end of the function without assigning self.{field}' if leak else ''))
    # `its addresses ... all of them when loaded from the cache`: the lists are kept free of duplicates with `addr not in list`,
    # that is with the equality of the address objects.  The package's address classes inherit it from the standard library
    # (value AND, for IPv6, the scope id); an equality of their own has to compare the scope id too, else the same link-local
    # address heard on two interfaces collapses into one and an unexpired AAAA record of the host is left out
    ipm = ctx.prog.module('zeroconf._utils.ipaddress')
    addr_classes = [c for c in ctx.prog.classes.values() if c.module is ipm and any(b.endswith('Address') for b in c.ext_bases)]
    if len(addr_classes) < 2:
        raise AnalysisError('anchor vanished: the address classes of zeroconf._utils.ipaddress')
    for c in sorted(addr_classes, key=lambda k: k.name):
        v6 = any('6' in b for b in c.ext_bases)
        own = [m for n_, m in c.methods.items() if n_ in ('__eq__', '__ne__')]
        reads_scope = all(any(isinstance(x, ast.Attribute) and 'scope' in x.attr for x in ast.walk(m.node)) for m in own)
        obs.append(ob(R, c, f'{c.name}.__eq__' if own else f'class {c.name}', 'address equality is the standard library\'s, or compares the scope id as well' if v6 else 'address equality is the standard library\'s or its own by value', (not own) or (not v6) or reads_scope, 'an __eq__ of its own that never looks at the scope id: fe80::1%2 == fe80::1%3' if own and v6 and not reads_scope else ''))
    return obs


def round_type_values(ctx: Any, roles: Dict[str, str], forced: Any, is_first: bool) -> Set[Any]:
    """The question type handed to the query builder in a round of the lookup loop, for a given forced type and first-round
    flag: evaluated along every path of one trip of the loop from the loop test to the call (so it does not matter whether
    the type is named by one local, chosen in the arms of an `if`, or written in the argument)."""
    from sa import fd as _fd

    f = ctx.prog.func(INFO + '.async_request')
    cfg = cfg_of(f.node)
    lts = [n for n in cfg.nodes if n.kind == 'loop_test']
    if len(lts) != 1:
        raise AnalysisError('anchor vanished: the lookup loop of async_request')
    out: Set[Any] = set()

    def eff(node: Any, evl: Any) -> List[Any]:
        for c in _fd.node_calls(node, evl):
            if call_name(c) == '_generate_request_query' and len(c.args) >= 3:
                v = evl.ev(c.args[2])
                out.add('UNKNOWN' if isinstance(v, _fd._Unknown) else v)
        return []

    _fd.run_paths(ctx.prog, f.module, cfg, {f.params[3]: forced, '._is_complete': False}, eff, start=lts[0], stop=lambda n: n is lts[0], init_locals={roles['first']: is_first}, loop_bound=1)
    return out


def request_roles(ctx: Any) -> Dict[str, str]:
    """Locals of the lookup loop by role (so that renaming them changes nothing): the clock value, the
    deadline, the next-query time, the delay, the first-request flag and the question type of this round."""
    f = ctx.prog.func(INFO + '.async_request')
    roles: Dict[str, str] = {}
    for st in walk_local_ordered(f.node):
        if isinstance(st, ast.Assign) and isinstance(st.targets[0], ast.Name):
            v = st.value
            if isinstance(v, ast.Call) and call_name(v) == 'current_time_millis':
                roles.setdefault('now', st.targets[0].id)
            if isinstance(v, ast.Call) and call_name(v) == '_get_initial_delay':
                roles['delay'] = st.targets[0].id
    from .common import local_defs

    defs = local_defs(f)
    timeout = f.params[2]
    for n, vs in defs.items():
        if n in f.params:
            continue
        real = [v for v in vs if v is not None]
        if any(any(isinstance(x, ast.Name) and x.id == timeout for x in ast.walk(v)) for v in real):
            roles['last'] = n
        if len(vs) == 2 and all(isinstance(v, ast.Constant) and isinstance(v.value, bool) for v in real) and len(real) == 2 and [v.value for v in real] == [True, False]:
            roles['first'] = n
    for st in walk_local_ordered(f.node):
        if isinstance(st, ast.AugAssign) and isinstance(st.target, ast.Name) and isinstance(st.value, ast.Call) and call_name(st.value) == '_get_random_delay':
            roles['next'] = st.target.id
    if 'next' not in roles and 'now' in roles:
        for c in walk_local_ordered(f.node):
            if isinstance(c, ast.Compare) and len(c.ops) == 1 and isinstance(c.left, ast.Name) and isinstance(c.comparators[0], ast.Name):
                pair = {c.left.id, c.comparators[0].id}
                if roles['now'] in pair and roles.get('last') not in pair and len(pair) == 2:
                    roles['next'] = (pair - {roles['now']}).pop()
    for c in walk_local_ordered(f.node):
        if isinstance(c, ast.Call) and call_name(c) == '_generate_request_query' and len(c.args) >= 3:
            # the question type of the round: a local, or '' when none names it (round_type_values evaluates either)
            roles['qtype'] = c.args[2].id if isinstance(c.args[2], ast.Name) and c.args[2].id not in f.params else ''
    for k in ('now', 'delay', 'last', 'qtype', 'first'):
        if k not in roles:
            raise AnalysisError(f'anchor vanished: `{k}` of the lookup loop in {f.where()}')
    if 'next' not in roles:
        raise NoNextQueryTime(f'no next-query time in the lookup loop of {f.where()}')
    return roles


class NoNextQueryTime(AnalysisError):
    """The lookup loop keeps no `time of the next query` that its sends are tested against."""


def no_next_obligation(ctx: Any, R: str) -> List[Ob]:
    f = ctx.prog.func(INFO + '.async_request')
    sends = [c for c in walk_local_ordered(f.node) if isinstance(c, ast.Call) and call_name(c) == 'async_send']
    return [ob(R, f, sends[0] if sends else 'zc.async_send(out, addr, port)', 'a query of the lookup is sent only when the clock has reached the time set for the next query (the wait between queries ends early on every new record, so a send that is not tested against that time follows each wake-up at once)', False, 'the loop keeps no next-query time: it sends on every iteration and relies on the length of a wait that any arriving record cuts short')]


@rule('C18.BOUND', 'D', expect_min=7)
def bound(ctx: Any) -> List[Ob]:
    """The lookup answers from the cache without transmitting when the cache
    suffices; otherwise inside the request loop the timeout test precedes every
    send and every wait, the wait is min(next, last) - now, the deadline is
    now + timeout, and success means text present and at least one address."""
    R = 'C18.BOUND'
    prog = ctx.prog
    f = prog.func(INFO + '.async_request')
    me = f.params[0]
    p_timeout = f.params[2]
    cfg = cfg_of(f.node)
    obs: List[Ob] = []

    try:
        roles = request_roles(ctx)
    except NoNextQueryTime:
        return no_next_obligation(ctx, R)
    inv = {v: k for k, v in roles.items()}

    def rsym(x: ast.AST) -> Optional[str]:
        if isinstance(x, ast.Name):
            return inv.get(x.id, x.id)
        return None

    def eff(node: Any, evl: Any) -> List[Any]:
        out = []
        for c in fd.node_calls(node, evl):
            nm = call_name(c)
            if nm == 'async_send':
                out.append('SEND')
            elif nm == 'async_wait':
                out.append('WAIT')
            elif nm == 'async_add_listener':
                out.append('LISTEN')
            elif nm == '_load_from_cache':
                out.append('CACHE')
        return out

    oc, _ = traces(ctx, f, {'.started': True, '._load_from_cache()': True}, eff, loop_bound=1)
    got = {strip_ret(t) for t in oc}
    rets = {x[1] for t in oc for x in t if isinstance(x, tuple) and x[0] == 'ret'}
    obs.append(ob(R, f, 'if self._load_from_cache(zc, now): return True', 'when the cache suffices the lookup succeeds without sending, waiting or listening', got == {('CACHE',)} and rets == {True}, f'{sorted(got)} returns {rets}'))
    # reading the cache and subscribing to new records is one atomic step: no suspension between them (a record that arrives
    # while the task is suspended reaches the cache but not this lookup), and the time the cache is read at is current
    aw = [n for n in cfg.nodes if any(isinstance(x, ast.Await) for e in n.exprs() for x in ast.walk(e))]
    loads = cfg.nodes_calling('_load_from_cache')
    listens = cfg.nodes_calling('async_add_listener')
    if not loads or not listens:
        raise AnalysisError('anchor vanished: cache load / listener registration in async_request')
    gap = [a for a in aw if a not in loads and any(cfg.can_reach(l_, a) for l_ in loads) and any(cfg.path_avoiding(a, lambda n, t=t: n is t, lambda n: n in loads) is not None for t in listens)]
    obs.append(ob(R, f, gap[0].ast if gap else 'self._load_from_cache(zc, now) ... zc.async_add_listener(self, None)', 'the lookup does not suspend between reading the cache and starting to listen (nothing that arrives in between is lost)', not gap, f'the wait at line {gap[0].line} lies between the cache read and the listener registration' if gap else ''))
    now_defs = [n for n in cfg.nodes if n.kind == 'stmt' and isinstance(n.ast, ast.Assign) and norm(n.ast.targets[0]) == roles['now'] and not n.in_loop]
    stale_now = [a for a in aw if any(cfg.can_reach(d, a) for d in now_defs) and any(cfg.path_avoiding(a, lambda n, t=t: n is t, lambda n: n in now_defs) is not None for t in loads)]
    obs.append(ob(R, f, stale_now[0].ast if stale_now else 'now = current_time_millis(); self._load_from_cache(zc, now)', 'the time handed to the cache read (expiry filter) and used for the deadline is read after the last suspension before it', bool(now_defs) and not stale_now))
    from .c17 import lookup_listener_obligations

    obs.extend(lookup_listener_obligations(ctx, R))
    # `returns no later than its timeout`: the wait helper arms its timer for exactly the time it was given (milliseconds, converted
    # once) -- a floor or rounding added there for the benefit of another caller lets the last wait of a lookup overrun its deadline
    wf = prog.func('zeroconf._utils.asyncio.wait_for_future_set_or_timeout')
    p_to = wf.params[2]
    arm = [c for c in walk_local_ordered(wf.node) if isinstance(c, ast.Call) and call_name(c) in ('call_later', 'call_at')]
    ok_w, why_w = False, 'no timer is armed'
    if len(arm) == 1 and call_name(arm[0]) == 'call_later' and arm[0].args:
        a0 = arm[0].args[0]
        inner = a0.args[0] if isinstance(a0, ast.Call) and call_name(a0) == 'millis_to_seconds' and a0.args else None
        try:
            if inner is not None:
                pw = lf.poly(prog, wf.module, expand(wf, inner), lambda x: 'T' if isinstance(x, ast.Name) and x.id == p_to else None)
                ok_w, why_w = pw == lf.parse_poly('T'), lf.p_str(pw)
            else:
                pw = lf.poly(prog, wf.module, expand(wf, a0), lambda x: 'T' if isinstance(x, ast.Name) and x.id == p_to else None)
                ok_w, why_w = pw == lf.parse_poly('T / 1000'), lf.p_str(pw)
        except lf.NotLinear as e_:
            why_w = f'the delay is not the timeout itself: {e_}'
    obs.append(ob(R, wf, arm[0] if arm else 'loop.call_later(millis_to_seconds(timeout), ...)', 'the wait ends no later than the time it was given: the timer is armed for exactly `timeout` milliseconds', ok_w, why_w))
    # ... and it really waits: the future it created is registered with the caller's set, is the one the timer resolves, and is
    # awaited (a helper that returns at once turns the lookup loop into a busy loop that never yields to the event loop), the
    # timer resolves it through the only-if-not-done setter, and both are undone on the way out
    wcfg = cfg_of(wf.node)
    futs = [st_.targets[0].id for st_ in walk_local_ordered(wf.node) if isinstance(st_, ast.Assign) and isinstance(st_.targets[0], ast.Name) and isinstance(st_.value, ast.Call) and call_name(st_.value) == 'create_future']
    fv = futs[0] if len(futs) == 1 else '?'
    added = [n for n in wcfg.nodes if any(call_name(c) == 'add' and isinstance(c.func, ast.Attribute) and norm(c.func.value) == wf.params[1] and c.args and norm(c.args[0]) == fv for c in n.calls())]
    awaited = [n for n in wcfg.nodes if any(isinstance(x, ast.Await) and norm(x.value) == fv for e in n.exprs() for x in ast.walk(e))]
    timer_ok = len(arm) == 1 and len(arm[0].args) >= 3 and norm(arm[0].args[1]) == '_set_future_none_if_not_done' and norm(arm[0].args[2]) == fv
    byp_w = wcfg.must_pass_before_exit(wcfg.entry, lambda n: n in awaited) if awaited else [wcfg.entry]
    order_w = bool(added) and bool(awaited) and all(wcfg.dominated_by_any(a_, added) for a_ in awaited)
    obs.append(ob(R, wf, awaited[0].ast if awaited else f'await {fv}', 'the helper registers its future with the caller\'s set, arms the timer to resolve that future, and then awaits it on every path', len(futs) == 1 and timer_ok and order_w and byp_w is None, f'registered: {bool(added)}; timer resolves the future: {timer_ok}; awaited on every path: {byp_w is None}'))
    sf = prog.func('zeroconf._utils.asyncio._set_future_none_if_not_done')
    for done in (False, True):
        oc_sf, und_sf = traces(ctx, sf, {'.done()': done}, lambda n, e: ['SET' for c in fd.node_calls(n, e) if call_name(c) == 'set_result'], loop_bound=1)
        got_sf = {strip_ret(t).count('SET') for t in oc_sf}
        obs.append(ob(R, sf, f'future {"already resolved" if done else "pending"}', f'the future is {"left alone" if done else "resolved (once)"}', got_sf == ({0} if done else {1}) and not und_sf, f'set_result calls per path: {sorted(got_sf)}'))
    ra = prog.func('zeroconf._utils.asyncio._resolve_all_futures_to_none')
    racfg = cfg_of(ra.node)
    rl = [n for n in racfg.nodes if n.kind == 'for' and norm(n.ast.iter) == ra.params[0] and isinstance(n.ast.target, ast.Name)]
    ok_ra = False
    if len(rl) == 1:
        tv_ra = rl[0].ast.target.id

        def eff_ra(n: Any, e: Any) -> List[Any]:
            out_ = []
            for c in fd.node_calls(n, e):
                # through the only-if-not-done setter (decided above), or spelled out here
                if call_name(c) == '_set_future_none_if_not_done' and [norm(a) for a in c.args] == [tv_ra]:
                    out_.append('GUARDED-SET')
                elif call_name(c) == 'set_result' and isinstance(c.func, ast.Attribute) and norm(c.func.value) == tv_ra:
                    out_.append('SET')
                elif call_name(c) in ('_set_future_none_if_not_done', 'set_result', 'cancel', 'set_exception'):
                    out_.append('OTHER')
            return out_

        ok_ra = True
        for done in (False, True):
            oc_ra, _ = fd.run_paths(prog, ra.module, racfg, {'.done()': done}, eff_ra, start=rl[0], stop=lambda n: n is rl[0], loop_bound=1, for_iter=lambda n, e: True)
            got_ra = {tuple(x for x in strip_ret(t) if isinstance(x, str)) for t in oc_ra}
            ok_ra = ok_ra and bool(got_ra) and all(sq in ((('GUARDED-SET',), ('SET',)) if not done else (('GUARDED-SET',), ())) for sq in got_ra)
    obs.append(ob(R, ra, rl[0].ast if rl else ra.name, 'waking the waiters resolves every future of the set', ok_ra))
    aw_f = prog.func('zeroconf._services.info.ServiceInfo.async_wait')
    fw = [c for c in walk_local_ordered(aw_f.node) if isinstance(c, ast.Call) and call_name(c) == 'wait_for_future_set_or_timeout']
    obs.append(ob(R, aw_f, fw[0] if fw else 'wait_for_future_set_or_timeout(loop, futures, timeout)', 'the lookup hands its wait time to the helper unchanged', len(fw) == 1 and len(fw[0].args) == 3 and norm(fw[0].args[2]) == aw_f.params[1]))
    # timeout test precedes send and wait inside the loop
    loop_t = [n for n in cfg.nodes if n.kind == 'loop_test']
    if len(loop_t) != 1:
        raise AnalysisError('anchor vanished: request loop')
    tests = []
    for t in cfg.nodes:
        if t.kind == 'test' and isinstance(t.ast, ast.Compare):
            try:
                p, op = lf.comparison(prog, f.module, t.ast, rsym)
                if lf.same_cmp((p, op), lf.parse_cmp('last - now <= 0')) and all(s.kind == 'return' and norm(s.ast.value) == 'False' for s, lab in t.succ if lab is True):
                    tests.append(t)
            except lf.NotLinear:
                pass
    sends = cfg.nodes_calling('async_send')
    waits = cfg.nodes_calling('async_wait')
    obs.append(ob(R, f, 'if last <= now: return False', 'the deadline is tested (and ends the lookup with failure) before every send and every wait of an iteration', bool(tests) and all(cfg.dominated_by_any(n, tests) for n in sends + waits) and all(t.in_loop for t in tests)))
    last = [st for st in walk_local_ordered(f.node) if isinstance(st, ast.Assign) and norm(st.targets[0]) == roles['last']]
    okl = False
    if len(last) == 1:
        try:
            okl = lf.poly(prog, f.module, last[0].value, rsym) == lf.parse_poly(f'now + {p_timeout}')
        except lf.NotLinear:
            pass
    obs.append(ob(R, f, last[0] if last else 'last = now + timeout', 'the deadline is the start time plus the timeout', okl))
    wcall = [c for c in walk_local_ordered(f.node) if isinstance(c, ast.Call) and call_name(c) == 'async_wait']
    okw = False
    if len(wcall) == 1:
        a = wcall[0].args[0]
        if isinstance(a, ast.BinOp) and isinstance(a.op, ast.Sub) and norm(a.right) == roles['now'] and isinstance(a.left, ast.Call) and norm(a.left.func) == 'min':
            okw = sorted(norm(x) for x in a.left.args) == sorted([roles['last'], roles['next']])
    obs.append(ob(R, f, wcall[0] if wcall else 'async_wait', 'each wait lasts until the next query time or the deadline, whichever is first', okw))
    # now refreshed after every wait
    upd = [n for n in cfg.nodes if n.kind == 'stmt' and isinstance(n.ast, ast.Assign) and norm(n.ast.targets[0]) == roles['now'] and n.in_loop and isinstance(n.ast.value, ast.Call) and call_name(n.ast.value) == 'current_time_millis']
    obs.append(ob(R, f, 'now = current_time_millis()', 'the clock is re-read after every wait', bool(upd) and all(any(cfg.dominates(w, u) for u in upd) for w in waits)))
    # a send happens only when a query is due and has questions left
    snd_ok = True
    for s in sends:
        doms = [t for t in cfg.nodes if t.kind == 'test' and cfg.dominates(t, s)]
        due = False
        for t in doms:
            try:
                p, op = lf.comparison(prog, f.module, t.ast, rsym)
                due = due or lf.same_cmp((p, op), lf.parse_cmp('next - now <= 0'))
            except lf.NotLinear:
                pass
        snd_ok = snd_ok and due and any(isinstance(t.ast, ast.Attribute) and t.ast.attr == 'questions' for t in doms)
    obs.append(ob(R, f, 'if next_ <= now: ... if out.questions: zc.async_send(out, addr, port)', 'a query is sent only when one is due and it still has questions (those not already answered by the cache or suppressed)', snd_ok and bool(sends)))
    # success criterion
    ic = prog.cls(INFO).methods['_is_complete']
    e = [r.value for r in walk_local_ordered(ic.node) if isinstance(r, ast.Return)][0]
    t = norm(e)
    obs.append(ob(R, ic, e, 'complete means: text present and at least one IPv4 or IPv6 address', 'self.text is not None' in t and '_ipv4_addresses or' in t and '_ipv6_addresses' in t and ' and ' in t))
    lt = loop_t[0]
    obs.append(ob(R, f, f'while {norm(lt.ast)}', 'the loop runs exactly while the description is incomplete, and a completed loop returns True', norm(lt.ast) == f'not {me}._is_complete' and any(isinstance(r, ast.Return) and r.value is not None and norm(r.value) == 'True' for r in walk_local_ordered(f.node))))
    # sync wrapper bound
    rq = prog.func(INFO + '.request')
    rc = [c for c in walk_local_ordered(rq.node) if isinstance(c, ast.Call) and call_name(c) == 'run_coro_with_timeout']
    obs.append(ob(R, rq, rc[0] if rc else 'run_coro_with_timeout', 'the blocking wrapper passes its timeout through to the coroutine and to the safeguard', len(rc) == 1 and norm(rc[0].args[2]) == rq.params[2] and norm(rc[0].args[0].args[1]) == rq.params[2]))
    # cache-first loader reads by the instance name / host
    lc = prog.func(INFO + '._load_from_cache')
    rows = []
    single = []
    cache_cls = prog.cls('zeroconf._cache.DNSCache')
    by_details = {n_ for n_, m_ in cache_cls.methods.items() if len(m_.params) == 4}
    for c in walk_local_ordered(lc.node):
        if isinstance(c, ast.Call) and call_name(c) in by_details and len(c.args) == 3:
            rows.append((norm(c.args[0]), prog.try_fold(lc.module, c.args[1])[1], prog.try_fold(lc.module, c.args[2])[1]))
            ret = cache_cls.methods[call_name(c)].node.returns
            if ret is None or 'List' not in norm(ret):
                single.append(c)
    obs.append(ob(R, lc, f'cache lookups: {rows}', 'SRV and TXT are looked up under the instance name, class IN', sorted(rows, key=str) == sorted([(f'{lc.params[0]}._name', 33, 1), (f'{lc.params[0]}._name', 16, 1)], key=str)))
    # ... among ALL the cached records of that name and type: a reader that picks one record (the one added last) hands back an
    # expired, not yet purged copy in preference to a live one that was refreshed in place -- the lookup then transmits (and even
    # omits the question, since the query builder does see the live record) although the cache suffices
    obs.append(ob(R, lc, single[0] if single else 'cache.get_all_by_details(self._name, <SRV | TXT>, _CLASS_IN)', 'the cached SRV / TXT records are taken from a reader that returns every record of the name and type (each is then accepted or rejected by its own expiry)', bool(rows) and not single, 'a single-record reader returns the record added last whether or not it has expired: an expired copy shadows a live one' if single else ''))
    # all cached addresses of the host are loaded: the A / AAAA scan runs whenever the host is the one already known (it may be
    # skipped only when an SRV has just changed the host, because that branch reloads the lists itself)
    SCAN = '_get_address_records_from_cache_by_type'
    info_cls = prog.cls(INFO)

    def scan_types(c: ast.Call, g: FuncInfo, depth: int = 2) -> Set[Any]:
        """Address types whose cached records the call reads: a direct scan (type argument folded; a loop variable over a
        constant tuple stands for all its elements), or a helper of the class that scans."""
        if call_name(c) == SCAN and len(c.args) >= 2:
            a = c.args[1]
            ok_, v = prog.try_fold(g.module, a)
            if ok_:
                return {v}
            if isinstance(a, ast.Name):
                out_: Set[Any] = set()
                for lp in walk_local_ordered(g.node):
                    if isinstance(lp, ast.For) and isinstance(lp.target, ast.Name) and lp.target.id == a.id and isinstance(lp.iter, (ast.Tuple, ast.List)):
                        out_ |= {prog.try_fold(g.module, e_)[1] for e_ in lp.iter.elts if prog.try_fold(g.module, e_)[0]}
                return out_ or {'?'}
            return {'?'}
        if depth > 0 and isinstance(c.func, ast.Attribute) and isinstance(c.func.value, ast.Name) and c.func.value.id == g.params[0] and c.func.attr in info_cls.methods and c.func.attr not in ('_process_record_threadsafe',):
            h = info_cls.methods[c.func.attr]
            out2: Set[Any] = set()
            for c2 in walk_local_ordered(h.node):
                if isinstance(c2, ast.Call):
                    out2 |= scan_types(c2, h, depth - 1)
            return out2
        return set()

    def eff_l(node: Any, evl: Any) -> List[Any]:
        return [f'SCAN:{t_}' for c in fd.node_calls(node, evl) for t_ in sorted(scan_types(c, lc), key=str)]

    lme = lc.params[0]

    def reads_srv(it: ast.AST) -> bool:
        """The loop runs over the cached SRV records of the instance (a cache reader handed the SRV type)."""
        for c in ast.walk(it):
            if isinstance(c, ast.Call) and call_name(c) != SCAN and any(prog.try_fold(lc.module, a_) == (True, 33) for a_ in c.args):
                return True
        return False

    for srv_cached in (True, False):
        # `SRV cached`: a single-record reader returns a record, a loop over an all-records reader runs once
        ocl, undl = traces(
            ctx, lc, {f'{lme}.server_key': 'host-key', '.get_by_details()': fd.Sym('rec') if srv_cached else None}, eff_l, loop_bound=1,
            for_iter=lambda n, e, sc=srv_cached: bool(sc and reads_srv(n.ast.iter)),
        )
        scans = {tuple(sorted(x for x in strip_ret(t) if isinstance(x, str) and x.startswith('SCAN:'))) for t in ocl}
        obs.append(ob(R, lc, f'host unchanged, SRV {"cached" if srv_cached else "not cached"}', 'both address types of the known host are read from the cache (A and AAAA scanned on every path)', bool(scans) and all(set(sc) >= {'SCAN:1', 'SCAN:28'} for sc in scans), f'scans on the feasible paths: {sorted(scans)}; undecided {undl}'))
    # every record read from the cache is handed to the record processor, with the time of the lookup (which rejects it when
    # it has expired): each loop over cached records processes its own loop variable once per trip
    lcfg = cfg_of(lc.node)
    n_loops = 0
    for ln_ in [n for n in lcfg.nodes if n.kind == 'for' and isinstance(n.ast.target, ast.Name)]:
        n_loops += 1
        tv = ln_.ast.target.id

        def eff_p(node: Any, evl: Any, tv: str = tv) -> List[Any]:
            return [('PROC', tuple(norm(a) for a in c.args)) for c in fd.node_calls(node, evl) if call_name(c) == '_process_record_threadsafe']

        oc_p, _ = fd.run_paths(prog, lc.module, lcfg, {}, eff_p, start=ln_, stop=lambda n, ln_=ln_: n is ln_, loop_bound=1, for_iter=lambda n, e: True)
        per = {tuple(x for x in strip_ret(t) if isinstance(x, tuple) and x[0] == 'PROC') for t in oc_p}
        good_p = bool(per) and all(len(sq) == 1 and len(sq[0][1]) >= 3 and sq[0][1][1] == tv and sq[0][1][2] == lc.params[2] for sq in per)
        obs.append(ob(R, lc, ln_.ast, f'every cached record of `{norm(ln_.ast.iter)[:60]}` is handed to the record processor with the time of the lookup', good_p, f'calls per trip: {sorted(map(str, per))[:2]}'))
    if n_loops < 2:
        raise AnalysisError('anchor vanished: the loops over cached records in _load_from_cache')
    # the public look-up calls hand back the description exactly when the request succeeded, else None, with the caller's
    # timeout and question type passed through
    for full_api, req in (('zeroconf._core.Zeroconf.get_service_info', 'request'), ('zeroconf._core.Zeroconf.async_get_service_info', 'async_request')):
        api = prog.func(full_api)
        rcalls = [c for c in walk_local_ordered(api.node) if isinstance(c, ast.Call) and call_name(c) == req]
        passed = len(rcalls) == 1 and [norm(a) for a in rcalls[0].args] == [api.params[0], api.params[3], api.params[4]]
        holder = norm(rcalls[0].func.value) if rcalls and isinstance(rcalls[0].func, ast.Attribute) else '?'
        for okr in (True, False):
            oc_api, und_api = traces(ctx, api, {f'.{req}()': okr}, lambda n, e: [], loop_bound=1)
            rets_api = {x[1] for t in oc_api for x in t if isinstance(x, tuple) and x[0] == 'ret'}
            good_api = passed and not und_api and ((rets_api == {None}) if not okr else (len(rets_api) == 1 and None not in rets_api and all(isinstance(r_.value, ast.Name) and r_.value.id == holder for r_ in walk_local_ordered(api.node) if isinstance(r_, ast.Return) and r_.value is not None and not (isinstance(r_.value, ast.Constant) and r_.value.value is None))))
            obs.append(ob(R, api, f'{api.name}: the request {"succeeds" if okr else "fails"}', f'returns {"the description that made the request" if okr else "None"} (timeout and question type passed through)', good_api, f'returns {sorted(map(str, rets_api))}; arguments passed through: {passed}'))
    ret = [r for r in walk_local_ordered(lc.node) if isinstance(r, ast.Return)]
    obs.append(ob(R, lc, next((r_.value for r_ in ret if r_.value is None or norm(r_.value) != f'{lc.params[0]}._is_complete'), ret[0].value if ret else None) or 'return', 'the cache suffices iff the description is complete afterwards', bool(ret) and all(r_.value is not None and norm(r_.value) == f'{lc.params[0]}._is_complete' for r_ in ret)))
    return obs


@rule('C18.CACHEKEYS', 'D', expect_min=1)
def cachekeys(ctx: Any) -> List[Ob]:
    """`cache-first` and `omitting questions whose answers it already holds` for names as users spell them: the lookup hands
    the instance name and the host name to the cache as spelled, so every cache read method it calls must lower-case the
    name before it indexes (the C05.KEYS obligations restricted to the methods the lookup calls)."""
    from .c05 import cache_methods_reached, keys as c05_keys

    R = 'C18.CACHEKEYS'
    prog = ctx.prog
    info_c = prog.cls(INFO)
    called = cache_methods_reached(ctx, list(info_c.methods.values()))
    if len(called) < 1:
        raise AnalysisError(f'anchor vanished: cache methods called by the lookup (found {sorted(called)})')
    out = [o for o in c05_keys.fn(ctx) if str(o.function) in called]
    for o in out:
        o.rule = R
    return out


@rule('C18.ASK', 'D', expect_min=4)
def ask(ctx: Any) -> List[Ob]:
    """The first query of a lookup really goes out: a QU question is asked whatever the duplicate-question history holds
    (question identity ignores the QU bit, so a QM sighting less than a second old would otherwise silence the lookup's
    first -- or only -- query); only QM questions go through the history.  Decision table shared with C13.HISTORY."""
    from .c13 import history_effects, lookup_history_obligations

    return lookup_history_obligations(ctx, 'C18.ASK', history_effects)


EXPLANATION = (
    'C18.EXPIRY (decided): writer table of the result fields -- each write outside constructor/setters is dominated by an '
    'is_expired(now) rejection or fed by the expiry-filtered cache reader. C18.MATCH (decided): finite-domain decision table of the '
    'record processor over record kind x owner x expired (40 cells). C18.BOUND (decided): cache-first path sends nothing; the deadline '
    'test dominates every send and wait; wait = min(next, last) - now; completeness criterion. Listener removal on all exits: '
    'C17.LISTENER; QU-then-QM and omitted questions: C13.QUFIRST / C13.CONST. Not decided: arrival-time behaviour [X].'
)
EXPLANATION_ADDENDUM = (
    ' C18.BOUND also requires no suspension between reading the cache and subscribing, and the clock to be read after the last suspension; C18.MATCH that an SRV moving the instance to another host replaces both address lists. C18.ASK (decided): a QU question is asked whatever the duplicate-question history holds.'
)
EXPLANATION = EXPLANATION + EXPLANATION_ADDENDUM

RULES = [expiry, match, bound, cachekeys, ask]

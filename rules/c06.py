"""C06 -- response ingestion and the record-update listener contract."""
from __future__ import annotations

import ast
import itertools
from typing import Any, Dict, List, Optional, Set, Tuple

from sa import AnalysisError, StructuralViolation
from sa import fd
from sa.cf import cfg_of
from sa.pm import FuncInfo, call_name, norm, self_attr, walk_local_ordered
from sa.report import Ob, rule

from .common import ob, strip_ret, traces

RM = 'zeroconf._handlers.record_manager.RecordManager'
INGEST = RM + '.async_updates_from_response'
MUTATORS = {'append', 'add', 'extend', 'update', 'insert', 'remove', 'discard', 'pop', 'clear'}


_WRAPPED: Dict[str, str] = {}


def _arg_names(call: ast.Call) -> List[str]:
    """Local collections handed to a call, also when wrapped on the way (list(x), tuple(x), set(x), dict.fromkeys(x), sorted(x)):
    the wrapper is remembered -- one that merges equal records changes which copy of a repeated record reaches the cache."""
    out = []
    for a in call.args:
        if isinstance(a, ast.Name):
            out.append(a.id)
        elif isinstance(a, ast.Call) and len(a.args) >= 1 and isinstance(a.args[0], ast.Name) and norm(a.func) in ('list', 'tuple', 'set', 'frozenset', 'sorted', 'dict.fromkeys', 'reversed', 'iter'):
            out.append(a.args[0].id)
            _WRAPPED[a.args[0].id] = norm(a.func)
    return out


def ingest_anatomy(ctx: Any) -> Dict[str, Any]:
    """Locate, by resolved callee, the notify / add / remove / complete / mark calls
    of the ingestion function and the collections handed to them."""
    f = ctx.prog.func(INGEST)
    cg = ctx.cg
    an: Dict[str, Any] = {'f': f, 'notify': [], 'complete': [], 'add': [], 'remove': [], 'mark': []}
    for s in cg.sites_in(f):
        tg = {t.full for t in s.targets}
        if RM + '.async_updates' in tg:
            an['notify'].append(s.node)
        elif RM + '.async_updates_complete' in tg:
            an['complete'].append(s.node)
        elif 'zeroconf._cache.DNSCache.async_add_records' in tg or 'zeroconf._cache.DNSCache._async_add' in tg:
            an['add'].append(s.node)
        elif 'zeroconf._cache.DNSCache.async_remove_records' in tg or 'zeroconf._cache.DNSCache._async_remove' in tg:
            an['remove'].append(s.node)
        elif any(t.endswith('async_mark_unique_records_older_than_1s_to_expire') for t in tg):
            an['mark'].append(s.node)
    # a phase may also be inlined: a loop over the listeners that delivers on the loop variable
    an['phase_loops'] = {}
    for lp in walk_local_ordered(f.node):
        if isinstance(lp, ast.For) and isinstance(lp.target, ast.Name):
            for c in ast.walk(lp):
                if isinstance(c, ast.Call) and isinstance(c.func, ast.Attribute) and isinstance(c.func.value, ast.Name) and c.func.value.id == lp.target.id:
                    k = {'async_update_records': 'notify', 'async_update_records_complete': 'complete'}.get(c.func.attr)
                    if k:
                        an[k].append(c)
                        an['phase_loops'][id(c)] = lp
    what = {'notify': 'calls the update listeners with the (new, previous) pairs', 'complete': 'calls the update listeners a second time once the cache has been updated', 'add': 'adds the new records to the cache', 'remove': 'removes the withdrawn records from the cache', 'mark': 'marks the older records of a flushed rrset to expire'}
    for k in ('notify', 'complete', 'add', 'remove', 'mark'):
        if not an[k]:
            raise StructuralViolation(f.module.rel, f.qual, f'no `{k}` step in the ingestion routine', f'the ingestion routine {what[k]}', 'no such call is left in it')
    an['updates'] = []
    for c in an['notify']:
        last = c.args[-1] if c.args else None
        if isinstance(last, ast.Name):
            an['updates'].append(last.id)
        elif last is not None:
            # the collection may be wrapped on its way to the listeners: list(updates.values()), tuple(updates), ...
            an['updates'] += [x.id for x in ast.walk(last) if isinstance(x, ast.Name) and x.id not in ('list', 'tuple', 'sorted', 'set')][:1]
    _WRAPPED.clear()
    an['adds'] = [n for c in an['add'] for n in _arg_names(c)]
    an['removes'] = [n for c in an['remove'] for n in _arg_names(c)]
    an['wrapped'] = {k: v for k, v in _WRAPPED.items() if k in an['adds']}
    an['unique'] = [n for c in an['mark'] for n in _arg_names(c)[:1]]
    if not an['updates'] or not an['adds'] or not an['removes']:
        raise AnalysisError(f'{f.where()}: collections handed to notify/add/remove are not plain local names')
    # the record loop = the for loop that mutates these collections
    loops = [n for n in walk_local_ordered(f.node) if isinstance(n, ast.For)]
    colls = set(an['updates'] + an['adds'] + an['removes'])
    rec_loops = [
        lp for lp in loops
        if any(isinstance(c, ast.Call) and call_name(c) in MUTATORS and isinstance(c.func, ast.Attribute)
               and isinstance(c.func.value, ast.Name) and c.func.value.id in colls for c in ast.walk(lp))
    ]
    if len(rec_loops) != 1:
        raise AnalysisError(f'{f.where()}: expected exactly one record loop feeding the collections, found {len(rec_loops)}')
    an['loop'] = rec_loops[0]
    return an


def pair_per_live_record(ctx: Any, R: str) -> List[Ob]:
    """Every record of the datagram whose TTL has not run out yields a (new, previous) pair for the listeners -- a refresh of
    an already cached record included (the browser moves its refresh query on it, lookups read addresses from it)."""
    an = ingest_anatomy(ctx)
    f: FuncInfo = an['f']
    cfg = cfg_of(f.node)
    loop = an['loop']
    head = next(n for n in cfg.nodes if n.kind == 'for' and n.ast is loop)
    upd = set(an['updates'])

    def eff(node: Any, evl: Any) -> List[Any]:
        out = []
        for c in fd.node_calls(node, evl):
            if call_name(c) in MUTATORS and isinstance(c.func, ast.Attribute) and isinstance(c.func.value, ast.Name) and c.func.value.id in upd:
                out.append('PAIR')
        if node.kind == 'stmt' and isinstance(node.ast, ast.Assign) and isinstance(node.ast.targets[0], ast.Subscript) and isinstance(node.ast.targets[0].value, ast.Name) and node.ast.targets[0].value.id in upd:
            out.append('PAIR')
        return out

    adds = set(an['adds'])

    def eff_a(node: Any, evl: Any) -> List[Any]:
        return eff(node, evl) + ['ADD' for c in fd.node_calls(node, evl) if call_name(c) in MUTATORS and isinstance(c.func, ast.Attribute) and isinstance(c.func.value, ast.Name) and c.func.value.id in adds]

    obs: List[Ob] = []
    for cached in (True, False):
        for recent in (True, False):
            atoms = {'.is_expired()': False, '.async_get_unique()': fd.Sym('entry') if cached else None, '.is_recent()': recent, '.ttl': 120, '.type': 1, '.unique': False}
            oc, und = fd.run_paths(ctx.prog, f.module, cfg, atoms, eff, start=head, stop=lambda n: n is head, loop_bound=1, for_iter=lambda n, e: True)
            counts = {strip_ret(t).count('PAIR') for t in oc}
            obs.append(ob(R, f, f'live record, {"already cached" if cached else "new"}{", cached copy recent" if cached and recent else ""}', 'exactly one (new, previous) pair is queued for the listeners', counts == {1}, f'pairs queued on the feasible paths: {sorted(counts)}'))
    # whatever its type, a live record that is not cached yet is queued for the cache (the responder reads `seen on the wire less
    # than a second ago` from the cache for every record it can answer with: A, AAAA, PTR, TXT, SRV and NSEC)
    for typ, nm in ((1, 'A'), (28, 'AAAA'), (12, 'PTR'), (16, 'TXT'), (33, 'SRV'), (47, 'NSEC')):
        atoms = {'.is_expired()': False, '.async_get_unique()': None, '.ttl': 4500, '.type': typ, '.unique': typ != 12}
        oc, und = fd.run_paths(ctx.prog, f.module, cfg, atoms, eff_a, start=head, stop=lambda n: n is head, loop_bound=1, for_iter=lambda n, e: True)
        seqs = {tuple(sorted(x for x in strip_ret(t) if x in ('PAIR', 'ADD'))) for t in oc}
        obs.append(ob(R, f, f'new live {nm} record', 'it is reported to the listeners and queued for the cache', seqs == {('ADD', 'PAIR')}, f'effects on the feasible paths: {sorted(seqs)}'))
    # what was queued is what reaches the cache: the add collections are handed over as collected, or as an order-keeping full copy;
    # a set / dict view merges equal records -- two copies of one record with different TTLs are EQUAL -- and keeps the first copy
    # where the last one must win
    merging = {k: v for k, v in an.get('wrapped', {}).items() if v in ('set', 'frozenset', 'dict.fromkeys', 'sorted', 'reversed')}
    obs.append(ob(R, f, (an['add'][0] if an['add'] else f.name), 'every record queued for the cache is handed to the cache, in datagram order (no merging of equal records on the way: a record repeated in one datagram with different TTLs ends up with the last one)', not merging, '; '.join(f'`{k}` is handed over through {v}(...)' for k, v in merging.items())))
    # a withdrawn record (TTL 0 / expired on arrival): reported and queued for removal exactly when a cached copy exists,
    # ignored otherwise -- never added
    rems = set(an['removes'])

    def eff_r(node: Any, evl: Any) -> List[Any]:
        return eff_a(node, evl) + ['REM' for c in fd.node_calls(node, evl) if call_name(c) in MUTATORS and isinstance(c.func, ast.Attribute) and isinstance(c.func.value, ast.Name) and c.func.value.id in rems]

    for cached in (True, False):
        atoms = {'.is_expired()': True, '.async_get_unique()': fd.Sym('entry') if cached else None, '.ttl': 0, '.type': 1, '.unique': False}
        oc, und = fd.run_paths(ctx.prog, f.module, cfg, atoms, eff_r, start=head, stop=lambda n: n is head, loop_bound=1, for_iter=lambda n, e: True)
        seqs = {tuple(sorted(x for x in strip_ret(t) if x in ('PAIR', 'ADD', 'REM'))) for t in oc}
        want = {('PAIR', 'REM')} if cached else {()}
        obs.append(ob(R, f, f'withdrawn record (TTL 0), {"cached copy exists" if cached else "not cached"}', 'it is reported to the listeners and queued for removal from the cache' if cached else 'it is ignored (nothing reported, nothing queued)', seqs == want, f'effects on the feasible paths: {sorted(seqs)}'))
    if R.split('.')[0] not in ('C05', 'C06'):
        obs.extend(sighting_obligations(ctx, R))
    return obs


def sighting_obligations(ctx: Any, R: str) -> List[Ob]:
    """A record seen again is on record as seen -- its cached copy carries the new arrival time -- before any listener runs: the
    responder reads `seen on the wire less than a second / a quarter of its TTL ago` from that copy, and a listener that raises
    must not make the host forget the sighting."""
    out = []
    for o in refresh_obligations(ctx, R):
        if o.statement.startswith(('a refresh gives', 'the refresh of an already cached', 'a record that is already cached is refreshed', 'the pointer-TTL floor is applied to the received record inside')):
            o.statement += ' -- the sighting of a record is read from its cached copy'
            out.append(o)
    return out


def previous_obligations(ctx: Any, R: str) -> List[Ob]:
    """`previous` of every (new, previous) pair is exactly the result of the cache lookup for that record:
    the name handed to RecordUpdate has one definition in the loop, the unique lookup of the same record."""
    an = ingest_anatomy(ctx)
    f: FuncInfo = an['f']
    loop = an['loop']
    upd = set(an['updates'])
    obs: List[Ob] = []
    keyed = [st for st in ast.walk(loop) if isinstance(st, ast.Assign) and isinstance(st.targets[0], ast.Subscript) and isinstance(st.targets[0].value, ast.Name) and st.targets[0].value.id in upd]
    for st in keyed:
        obs.append(ob(R, f, st, 'every record of the datagram yields its own (new, previous) pair, in datagram order: the pairs are appended to a list', False, f'pairs are stored under a key (`{norm(st.targets[0].slice)}`): record identity ignores the TTL, so a goodbye and a fresh copy of one record in the same datagram collapse into one pair'))
    for c in ast.walk(loop):
        if isinstance(c, ast.Call) and call_name(c) in ('append',) and isinstance(c.func, ast.Attribute) and isinstance(c.func.value, ast.Name) and c.func.value.id in upd:
            arg = c.args[0] if c.args else None
            good = False
            why = ''
            if isinstance(arg, ast.Call) and call_name(arg) == 'RecordUpdate' and len(arg.args) == 2:
                new_, old_ = arg.args
                defs = [st for st in ast.walk(loop) if isinstance(st, (ast.Assign, ast.AugAssign, ast.AnnAssign)) and any(isinstance(t, ast.Name) and t.id == norm(old_) for t in (st.targets if isinstance(st, ast.Assign) else [st.target]))]
                lookups = [st for st in defs if isinstance(st, ast.Assign) and isinstance(st.value, ast.Call) and call_name(st.value) == 'async_get_unique' and st.value.args and norm(st.value.args[0]) == norm(new_)]
                good = len(defs) == 1 and len(lookups) == 1
                if len(defs) > 1:
                    why = f'`{norm(old_)}` is reassigned after the lookup: ' + '; '.join(norm(d)[:60] for d in defs if d not in lookups)
            obs.append(ob(R, f, c, '`previous` of each pair is the cached copy looked up for that same record (None iff none existed)', good, why))
    # ... and that lookup finds the cached copy whatever its age: a copy whose TTL has run out but which the purge has not
    # collected yet IS the previous copy (a lookup that hides it turns a refresh into a second `new`)
    from .c05 import lookups as _lookups

    for o in _lookups.fn(ctx):
        if o.statement.startswith('the unique lookup returns the stored copy'):
            o.rule = R
            obs.append(o)
    return obs


@rule('C06.ORDER', 'D', expect_min=14)
def order(ctx: Any) -> List[Ob]:
    """Effect order of response ingestion for all datagrams: (i) inside the record
    loop every path that queues a cache add or a removal also queues an update
    pair, the loop touches the cache only through the refresh of an existing
    entry, and `previous` is the entry looked up for that record; (ii) after the
    loop, for every combination of empty/non-empty collections consistent with
    (i), the effects are exactly MARK? (NOTIFY (ADD_ADDR ADD_OTHER)? REMOVE? COMPLETE)?
    -- listeners are notified exactly once before any cache add/remove and
    exactly once after."""
    R = 'C06.ORDER'
    an = ingest_anatomy(ctx)
    f: FuncInfo = an['f']
    obs: List[Ob] = []
    cfg = cfg_of(f.node)
    loop = an['loop']
    head = next(n for n in cfg.nodes if n.kind == 'for' and n.ast is loop)
    upd, adds, rems = set(an['updates']), set(an['adds']), set(an['removes'])

    def body_eff(node: Any, evl: Any) -> List[Any]:
        out = []
        for c in node.calls():
            nm = call_name(c)
            if isinstance(c.func, ast.Attribute) and isinstance(c.func.value, ast.Name) and nm in MUTATORS:
                v = c.func.value.id
                if v in upd:
                    out.append('UPD')
                elif v in adds:
                    out.append('ADD')
                elif v in rems:
                    out.append('REM')
            if any(c is x for k in ('notify', 'complete', 'add', 'remove') for x in an[k]):
                out.append('CACHE-OR-NOTIFY-IN-LOOP')
        return out

    n_paths = 0
    for path in cfg.paths(start=head, stop=lambda n: n is head, loop_bound=1):
        if len(path) < 2 or path[0][1] != 'iter':
            continue
        n_paths += 1
        evl = fd.Evaluator(ctx.prog, f.module, {})
        eff: List[Any] = []
        for node, _lab in path[1:-1]:
            eff.extend(body_eff(node, evl))
        queued = [e for e in eff if e in ('ADD', 'REM')]
        ok = (not queued or 'UPD' in eff) and eff.count('UPD') <= 1 and len(queued) <= 1
        desc = ' ; '.join(n.text() for n, _ in path[1:-1] if n.kind in ('test', 'stmt'))
        obs.append(ob(R, f, f'loop path effects {eff}', 'a record queued for cache add/removal is also reported to listeners (adds or removes non-empty implies updates non-empty), once', ok, desc[:300]))
        obs.append(ob(R, f, f'loop path effects {eff} (cache)', 'the record loop neither adds to nor removes from the cache nor notifies', 'CACHE-OR-NOTIFY-IN-LOOP' not in eff))
    ctx.counters['record_loop_paths'] = n_paths
    if n_paths < 3:
        raise AnalysisError('record loop has fewer paths than confirmed by hand (3: new, refresh, goodbye, ignore)')
    obs.extend(pair_per_live_record(ctx, R))
    obs.extend(previous_obligations(ctx, R))
    # collections are not written after the loop; updates is an ordered list; removes is a set
    after = False
    late: List[str] = []
    for st in f.node.body:
        if st is loop:
            after = True
            continue
        if not after:
            continue
        for c in ast.walk(st):
            if isinstance(c, ast.Call) and call_name(c) in MUTATORS and isinstance(c.func, ast.Attribute) and isinstance(c.func.value, ast.Name) and c.func.value.id in (upd | adds | rems):
                late.append(norm(c))
            if isinstance(c, (ast.Assign, ast.AugAssign)):
                tg = c.targets if isinstance(c, ast.Assign) else [c.target]
                for t in tg:
                    if isinstance(t, ast.Name) and t.id in (upd | adds | rems):
                        late.append(norm(c))
    obs.append(ob(R, f, 'statements after the record loop', 'the update / add / remove collections are complete when the loop ends (not written afterwards)', not late, str(late)))
    # (ii) post-loop decision table
    labels: Dict[int, str] = {}
    for c in an['mark']:
        labels[id(c)] = 'MARK'
    for c in an['notify']:
        labels[id(c)] = 'NOTIFY'
    for c in an['complete']:
        labels[id(c)] = 'COMPLETE'
    for c in an['remove']:
        labels[id(c)] = 'REMOVE'
    addr_names = []
    for c in an['add']:
        nm = _arg_names(c)[0] if _arg_names(c) else '?'
        labels[id(c)] = 'ADD:' + nm
        addr_names.append(nm)

    def eff2(node: Any, evl: Any) -> List[Any]:
        return [labels[id(c)] for c in node.calls() if id(c) in labels]

    phase_loop_nodes = list(an['phase_loops'].values())

    def phase_iter(node: Any, evl: Any) -> Any:
        """An inlined phase loop runs once (some listener is registered) unless its iterable is known to be empty."""
        if not any(node.ast is lp for lp in phase_loop_nodes):
            return None
        v = evl.ev(node.ast.iter)
        if v is not fd.UNKNOWN and hasattr(v, '__len__') and len(v) == 0:
            return False
        return True

    # which add collection holds the address records?  the one fed under the `in _ADDRESS_RECORD_TYPES` test
    addr_coll = None
    for t in ast.walk(loop):
        if not isinstance(t, ast.If):
            continue
        test, arm = t.test, t.body
        if isinstance(test, ast.UnaryOp) and isinstance(test.op, ast.Not):
            test, arm = test.operand, t.orelse
        if isinstance(test, ast.Compare) and isinstance(test.ops[0], ast.NotIn):
            arm = t.orelse if arm is t.body else t.body
        if isinstance(test, ast.Compare) and isinstance(test.ops[0], (ast.In, ast.NotIn)):
            okc, v = ctx.prog.try_fold(f.module, test.comparators[0])
            if okc and set(v) == {1, 28}:
                for c in ast.walk(ast.Module(body=arm, type_ignores=[])):
                    if isinstance(c, ast.Call) and call_name(c) == 'append' and isinstance(c.func.value, ast.Name):
                        addr_coll = c.func.value.id
    if addr_coll is None or addr_coll not in adds:
        raise AnalysisError('anchor vanished: the address-record add collection (fed under `type in _ADDRESS_RECORD_TYPES`)')
    other_colls = sorted(adds - {addr_coll})
    atoms_names = list(an['unique']) + sorted(upd) + sorted(adds) + sorted(rems)
    n_cells = 0
    for combo in itertools.product([False, True], repeat=len(atoms_names)):
        asg = dict(zip(atoms_names, combo))
        any_add = any(asg[a] for a in adds)
        any_rem = any(asg[r] for r in rems)
        has_upd = any(asg[u] for u in upd)
        if (any_add or any_rem) and not has_upd:
            continue  # excluded by part (i)
        atoms = {k: (['x'] if v else []) for k, v in asg.items()}
        oc, und = traces(ctx, f, atoms, eff2, loop_bound=1, for_iter=phase_iter)
        got = {strip_ret(t) for t in oc}
        want: List[str] = []
        if any(asg[u] for u in an['unique']):
            want.append('MARK')
        if has_upd:
            want.append('NOTIFY')
            if any_add:
                want.append('ADD:' + addr_coll)
                want.extend('ADD:' + o for o in other_colls)
            if any_rem:
                want.append('REMOVE')
            want.append('COMPLETE')
        n_cells += 1
        obs.append(ob(R, f, f'collections non-empty: {sorted(k for k, v in asg.items() if v)}', f'effect sequence is {want}', got == {tuple(want)}, f'got {sorted(got)}'))
    ctx.counters['order_table_cells'] = n_cells
    # exactly-once: notify and complete have one call site each, outside any loop
    for k, what in (('notify', 'async_updates'), ('complete', 'async_updates_complete')):
        sites = an[k]
        def own_loops(c: ast.Call) -> List[ast.AST]:
            return [lp for n in cfg.nodes if any(c is x for x in n.calls()) for lp in n.in_loop]

        # a call of the helper outside any loop, or an inlined delivery inside exactly its own loop over the listeners
        stray = [c for c in sites if [lp for lp in own_loops(c) if lp is not an['phase_loops'].get(id(c))]]
        obs.append(ob(R, f, f'{len(sites)} site(s) delivering {what}', f'listeners get {what} exactly once per datagram (one site, in no loop other than the one over the listeners)', len(sites) == 1 and not stray))
    # `updates` keeps datagram order: initialised as a list and only appended to
    init_ok = False
    for st in f.node.body:
        if isinstance(st, (ast.Assign, ast.AnnAssign)):
            tg = st.targets if isinstance(st, ast.Assign) else [st.target]
            if any(isinstance(t, ast.Name) and t.id in upd for t in tg) and isinstance(st.value, ast.List) and not st.value.elts:
                init_ok = True
    obs.append(ob(R, f, f'{sorted(upd)} = []', 'the pairs are collected in a list appended in datagram order', init_ok))
    # `creation time equal to the arrival time`: what reaches this function was decoded from the datagram just received, now
    from .c11 import fresh_message_obligations

    obs.extend(fresh_message_obligations(ctx, R))
    # every valid response that passed the duplicate guard reaches this routine
    from .c16 import dispatch_obligations

    obs.extend(dispatch_obligations(ctx, R, 'response'))
    return obs


def _snapshot_expr(it: ast.AST, me: str) -> bool:
    return (
        isinstance(it, ast.Call)
        and (
            (isinstance(it.func, ast.Attribute) and it.func.attr == 'copy' and self_attr(it.func.value, me) == 'listeners')
            or (isinstance(it.func, ast.Name) and it.func.id in ('list', 'set', 'tuple', 'frozenset', 'sorted') and bool(it.args) and self_attr(it.args[0], me) == 'listeners')
        )
    )


@rule('C06.SNAPSHOT', 'D', expect_min=2)
def snapshot(ctx: Any) -> List[Ob]:
    """Both listener loops iterate a copy of the listener set, so adding or
    removing a listener from inside a callback is safe."""
    R = 'C06.SNAPSHOT'
    obs: List[Ob] = []
    rm = ctx.prog.cls(RM)
    for f in rm.methods.values():
        me = f.params[0] if f.params else 'self'
        for lp in walk_local_ordered(f.node):
            if not isinstance(lp, (ast.For, ast.comprehension)):
                continue
            it = lp.iter
            # a listener loop: iterates the listener set, or calls a listener callback on its loop variable
            calls_cb = isinstance(lp, ast.For) and isinstance(lp.target, ast.Name) and any(isinstance(c, ast.Call) and call_name(c) in ('async_update_records', 'async_update_records_complete') and isinstance(c.func, ast.Attribute) and isinstance(c.func.value, ast.Name) and c.func.value.id == lp.target.id for c in ast.walk(lp))
            if not any(self_attr(x, me) == 'listeners' for x in ast.walk(it)) and not calls_cb:
                continue
            if isinstance(it, ast.Name):
                # the iterable is a local: every value it can hold must be a snapshot of the listener set taken by this call
                # (a snapshot kept from the other phase misses listeners added, and still holds listeners removed, in between)
                from .common import local_defs as _ld

                vals = _ld(f).get(it.id, [])

                def _is_snap(v: Any) -> bool:
                    return isinstance(v, ast.Call) and ((isinstance(v.func, ast.Attribute) and v.func.attr == 'copy' and self_attr(v.func.value, me) == 'listeners') or (isinstance(v.func, ast.Name) and v.func.id in ('list', 'set', 'tuple', 'frozenset', 'sorted') and bool(v.args) and self_attr(v.args[0], me) == 'listeners'))

                stale = [norm(v) if v is not None else '<unpacked>' for v in vals if not _is_snap(v)]
                obs.append(ob(R, f, lp, 'listener callbacks run over a snapshot of the listener set taken for this phase', bool(vals) and not stale, f'`{it.id}` can also be {stale}' if stale else ''))
                copy = None
            else:
                copy = _snapshot_expr(it, me)
            if copy is not None:
                obs.append(ob(R, f, it, 'listener callbacks run over a snapshot of the listener set', copy))
            # `every registered update listener is called exactly once`: each trip of the loop calls the listener of that trip,
            # whatever the earlier ones did (no early exit, no skipped listener)
            if isinstance(lp, ast.For) and isinstance(lp.target, ast.Name) and f.name in ('async_updates', 'async_updates_complete'):
                want_cb = 'async_update_records' if f.name == 'async_updates' else 'async_update_records_complete'
                lv = lp.target.id
                cfg_l = cfg_of(f.node)
                head_l = next(n for n in cfg_l.nodes if n.kind == 'for' and n.ast is lp)

                def eff_l(node: Any, evl: Any, lv: str = lv, want_cb: str = want_cb) -> List[Any]:
                    return ['CALL' for c in fd.node_calls(node, evl) if call_name(c) == want_cb and isinstance(c.func, ast.Attribute) and isinstance(c.func.value, ast.Name) and c.func.value.id == lv]

                oc_l, _ = fd.run_paths(ctx.prog, f.module, cfg_l, {}, eff_l, start=head_l, stop=lambda n: n is head_l, loop_bound=1, for_iter=lambda n, e: True)
                per_trip = {strip_ret(t).count('CALL') for t in oc_l}
                leaves = any(isinstance(x, (ast.Break, ast.Return)) for x in ast.walk(lp))
                obs.append(ob(R, f, lp, f'every listener of the snapshot gets exactly one `{want_cb}` call per datagram', per_trip == {1} and not leaves, f'calls per trip of the loop: {sorted(per_trip)}; the loop can be left early: {leaves}'))
    # inlined phases of the ingestion function: each phase loop iterates its own snapshot, and the snapshot of the completion
    # phase is taken after the first phase has run (a listener added or removed by a first-phase callback is honoured)
    an = ingest_anatomy(ctx)
    f = an['f']
    me = f.params[0]
    cfg = cfg_of(f.node)

    def is_copy(e: ast.AST) -> bool:
        if isinstance(e, ast.IfExp):
            return is_copy(e.body) or is_copy(e.orelse)
        return isinstance(e, ast.Call) and ((isinstance(e.func, ast.Attribute) and e.func.attr == 'copy' and self_attr(e.func.value, me) == 'listeners') or (isinstance(e.func, ast.Name) and e.func.id in ('list', 'set', 'tuple', 'frozenset', 'sorted') and bool(e.args) and self_attr(e.args[0], me) == 'listeners'))

    notify_nodes = [n for n in cfg.nodes if any(c is x for x in an['notify'] for c in n.calls())]
    for k in ('notify', 'complete'):
        for c in an[k]:
            lp = an['phase_loops'].get(id(c))
            if lp is None:
                continue
            it = lp.iter
            if isinstance(it, ast.Name):
                defs = [n for n in cfg.nodes if n.kind == 'stmt' and isinstance(n.ast, ast.Assign) and any(isinstance(t, ast.Name) and t.id == it.id for t in n.ast.targets)]
                good = bool(defs) and all(is_copy(d.ast.value) for d in defs)
                why = '' if good else f'`{it.id}` is not a copy of the listener set'
                if good and k == 'complete':
                    stale = [d for d in defs if not any(cfg.dominates(nn, d) for nn in notify_nodes)]
                    if stale:
                        good = False
                        why = f'the snapshot `{it.id}` (line {stale[0].line}) is taken before the first phase runs, so listeners added or removed by a first-phase callback are not honoured'
            else:
                good = is_copy(it)
                why = '' if good else 'the live listener set is iterated'
            obs.append(ob(R, f, lp.iter, f'the inlined {k} phase iterates a snapshot of the listener set taken for that phase', good, why))
    return obs


@rule('C06.DEDUP', 'D', expect_min=1)
def dedup(ctx: Any) -> List[Ob]:
    """The collection of withdrawn records handed to the cache is a set, so a
    goodbye repeated inside one datagram is removed once."""
    R = 'C06.DEDUP'
    an = ingest_anatomy(ctx)
    f = an['f']
    obs: List[Ob] = []
    for r in an['removes']:
        good = False
        for st in f.node.body:
            if isinstance(st, (ast.Assign, ast.AnnAssign)):
                tg = st.targets if isinstance(st, ast.Assign) else [st.target]
                if any(isinstance(t, ast.Name) and t.id == r for t in tg):
                    v = st.value
                    good = (isinstance(v, ast.Call) and norm(v.func) in ('set',) and not v.args) or isinstance(v, ast.Set)
        obs.append(ob(R, f, f'{r} = set()', 'withdrawn records are collected in a set (no double removal)', good))
    obs.extend(told_equals_done_obligations(ctx, R))
    return obs


def told_equals_done_obligations(ctx: Any, R: str) -> List[Ob]:
    """What the listeners were told is what happens to the cache: a record that was paired for the listeners as withdrawn stays
    in the set of removals until that set is handed to the cache, and a record paired as new stays in the add lists -- nothing
    takes a record out again (`discard`, `remove`, `clear`, `-=`) between telling and doing.  (A browser that was told
    Removed while the cache keeps the record never hears of that service again: every later announcement is a refresh.)"""
    an = ingest_anatomy(ctx)
    f = an['f']
    colls = list(an['removes']) + [x for x in an.get('adds', []) if isinstance(x, str)]
    names = set(an['removes'])
    for st in walk_local_ordered(f.node):
        if isinstance(st, ast.Call) and call_name(st) in ('async_add_records',) and st.args and isinstance(st.args[0], ast.Name):
            names.add(st.args[0].id)
    bad = []
    for x in walk_local_ordered(f.node):
        if isinstance(x, ast.Call) and isinstance(x.func, ast.Attribute) and isinstance(x.func.value, ast.Name) and x.func.value.id in names and x.func.attr in ('discard', 'remove', 'clear', 'pop', 'difference_update', 'intersection_update', '__delitem__'):
            bad.append(x)
        if isinstance(x, ast.AugAssign) and isinstance(x.target, ast.Name) and x.target.id in names and isinstance(x.op, (ast.Sub, ast.BitAnd)):
            bad.append(x)
        if isinstance(x, ast.Delete) and any(isinstance(t, ast.Subscript) and isinstance(t.value, ast.Name) and t.value.id in names for t in x.targets):
            bad.append(x)
    return [ob(R, f, bad[0] if bad else f'{sorted(names)} only grow', 'the collections of withdrawn and of new records only grow between pairing a record for the listeners and applying it to the cache', bool(names) and not bad, f'`{norm(bad[0])}` takes a record out again' if bad else '')]


def refresh_obligations(ctx: Any, R: str) -> List[Ob]:
    """The refresh of an already cached record takes the received record's current lifetime: reset_ttl(record),
    or set_created_ttl(record.created, record.ttl) -- never a snapshot of the TTL taken before the pointer floor."""
    an = ingest_anatomy(ctx)
    f: FuncInfo = an['f']
    loop = an['loop']
    obs: List[Ob] = []
    recvar = norm(loop.target)
    floor_calls = [c for c in ast.walk(loop) if isinstance(c, ast.Call) and call_name(c) == 'set_created_ttl' and isinstance(c.func, ast.Attribute) and norm(c.func.value) == recvar]
    if len(floor_calls) != 1:
        return [ob(R, f, loop, 'the pointer-TTL floor is applied to the received record inside the record loop, before the record is looked up, copied into the cached entry, paired for listeners or queued', False, f'{len(floor_calls)} floor call(s) `<record>.set_created_ttl(...)` in the loop: a floor applied elsewhere (for instance when the cache stores a NEW record) does not reach a refresh of an already cached pointer, nor the pairs shown to listeners')]
    fc = floor_calls[0]
    # --- refresh of an existing entry takes the received record's *current* lifetime (after the floor)
    entry_vars = [st.targets[0].id for st in ast.walk(loop) if isinstance(st, ast.Assign) and isinstance(st.targets[0], ast.Name) and isinstance(st.value, ast.Call) and call_name(st.value) == 'async_get_unique']
    refresh = [c for c in ast.walk(loop) if isinstance(c, ast.Call) and call_name(c) in ('reset_ttl', 'set_created_ttl') and isinstance(c.func, ast.Attribute) and norm(c.func.value) in entry_vars]
    cfg0 = cfg_of(f.node)
    if not refresh:
        # the refresh was taken out of the record loop: listeners must still find `refreshed TTLs already visible`, and the sighting
        # must be on record before any listener runs (a listener that raises must not lose it) -- so a deferred refresh is in
        # order only when no path leads from the notification to it
        late_calls = [c for c in walk_local_ordered(f.node) if isinstance(c, ast.Call) and call_name(c) in ('reset_ttl', 'set_created_ttl') and isinstance(c.func, ast.Attribute) and norm(c.func.value) != recvar and not any(c is x for x in ast.walk(loop))]
        if not late_calls:
            return [ob(R, f, loop, 'a record that is already cached is refreshed with the lifetime of the copy just received', False, 'no refresh of the cached entry (reset_ttl / set_created_ttl) is left in the ingestion routine')]
        out_l: List[Ob] = []
        notify_nodes = [n for n in cfg0.nodes if any(any(c is x for x in an['notify']) for c in n.calls())]
        for c in late_calls:
            rn = next(n for n in cfg0.nodes if any(x is c for x in n.calls()))
            after = [n for n in notify_nodes if cfg0.can_reach(n, rn)]
            out_l.append(ob(R, f, c, 'the refresh of an already cached record is applied before the listeners are notified (refreshed TTLs are visible to them, and the sighting is on record whatever a listener does)', not after and bool(notify_nodes), f'the refresh at line {c.lineno} runs after the notification at line {after[0].line}' if after else ''))
        return out_l
    fnode = next(n for n in cfg0.nodes if any(c is fc for c in n.calls()))
    for rc_ in refresh:
        if call_name(rc_) == 'reset_ttl':
            good = len(rc_.args) == 1 and norm(rc_.args[0]) == recvar
            why = ''
        else:
            want = [f'{recvar}.created', f'{recvar}.ttl']
            good = len(rc_.args) == 2
            why = ''
            unode = next(n for n in cfg0.nodes if any(c is rc_ for c in n.calls()))
            for a, w in zip(rc_.args, want):
                if norm(a) == w:
                    continue
                if isinstance(a, ast.Name):
                    # a local snapshot: must be taken from the record after the floor can no longer change it
                    snaps = [n for n in cfg0.nodes if n.kind == 'stmt' and isinstance(n.ast, ast.Assign) and norm(n.ast.targets[0]) == a.id]
                    src_ok = bool(snaps) and all(norm(n.ast.value) == w for n in snaps)
                    stale = any(cfg0.can_reach(sn, fnode) and cfg0.can_reach(fnode, unode) and sn.in_loop == fnode.in_loop for sn in snaps)
                    if not src_ok or stale:
                        good = False
                        why = f'`{a.id}` is a snapshot of {w} taken before the pointer-TTL floor may change it' if stale else f'`{a.id}` is not {w}'
                else:
                    good = False
                    why = f'`{norm(a)}` is not {w}'
        obs.append(ob(R, f, rc_, 'a refresh gives the cached entry the creation time and the (floored) TTL of the record just received', good, why))
    # --- every record that carries the cache-flush bit feeds the flush set, whatever its TTL (a goodbye with the bit set
    # still asserts the rrset; RFC 6762 10.2) -- decision table over (unique, expired)
    uq = set(an['unique'])
    head0 = next(n for n in cfg0.nodes if n.kind == 'for' and n.ast is loop)

    def eff_u(node: Any, evl: Any) -> List[Any]:
        return ['FLUSHSET' for c in fd.node_calls(node, evl) if call_name(c) in ('add', 'append') and isinstance(c.func, ast.Attribute) and isinstance(c.func.value, ast.Name) and c.func.value.id in uq]

    for uniq in (True, False):
        for exp in (True, False):
            ocu, _ = fd.run_paths(ctx.prog, f.module, cfg0, {'.unique': uniq, '.is_expired()': exp, '.ttl': 0 if exp else 120, '.type': 1}, eff_u, start=head0, stop=lambda n: n is head0, loop_bound=1, for_iter=lambda n, e: True)
            got = {('FLUSHSET' in t) for t in ocu}
            obs.append(ob(R, f, f'record with cache-flush bit={uniq}, withdrawn (TTL 0)={exp}', f'its (name, type, class) is {"" if uniq else "not "}put into the flush set', got == {uniq}, f'put into the flush set on {got}'))
    # --- the floor is decided before anything in the iteration takes the record (or its lifetime) anywhere else
    tests = [n for n in cfg0.nodes if n.kind == 'test' and cfg0.dominates(n, fnode) and loop in n.in_loop and any(lab is True and (s is fnode or cfg0.dominates(s, fnode)) for s, lab in n.succ)]
    if not tests:
        raise AnalysisError('anchor vanished: the test guarding the PTR floor')
    guard = tests[-1]
    users = []
    for n in cfg0.nodes:
        if loop not in n.in_loop or n is fnode:
            continue
        for c in n.calls():
            if norm(c.func).startswith(('log.', 'logging.')):
                continue
            takes = any(norm(a) == recvar for a in list(c.args) + [k.value for k in c.keywords])
            if takes or c in refresh:
                users.append((n, c))
    late = [(n, c) for n, c in users if not cfg0.dominates(guard, n)]
    obs.append(ob(R, f, late[0][1] if late else fc, 'the pointer-TTL floor is applied before the record is looked up, copied into the cached entry, paired for listeners or queued for the cache', bool(users) and not late, '; '.join(f'line {c.lineno}: `{norm(c)[:60]}` can run before the floor' for _, c in late[:3])))
    return obs


@rule('C06.FLOORFLUSH', 'D', expect_min=20)
def floorflush(ctx: Any) -> List[Ob]:
    """Pointer-TTL floor and cache-flush mark as decision tables over boundary
    values: a PTR with 0 < ttl < 1125 is raised to exactly 1125 keeping its
    creation time; a flush marks exactly the same-name/type/class records older
    than one second that are not in the datagram, to (now, 1); the flush set is
    fed only by records carrying the unique bit."""
    R = 'C06.FLOORFLUSH'
    prog = ctx.prog
    an = ingest_anatomy(ctx)
    f: FuncInfo = an['f']
    obs: List[Ob] = []
    loop = an['loop']
    # --- floor
    recvar = norm(loop.target)
    floor_calls = [c for c in ast.walk(loop) if isinstance(c, ast.Call) and call_name(c) == 'set_created_ttl' and isinstance(c.func, ast.Attribute) and norm(c.func.value) == recvar]
    if len(floor_calls) != 1:
        return refresh_obligations(ctx, R)  # reports the missing floor as a violation
    fc = floor_calls[0]
    obs.extend(refresh_obligations(ctx, R))
    # ... and the refresh itself stores the received lifetime whatever the two lifetimes are (shared with C05.OWN / C10.CONST)
    from .c05 import reset_ttl_obligations

    obs.extend(reset_ttl_obligations(ctx, R))
    okv, v = prog.try_fold(f.module, fc.args[1]) if len(fc.args) == 2 else (False, None)
    obs.append(ob(R, f, fc, 'the floor sets exactly 1125 s and keeps the creation time', okv and v == 1125 and isinstance(fc.args[0], ast.Attribute) and fc.args[0].attr == 'created', f'ttl arg folds to {v}'))
    cfg = cfg_of(f.node)
    head = next(n for n in cfg.nodes if n.kind == 'for' and n.ast is loop)

    def eff(node: Any, evl: Any) -> List[Any]:
        return ['FLOOR' for c in node.calls() if c is fc]

    for ttl in (0, 1, 1124, 1125, 1126, 4500):
        for typ in (12, 5, 1, 16, 33):
            atoms = {'.ttl': ttl, '.type': typ}
            hit = False
            undecided = False
            for path in cfg.paths(start=head, stop=lambda n: n is head, loop_bound=1):
                if len(path) < 2 or path[0][1] != 'iter':
                    continue
                evl = fd.Evaluator(prog, f.module, atoms)
                feas = True
                got = False
                for node, lab in path[1:-1]:
                    if node.kind == 'test':
                        val = evl.ev(node.ast)
                        if val is fd.UNKNOWN:
                            if any(c is fc for n2, _ in path for c in n2.calls()) and node.line <= fc.lineno:
                                undecided = undecided or (node.ast is not None and any(x is fc for x in []))
                            continue
                        if evl._truth(val) != bool(lab):
                            feas = False
                            break
                    elif node.kind == 'stmt':
                        if eff(node, evl):
                            got = True
                        evl.assign(node.ast)
                if feas and got:
                    hit = True
            want = ttl != 0 and typ == 12 and ttl < 1125
            obs.append(ob(R, f, f'ttl={ttl} type={typ}', f'floor applied iff ttl != 0 and type == PTR and ttl < 1125 (expected {want})', hit == want, f'floor reachable: {hit}'))
    # --- unique_types fed only under the unique bit
    for c in ast.walk(loop):
        if isinstance(c, ast.Call) and call_name(c) == 'add' and isinstance(c.func.value, ast.Name) and c.func.value.id in an['unique']:
            node = next(n for n in cfg.nodes if any(x is c for x in n.calls()))
            doms = [n for n in cfg.nodes if n.kind == 'test' and cfg.dominates(n, node) and isinstance(n.ast, ast.Attribute) and n.ast.attr == 'unique']
            # dominated through the True edge?
            good = False
            for d in doms:
                tsucc = [s for s, lab in d.succ if lab is True]
                good = good or any(cfg.dominates(s, node) or s is node for s in tsucc)
            key = c.args[0] if c.args else None
            shape = isinstance(key, ast.Tuple) and len(key.elts) == 3
            obs.append(ob(R, f, c, 'the flush set is fed only from records with the cache-flush bit, keyed (name, type, class)', good and shape))
    # --- flush mark
    g = prog.func('zeroconf._cache.DNSCache.async_mark_unique_records_older_than_1s_to_expire')
    gcfg = cfg_of(g.node)
    now_param = g.params[3] if len(g.params) > 3 else 'now'
    marks = [c for c in ast.walk(g.node) if isinstance(c, ast.Call) and call_name(c) == 'set_created_ttl']
    from .common import attr_stores as _as

    direct = [(t, st) for t, st in _as(g.node) if t.attr in ('ttl', 'created')]
    if not marks and not direct:
        raise AnalysisError('anchor vanished: the flush mark (no lifetime change in the flush function)')
    mark_nodes_ast: List[ast.AST] = list(marks) + [st for _, st in direct]
    if len(marks) == 1 and not direct:
        mk = marks[0]
        okt, tv = prog.try_fold(g.module, mk.args[1]) if len(mk.args) == 2 else (False, None)
        obs.append(ob(R, g, mk, 'a flushed record is set to expire one second from now: (now, 1)', okt and tv == 1 and norm(mk.args[0]) == now_param))
    else:
        vals = {t.attr: norm(st.value) for t, st in direct if isinstance(st, ast.Assign)}
        okd = not marks and vals.get('created') == now_param and prog.try_fold(g.module, next((st.value for t, st in direct if t.attr == 'ttl' and isinstance(st, ast.Assign)), ast.Constant(None))) == (True, 1)
        obs.append(ob(R, g, mark_nodes_ast[0], 'a flushed record is set to expire one second from now: (now, 1)', okd, f'lifetime written as {vals}; the creation time must become the flush time, else the record is already expired when marked'))

    def eff_m(node: Any, evl: Any) -> List[Any]:
        if any(c is m_ for c in node.calls() for m_ in marks):
            return ['MARK']
        if node.kind == 'stmt' and any(node.ast is st for _, st in direct):
            return ['MARK']
        return []

    for age in (0, 999, 1000, 1001, 5000):
        for in_answers in (False, True):
            for lapsing in (False, True):
                # `lapsing`: the record runs out within the coming second anyway, or already has and waits for the purge
                atoms = {now_param: 100000, '.created': 100000 - age, '.is_expired()': lapsing, '.get_expiration_time()': 100500 if lapsing else 150000, '.get_remaining_ttl()': 0 if lapsing else 50}
                # membership test of the record in the datagram's answers
                for n in ast.walk(g.node):
                    if isinstance(n, ast.Compare) and isinstance(n.ops[0], (ast.In, ast.NotIn)):
                        atoms[norm(n)] = (in_answers if isinstance(n.ops[0], ast.In) else not in_answers)
                # every loop runs once (one flush key, one cached record of it): the mark is decided by the record alone -- a path
                # that skips a record which is due (a fast path on how many records the name has, say) leaves it its full TTL
                oc, und_m = traces(ctx, g, atoms, eff_m, loop_bound=1, for_iter=lambda n, e: True)
                hit = any('MARK' in t for t in oc)
                hit_all = bool(oc) and all('MARK' in t for t in oc)
                want = age > 1000 and not in_answers and not lapsing
                obs.append(ob(R, g, f'age={age}ms in_datagram={in_answers} {"runs out within the second" if lapsing else "more than a second to live"}', f'marked iff older than 1000 ms, not repeated in the datagram and not running out within the second anyway (expected {want}): the mark only ever shortens a lifetime', (hit_all if want else not hit), f'mark reachable: {hit}, on every path: {hit_all}; tests the record does not decide: {und_m}' + ('; a record whose TTL has elapsed (not purged yet) gets a new lease of one second from every flush' if hit and lapsing else '')))
    # `runs out within the second anyway` is asked of the record for the moment the mark would take effect: now + 1000 ms
    from sa import lf as _lf

    laps = [c for c in ast.walk(g.node) if isinstance(c, ast.Call) and call_name(c) in ('is_expired', 'get_expiration_time', 'get_remaining_ttl') and c.args]
    for c in laps:
        if call_name(c) != 'is_expired':
            continue
        try:
            pl_ = _lf.poly(prog, g.module, c.args[0], lambda x: 'now' if isinstance(x, ast.Name) and x.id == now_param else None)
            okl_ = pl_ == _lf.parse_poly('now + 1000')
            whyl_ = _lf.p_str(pl_)
        except _lf.NotLinear as ex_:
            okl_, whyl_ = False, str(ex_)
        obs.append(ob(R, g, c, 'the test that spares a record which lapses anyway looks one second ahead (now + 1000 ms), the moment the mark would expire it', okl_, whyl_))
    # the records considered are those of the same name, type and class
    sel = [c for c in ast.walk(g.node) if isinstance(c, ast.Call) and call_name(c) == 'async_all_by_details']
    loops = [n for n in ast.walk(g.node) if isinstance(n, ast.For)]
    ok_sel = False
    for lp in loops:
        if isinstance(lp.target, ast.Tuple) and len(lp.target.elts) == 3:
            names = [norm(e) for e in lp.target.elts]
            ok_sel = any([norm(a) for a in c.args] == names for c in sel)
    obs.append(ob(R, g, 'self.async_all_by_details(name, type_, class_)', 'the flush considers exactly the cached records of the same name, type and class', ok_sel))
    # ... and that selector takes a record iff BOTH its type and its class are the ones asked for (decision table)
    from .c05 import _element_selection

    sel_f = prog.func('zeroconf._cache.DNSCache.async_all_by_details')
    p_t, p_c = sel_f.params[2], sel_f.params[3]

    def eff_sel(node: Any, evl: Any) -> List[Any]:
        return ['TAKE' for c in fd.node_calls(node, evl) if call_name(c) in ('append', 'add')] + (['TAKE'] if node.kind == 'stmt' and isinstance(node.ast, ast.Expr) and isinstance(node.ast.value, (ast.Yield,)) else [])

    for same_t in (True, False):
        for same_c in (True, False):
            # the element-selection reading of C05.LOOKUPS (a loop that appends, a comprehension, a generator)
            took, _rets, unds = _element_selection(ctx, sel_f, {p_t: 1, p_c: 1, '.type': 1 if same_t else 28, '.class_': 1 if same_c else 255, '.get()': {'r': 'r'}})
            obs.append(ob(R, sel_f, f'cached record: type {"equal" if same_t else "different"}, class {"equal" if same_c else "different"}', f'it is {"selected" if same_t and same_c else "not selected"} for the flush', took == {same_t and same_c} and not unds, f'selected on {took}; undecided {unds}'))
    # the selector looks the name up under the SAME folding the records were stored under (the lower-cased key): the key
    # obligations of C05.KEYS for the cache methods the flush reaches
    from .c05 import cache_methods_reached, keys as _c05_keys

    reached = cache_methods_reached(ctx, [g])
    for o in _c05_keys.fn(ctx):
        if str(o.function) in reached or str(o.function) == g.qual:
            o.rule = R
            obs.append(o)
    # `cached with ... the received TTL`: nothing between the wire and the record rewrites the TTL, the class or the type
    from .c01 import frame_locals_obligations

    obs.extend(frame_locals_obligations(ctx, R))
    return obs


EXPLANATION = (
    'C06.ORDER (decided): the ingestion function is split at its record loop; every loop path is checked for update/add/remove '
    'pairing and absence of cache mutation, then the post-loop effect sequence is evaluated for every consistent combination of '
    'empty/non-empty collections (finite-domain path evaluation) against MARK? (NOTIFY (ADD_ADDR ADD_OTHER)? REMOVE? COMPLETE)?. '
    'C06.SNAPSHOT/DEDUP (decided): listener loops iterate copies; removals are a set. C06.FLOORFLUSH (decided): PTR floor and '
    'flush mark as decision tables over boundary values with folded constants. Not decided: the contract over all datagram x cache '
    'value combinations [X] -- the rules decide the code-shape clauses that make it hold for every datagram.'
)
EXPLANATION_ADDENDUM = (
    ' C06.ORDER / C06.SNAPSHOT recognise a listener phase inlined as a loop over the listeners and require the completion snapshot to be taken after the first phase; C06.FLOORFLUSH also decides the flush-set table over (cache-flush bit, TTL 0) and that the floor precedes every use of the record.'
)
EXPLANATION = EXPLANATION + EXPLANATION_ADDENDUM

RULES = [order, snapshot, dedup, floorflush]

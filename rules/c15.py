"""C15 -- a running instance survives any datagram stream."""
from __future__ import annotations

import ast
from typing import Any, Callable, Dict, List, Optional, Set, Tuple

from sa import AnalysisError
from sa.cf import cfg_of
from sa.ex import MayRaise
from sa.pm import FuncInfo, call_name, norm, self_attr, walk_local_ordered
from sa.report import Ob, rule

from .c02 import depth_guard, region
from .common import attr_stores, ob, receiver_classes

LISTENER = 'zeroconf._listener.AsyncListener'
PROTOCOL_METHODS = ('datagram_received', 'error_received', 'connection_made', 'connection_lost')
REC = 'zeroconf._dns.DNSRecord'
INFO = 'zeroconf._services.info.ServiceInfo'


def entry_points(ctx: Any) -> List[FuncInfo]:
    lst = ctx.prog.cls(LISTENER)
    roots: List[FuncInfo] = []
    for m in PROTOCOL_METHODS:
        if m not in lst.methods:
            raise AnalysisError(f'anchor vanished: AsyncListener.{m}')
        roots.append(lst.methods[m])
    for d in ctx.cg.deferred:
        if d.api in ('call_at', 'call_later', 'call_soon'):
            for t in d.targets:
                if t not in roots:
                    roots.append(t)
    return roots


def run_ex(ctx: Any, roots: List[FuncInfo]) -> MayRaise:
    _, reg = region(ctx)
    rs = {f.full for f in reg}
    mr = MayRaise(ctx, lambda f: f.full in rs, recursion_guard=lambda f, c: depth_guard(ctx, f, c)[0])
    mr.analyse(roots)
    return mr


# ------------------------------------------------------------ side conditions
def sc_abstract_record(ctx: Any) -> Tuple[bool, str]:
    """DNSRecord itself is never instantiated in the package and every record class overrides write and __eq__."""
    prog = ctx.prog
    rec = prog.cls(REC)
    subs = rec.all_subclasses()
    missing = [f'{c.name}.{m}' for c in subs for m in ('write', '__eq__') if c.find_method(m) is rec.methods.get(m)]
    inst = []
    for ss in ctx.cg.sites.values():
        for s in ss:
            if any(t.full == REC + '.__init__' for t in s.targets) and call_name(s.node) in ('DNSRecord', '_DNSRecord', 'DNSRecord_'):
                inst.append(f'{s.caller.where()}:{s.line}')
    ok = not missing and not inst and len(subs) >= 6
    return ok, (f'{len(subs)} record classes override write/__eq__; DNSRecord( is never instantiated' if ok else f'not overridden: {missing}; instantiated at: {inst}')


def sc_update_record(ctx: Any) -> Tuple[bool, str]:
    """No library listener inherits the base async_update_records that calls the raising update_record."""
    prog = ctx.prog
    base = prog.cls('zeroconf._updates.RecordUpdateListener')
    bad = [c.name for c in base.all_subclasses() if c.find_method('async_update_records') is base.methods['async_update_records']]
    return (not bad, f'{len(base.all_subclasses())} library listener classes all override async_update_records (user subclasses: assumption A5)' if not bad else f'inherit the raising shim: {bad}')


def sc_loop_set(ctx: Any) -> Tuple[bool, str]:
    """The event loop references read by the asserting sites are set before any endpoint or timer exists."""
    prog = ctx.prog
    eng = prog.cls('zeroconf._engine.AsyncEngine')
    setup = eng.methods.get('setup')
    if setup is None:
        return False, 'AsyncEngine.setup vanished'
    p_loop = setup.params[1]
    ann = setup.node.args.args[1].annotation
    if ann is None or 'Optional' in norm(ann) or 'None' in norm(ann):
        return False, 'AsyncEngine.setup accepts an Optional loop'
    # setup stores its (non-None) loop before scheduling anything
    cfg = cfg_of(setup.node)
    store = [n for n in cfg.nodes if n.kind == 'stmt' and any(self_attr(t, setup.params[0]) == 'loop' and isinstance(s, ast.Assign) and norm(s.value) == p_loop for t, s in attr_stores(n.ast))]
    sched = [n for n in cfg.nodes if any(call_name(c) in ('create_task', 'ensure_future', 'call_soon', 'call_at', 'call_later') for c in n.calls())]
    if not store or not all(cfg.dominated_by_any(s, store) for s in sched):
        return False, 'AsyncEngine.setup schedules work before storing its loop'
    # every caller passes a value the type oracle has narrowed to non-None, and that value is Zeroconf.loop
    problems = []
    for s in ctx.cg.callers_of(setup):
        a = s.node.args[0] if s.node.args else None
        td = ctx.ty.type_of(s.caller.module.name, a) if a is not None else None
        if td is None or td[0] != 'inst':
            problems.append(f'{s.caller.where()}:{s.line} passes `{norm(a) if a is not None else "?"}` of type {td}')
        if a is None or not (isinstance(a, ast.Attribute) and a.attr == 'loop'):
            problems.append(f'{s.caller.where()}:{s.line} does not pass the instance\'s own loop')
    # Zeroconf.loop / AsyncEngine.loop are never reset to None after construction
    for f in prog.functions.values():
        for t, st in attr_stores(f.node):
            if t.attr != 'loop' or not isinstance(st, (ast.Assign, ast.AnnAssign)):
                continue
            rc = receiver_classes(ctx, f, t.value)
            if not ({'zeroconf._core.Zeroconf', 'zeroconf._engine.AsyncEngine'} & set(rc)):
                continue
            if isinstance(st.value, ast.Constant) and st.value.value is None and f.name != '__init__':
                problems.append(f'{f.where()}: `{norm(st)}` clears the loop')
    n = len(ctx.cg.callers_of(setup))
    return (not problems and n > 0, f'{n} call(s) of AsyncEngine.setup pass the instance loop narrowed to non-None; the loop is never cleared' if not problems else '; '.join(problems))


def sc_server_set(ctx: Any) -> Tuple[bool, str]:
    """A registered service always has a server: server and server_key are written together and the registry rejects a missing server_key before inserting."""
    prog = ctx.prog
    info = prog.cls(INFO)
    problems = []
    for f in info.methods.values():
        me = f.params[0] if f.params else 'self'
        w = {t.attr for t, s in attr_stores(f.node) if self_attr(t, me) in ('server', 'server_key')}
        if w and w != {'server', 'server_key'}:
            problems.append(f'{f.qual} writes only {sorted(w)}')
    add = prog.func('zeroconf._services.registry.ServiceRegistry._add')
    cfg = cfg_of(add.node)
    ins = [n for n in cfg.nodes if n.kind == 'stmt' and isinstance(n.ast, ast.Assign) and isinstance(n.ast.targets[0], ast.Subscript) and self_attr(n.ast.targets[0].value, add.params[0]) == '_services']
    guards = [n for n in cfg.nodes if n.kind == 'stmt' and isinstance(n.ast, ast.Assert) and 'server_key is not None' in norm(n.ast.test)]
    guards += [n for n in cfg.nodes if n.kind == 'test' and 'server_key is None' in norm(n.ast)]
    if not ins or not all(cfg.dominated_by_any(i, guards) for i in ins):
        problems.append('ServiceRegistry._add inserts without rejecting a missing server_key')
    # couples nullness: wherever both are stored from a conditional, the conditions agree
    init = info.methods['__init__']
    conds = {}
    for t, s in attr_stores(init.node):
        if self_attr(t, init.params[0]) in ('server', 'server_key') and isinstance(s, ast.Assign) and isinstance(s.value, ast.IfExp):
            conds[t.attr] = norm(s.value.test)
    if len(set(conds.values())) > 1:
        problems.append(f'constructor sets server / server_key under different conditions {conds}')
    return (not problems, 'server and server_key are written together in every ServiceInfo method; _add rejects server_key None before inserting' if not problems else '; '.join(problems))


def sc_nsec(ctx: Any) -> Tuple[bool, str]:
    """Every NSEC record that can reach the encoder is built by ServiceInfo._dns_nsec from a non-empty subset of {A, AAAA}; decoded NSEC records never reach an encoder."""
    prog = ctx.prog
    problems = []
    ctor_sites = []
    for ss in ctx.cg.sites.values():
        for s in ss:
            if any(t.full == 'zeroconf._dns.DNSNsec.__init__' for t in s.targets) and call_name(s.node) == 'DNSNsec':
                ctor_sites.append(s)
    allowed = {INFO + '._dns_nsec', 'zeroconf._protocol.incoming.DNSIncoming._read_record'}
    for s in ctor_sites:
        if s.caller.full not in allowed:
            problems.append(f'DNSNsec built at {s.caller.where()}:{s.line}')
    nsec = prog.func(INFO + '._dns_nsec')
    addr_types = prog.const('zeroconf.const', '_ADDRESS_RECORD_TYPES')
    if set(addr_types) != {1, 28}:
        problems.append(f'_ADDRESS_RECORD_TYPES is {sorted(addr_types)}')
    callers = [s for s in ctx.cg.callers_of(nsec) if s.caller.full != INFO + '.dns_nsec']
    for s in callers:
        f = s.caller
        a = s.node.args[0] if s.node.args else None
        src = a.args[0] if isinstance(a, ast.Call) and norm(a.func) == 'list' and a.args else a
        if not isinstance(src, ast.Name):
            problems.append(f'{f.where()}:{s.line} passes `{norm(a) if a is not None else "?"}`')
            continue
        defs = [st.value for st in walk_local_ordered(f.node) if isinstance(st, (ast.Assign, ast.AnnAssign)) and st.value is not None and any(isinstance(t, ast.Name) and t.id == src.id for t in (st.targets if isinstance(st, ast.Assign) else [st.target]))]
        from_addr = bool(defs) and all(
            (isinstance(d, ast.BinOp) and isinstance(d.op, ast.Sub) and prog.try_fold(f.module, d.left) == (True, addr_types))
            or (isinstance(d, ast.Call) and isinstance(d.func, ast.Attribute) and d.func.attr == 'copy' and prog.try_fold(f.module, d.func.value) == (True, addr_types))
            for d in defs
        )
        grows = [c for c in walk_local_ordered(f.node) if isinstance(c, ast.Call) and isinstance(c.func, ast.Attribute) and norm(c.func.value) == src.id and c.func.attr in ('add', 'update', 'append', 'extend')]
        cfg = cfg_of(f.node)
        node = next(n for n in cfg.nodes if any(c is s.node for c in n.calls()))
        guarded = False
        for t in cfg.nodes:
            if t.kind == 'test' and cfg.dominates(t, node):
                e = t.ast
                nonempty = (isinstance(e, ast.Name) and e.id == src.id) or (isinstance(e, ast.Compare) and isinstance(e.ops[0], ast.In) and norm(e.comparators[0]) == src.id)
                if nonempty and any(cfg.dominates(x, node) or x is node for x, lab in t.succ if lab is True):
                    guarded = True
        if not (from_addr and not grows and guarded):
            problems.append(f'{f.where()}:{s.line} `{norm(s.node)}`: missing types not a guarded non-empty subset of {{A, AAAA}}')
    # public dns_nsec() wrapper is user API (A5); internal callers counted above
    # decoded records reach the encoder only as known answers, which are selected by constant non-NSEC types
    for nm in ('get_all_by_details', 'async_all_by_details'):
        g = prog.func('zeroconf._cache.DNSCache.' + nm)
        for s in ctx.cg.callers_of(g):
            if s.caller.module.name == 'zeroconf._cache':
                continue
            ok_t, why = _type_arg_not_nsec(ctx, s.caller, s.node.args[1] if len(s.node.args) > 1 else None)
            if not ok_t:
                problems.append(f'{s.caller.where()}:{s.line} cache lookup by type may select NSEC records: {why}')
    return (not problems, f'{len(ctor_sites)} DNSNsec construction sites (builder + decoder); {len(callers)} internal builder call(s) pass a guarded non-empty subset of {{A, AAAA}}; cache lookups that feed queries use constant non-NSEC types' if not problems else '; '.join(problems))


def _type_arg_not_nsec(ctx: Any, f: FuncInfo, a: Optional[ast.AST], depth: int = 0) -> Tuple[bool, str]:
    if a is None or depth > 3:
        return False, 'type argument not found'
    okc, v = ctx.prog.try_fold(f.module, a)
    if okc and not (isinstance(a, ast.Name) and a.id in f.params):
        return (v != 47, f'type {v}')
    if isinstance(a, ast.Name) and a.id in f.params:
        idx = f.params.index(a.id) - (1 if f.cls is not None else 0)
        sites = ctx.cg.callers_of(f)
        if not sites:
            return False, f'{f.qual} has no internal caller'
        for s in sites:
            arg = s.node.args[idx] if idx < len(s.node.args) else None
            ok, why = _type_arg_not_nsec(ctx, s.caller, arg, depth + 1)
            if not ok:
                return False, why
        return True, 'constant at every call site'
    return False, f'`{norm(a)}` is not a constant'


RESIDUAL: List[Tuple[str, str, Callable[[Any], Tuple[bool, str]]]] = [
    ('DNSRecord.write', 'AbstractMethodException', sc_abstract_record),
    ('DNSRecord.__eq__', 'AbstractMethodException', sc_abstract_record),
    ('DNSNsec.write', 'ValueError', sc_nsec),
    ('RecordUpdateListener.update_record', 'RuntimeError', sc_update_record),
    ('AsyncListener.handle_query_or_defer', 'AssertionError', sc_loop_set),
    ('AsyncEngine._async_schedule_next_cache_cleanup', 'AssertionError', sc_loop_set),
    ('MulticastOutgoingQueue.async_add', 'AssertionError', sc_loop_set),
    ('MulticastOutgoingQueue.async_ready', 'AssertionError', sc_loop_set),
    ('QueryHandler._add_address_answers', 'AssertionError', sc_server_set),
    ('ServiceInfo._get_address_and_nsec_records', 'AssertionError', sc_server_set),
]


@rule('C15.ESCAPE', 'N', expect_min=10)
def escape(ctx: Any) -> List[Ob]:
    """Exception containment at the datagram-driven event-loop entry points (the
    protocol methods of the listener and every function handed to a loop timer):
    the may-raise set of each -- every explicit raise and run-time assert in the
    package, plus the implicit catalogue inside the decoder -- must be empty,
    except for residual sites whose side condition (checked on every run) shows
    the raise unreachable."""
    R = 'C15.ESCAPE'
    roots = entry_points(ctx)
    ctx.counters['event_loop_entry_points'] = [r.qual for r in roots]
    if len(roots) < 8:
        raise AnalysisError(f'only {len(roots)} event-loop entry points discovered (10 confirmed by hand)')
    mr = run_ex(ctx, roots)
    ctx.counters['may_raise'] = mr.stats()
    obs: List[Ob] = []
    sc_cache: Dict[Any, Tuple[bool, str]] = {}
    seen_sites: Dict[Tuple[str, str, int], List[str]] = {}
    for r in roots:
        esc = mr.escaping(r)
        if not esc:
            obs.append(ob(R, r, f'{r.qual} (entry point)', 'no exception escapes into the event loop', True))
        for key, o in esc.items():
            seen_sites.setdefault(key, []).append(r.qual)
    for (k, where, line), entries in sorted(seen_sites.items()):
        # one obligation per escaping raise site
        o = None
        for r in roots:
            if (k, where, line) in mr.escaping(r):
                o = mr.escaping(r)[(k, where, line)]
                root = r
                break
        assert o is not None
        origin_fn = where.split('::')[-1]
        short = k.split('.')[-1]
        row = next((x for x in RESIDUAL if x[0] == origin_fn and x[1] == short), None)
        file = where.split('::')[0]
        if row is None:
            obs.append(ob(R, (file, origin_fn), o.text, f'{short} raised here can escape into the event loop through {entries}', False, 'not contained and not in the residual table', o.describe()))
            continue
        if row[2] not in sc_cache:
            sc_cache[row[2]] = row[2](ctx)
        ok, why = sc_cache[row[2]]
        obs.append(ob(R, (file, origin_fn), o.text, f'residual site ({short}): unreachable under its side condition -- {row[2].__doc__}', ok, why, None if ok else o.describe()))
    return obs


@rule('C15.GUARD', 'D', expect_min=3)
def guard(ctx: Any) -> List[Ob]:
    """Datagrams over 8966 bytes are ignored (same rule as C02.GUARD)."""
    from .c02 import guard as g

    out = g.fn(ctx)
    for o in out:
        o.rule = 'C15.GUARD'
    return out


EXPLANATION = (
    'C15.ESCAPE (necessary condition): may-raise analysis (explicit raises and run-time asserts package-wide, full implicit '
    'catalogue inside the decoder region) from the datagram-driven event-loop entry points -- the four protocol methods of the '
    'listener and every callback handed to call_at/call_later/call_soon. Each escaping raise site must be contained by a handler '
    'or be a residual site whose side condition is re-checked on every run (abstract record never instantiated; NSEC records built '
    'only from non-empty subsets of {A, AAAA}; loops set before endpoints exist; registered services always have a server). '
    'C15.GUARD (decided): the 8966-byte gate. Not decided: "keeps working afterwards" beyond exception containment, and implicit '
    'exceptions outside the decoder region [X].'
)
RULES = [escape, guard]

"""C15 -- a running instance survives any datagram stream."""
from __future__ import annotations

import ast
from typing import Any, Callable, Dict, List, Optional, Set, Tuple

from sa import AnalysisError
from sa.cf import cfg_of
from sa.ex import MayRaise
from sa.pm import FuncInfo, call_name, norm, self_attr, walk_local_ordered
from sa.report import Ob, rule

from .c02 import depth_guard, region
from .common import local_defs, attr_stores, ob, receiver_classes, structurally_non_none, traces

LISTENER = 'zeroconf._listener.AsyncListener'
PROTOCOL_METHODS = ('datagram_received', 'error_received', 'connection_made', 'connection_lost')
REC = 'zeroconf._dns.DNSRecord'
INFO = 'zeroconf._services.info.ServiceInfo'


def entry_points(ctx: Any) -> List[FuncInfo]:
    lst = ctx.prog.cls(LISTENER)
    roots: List[FuncInfo] = []
    for m in PROTOCOL_METHODS:
        if m not in lst.methods:
            raise AnalysisError(f'anchor vanished: AsyncListener.{m}')
        roots.append(lst.methods[m])
    for d in ctx.cg.deferred:
        if d.api in ('call_at', 'call_later', 'call_soon'):
            for t in d.targets:
                if t not in roots:
                    roots.append(t)
    return roots


def run_ex(ctx: Any, roots: List[FuncInfo]) -> MayRaise:
    _, reg = region(ctx)
    rs = {f.full for f in reg}
    mr = MayRaise(ctx, lambda f: f.full in rs, recursion_guard=lambda f, c: depth_guard(ctx, f, c)[0])
    mr.analyse(roots)
    return mr


# ------------------------------------------------------------ side conditions
def sc_abstract_record(ctx: Any) -> Tuple[bool, str]:
    """DNSRecord itself is never instantiated in the package and every record class overrides write and __eq__."""
    prog = ctx.prog
    rec = prog.cls(REC)
    subs = rec.all_subclasses()
    missing = [f'{c.name}.{m}' for c in subs for m in ('write', '__eq__') if c.find_method(m) is rec.methods.get(m)]
    inst = []
    for ss in ctx.cg.sites.values():
        for s in ss:
            if any(t.full == REC + '.__init__' for t in s.targets) and call_name(s.node) in ('DNSRecord', '_DNSRecord', 'DNSRecord_'):
                inst.append(f'{s.caller.where()}:{s.line}')
    ok = not missing and not inst and len(subs) >= 6
    return ok, (f'{len(subs)} record classes override write/__eq__; DNSRecord( is never instantiated' if ok else f'not overridden: {missing}; instantiated at: {inst}')


def sc_update_record(ctx: Any) -> Tuple[bool, str]:
    """No library listener inherits the base async_update_records that calls the raising update_record."""
    prog = ctx.prog
    base = prog.cls('zeroconf._updates.RecordUpdateListener')
    bad = [c.name for c in base.all_subclasses() if c.find_method('async_update_records') is base.methods['async_update_records']]
    return (not bad, f'{len(base.all_subclasses())} library listener classes all override async_update_records (user subclasses: assumption A5)' if not bad else f'inherit the raising shim: {bad}')


def sc_loop_set(ctx: Any) -> Tuple[bool, str]:
    """The event loop references read by the asserting sites are set before any endpoint or timer exists."""
    prog = ctx.prog
    eng = prog.cls('zeroconf._engine.AsyncEngine')
    setup = eng.methods.get('setup')
    if setup is None:
        return False, 'AsyncEngine.setup vanished'
    p_loop = setup.params[1]
    ann = setup.node.args.args[1].annotation
    if ann is None or 'Optional' in norm(ann) or 'None' in norm(ann):
        return False, 'AsyncEngine.setup accepts an Optional loop'
    # setup stores its (non-None) loop before scheduling anything
    cfg = cfg_of(setup.node)
    store = [n for n in cfg.nodes if n.kind == 'stmt' and any(self_attr(t, setup.params[0]) == 'loop' and isinstance(s, ast.Assign) and norm(s.value) == p_loop for t, s in attr_stores(n.ast))]
    sched = [n for n in cfg.nodes if any(call_name(c) in ('create_task', 'ensure_future', 'call_soon', 'call_at', 'call_later') for c in n.calls())]
    if not store or not all(cfg.dominated_by_any(s, store) for s in sched):
        return False, 'AsyncEngine.setup schedules work before storing its loop'
    # every caller passes a value the type oracle has narrowed to non-None, and that value is Zeroconf.loop
    problems = []
    for s in ctx.cg.callers_of(setup):
        a = s.node.args[0] if s.node.args else None
        td = ctx.ty.type_of(s.caller.module.name, a) if a is not None else None
        if td is None or td[0] != 'inst':
            # not narrowed by the type oracle (it reads the source text): accept a dominating truthiness / `is not None`
            # test of the same expression in the (canonical) syntax tree
            narrowed = False
            if a is not None:
                ccfg = cfg_of(s.caller.node)
                host = next((n for n in ccfg.nodes if any(c is s.node for c in n.calls())), None)
                for t in ccfg.nodes:
                    if host is None or t.kind != 'test' or not ccfg.dominates(t, host):
                        continue
                    te = t.ast
                    pos = norm(te) == norm(a) or (isinstance(te, ast.Compare) and len(te.ops) == 1 and isinstance(te.ops[0], ast.IsNot) and norm(te.left) == norm(a) and isinstance(te.comparators[0], ast.Constant) and te.comparators[0].value is None)
                    if pos and all(x is host or ccfg.dominates(x, host) for x, lab in t.succ if lab is True) and any(lab is True for _, lab in t.succ):
                        narrowed = True
            if not narrowed:
                problems.append(f'{s.caller.where()}:{s.line} passes `{norm(a) if a is not None else "?"}` of type {td}')
        if a is None or not (isinstance(a, ast.Attribute) and a.attr == 'loop'):
            problems.append(f'{s.caller.where()}:{s.line} does not pass the instance\'s own loop')
    # Zeroconf.loop / AsyncEngine.loop are never reset to None after construction
    for f in prog.functions.values():
        for t, st in attr_stores(f.node):
            if t.attr != 'loop' or not isinstance(st, (ast.Assign, ast.AnnAssign)):
                continue
            rc = receiver_classes(ctx, f, t.value)
            if not ({'zeroconf._core.Zeroconf', 'zeroconf._engine.AsyncEngine'} & set(rc)):
                continue
            if isinstance(st.value, ast.Constant) and st.value.value is None and f.name != '__init__':
                problems.append(f'{f.where()}: `{norm(st)}` clears the loop')
    n = len(ctx.cg.callers_of(setup))
    return (not problems and n > 0, f'{n} call(s) of AsyncEngine.setup pass the instance loop narrowed to non-None; the loop is never cleared' if not problems else '; '.join(problems))


def sc_server_set(ctx: Any) -> Tuple[bool, str]:
    """A registered service always has a server: server and server_key are written together and the registry rejects a missing server_key before inserting."""
    prog = ctx.prog
    info = prog.cls(INFO)
    problems = []
    for f in info.methods.values():
        me = f.params[0] if f.params else 'self'
        w = {t.attr for t, s in attr_stores(f.node) if self_attr(t, me) in ('server', 'server_key')}
        if w and w != {'server', 'server_key'}:
            problems.append(f'{f.qual} writes only {sorted(w)}')
    add = prog.func('zeroconf._services.registry.ServiceRegistry._add')
    cfg = cfg_of(add.node)
    ins = [n for n in cfg.nodes if n.kind == 'stmt' and isinstance(n.ast, ast.Assign) and isinstance(n.ast.targets[0], ast.Subscript) and self_attr(n.ast.targets[0].value, add.params[0]) == '_services']
    guards = [n for n in cfg.nodes if n.kind == 'stmt' and isinstance(n.ast, ast.Assert) and 'server_key is not None' in norm(n.ast.test)]
    guards += [n for n in cfg.nodes if n.kind == 'test' and 'server_key is None' in norm(n.ast)]
    if not ins or not all(cfg.dominated_by_any(i, guards) for i in ins):
        problems.append('ServiceRegistry._add inserts without rejecting a missing server_key')
    # couples nullness: wherever both are stored from a conditional, the conditions agree
    init = info.methods['__init__']
    conds = {}
    for t, s in attr_stores(init.node):
        if self_attr(t, init.params[0]) in ('server', 'server_key') and isinstance(s, ast.Assign) and isinstance(s.value, ast.IfExp):
            conds[t.attr] = norm(s.value.test)
    if len(set(conds.values())) > 1:
        problems.append(f'constructor sets server / server_key under different conditions {conds}')
    # ... decided along the paths of the constructor too (a conditional store spelled as `if` / `else`): for a host that is
    # given, empty or absent, the two fields are None together or set together
    p_srv = next((p_ for p_ in init.params if p_ == 'server'), None)
    if p_srv is not None:
        ime = init.params[0]
        for sv in ('Host.local.', '', None):
            seen_n: Dict[str, Set[bool]] = {}

            def eff_n(node: Any, evl: Any, seen_n: Dict[str, Set[bool]] = seen_n) -> List[Any]:
                if node.kind == 'stmt':
                    for t_, s_ in attr_stores(node.ast):
                        if self_attr(t_, ime) in ('server', 'server_key') and isinstance(s_, ast.Assign):
                            v_ = evl.ev(s_.value)
                            seen_n.setdefault(t_.attr, set()).add(v_ is None)
                return []

            traces(ctx, init, {p_srv: sv}, eff_n, loop_bound=1)
            if len(seen_n) == 2 and (len(seen_n['server']) != 1 or seen_n['server'] != seen_n['server_key']):
                problems.append(f'constructor called with server={sv!r}: server is None on {sorted(seen_n["server"])}, server_key is None on {sorted(seen_n["server_key"])}')
    return (not problems, 'server and server_key are written together in every ServiceInfo method; _add rejects server_key None before inserting' if not problems else '; '.join(problems))


def sc_nsec(ctx: Any) -> Tuple[bool, str]:
    """Every NSEC record that can reach the encoder is built by ServiceInfo._dns_nsec from a non-empty subset of {A, AAAA}; decoded NSEC records never reach an encoder."""
    prog = ctx.prog
    problems = []
    ctor_sites = []
    for ss in ctx.cg.sites.values():
        for s in ss:
            if any(t.full == 'zeroconf._dns.DNSNsec.__init__' for t in s.targets) and call_name(s.node) == 'DNSNsec':
                ctor_sites.append(s)
    allowed = {INFO + '._dns_nsec', 'zeroconf._protocol.incoming.DNSIncoming._read_record'}
    for s in ctor_sites:
        if s.caller.full not in allowed:
            problems.append(f'DNSNsec built at {s.caller.where()}:{s.line}')
    nsec = prog.func(INFO + '._dns_nsec')
    addr_types = prog.const('zeroconf.const', '_ADDRESS_RECORD_TYPES')
    if set(addr_types) != {1, 28}:
        problems.append(f'_ADDRESS_RECORD_TYPES is {sorted(addr_types)}')
    callers = [s for s in ctx.cg.callers_of(nsec) if s.caller.full != INFO + '.dns_nsec']
    for s in callers:
        f = s.caller
        a = s.node.args[0] if s.node.args else None
        src = a.args[0] if isinstance(a, ast.Call) and norm(a.func) == 'list' and a.args else a
        if not isinstance(src, ast.Name):
            problems.append(f'{f.where()}:{s.line} passes `{norm(a) if a is not None else "?"}`')
            continue
        defs = [st.value for st in walk_local_ordered(f.node) if isinstance(st, (ast.Assign, ast.AnnAssign)) and st.value is not None and any(isinstance(t, ast.Name) and t.id == src.id for t in (st.targets if isinstance(st, ast.Assign) else [st.target]))]
        from_addr = bool(defs) and all(
            (isinstance(d, ast.BinOp) and isinstance(d.op, ast.Sub) and prog.try_fold(f.module, d.left) == (True, addr_types))
            or (isinstance(d, ast.Call) and isinstance(d.func, ast.Attribute) and d.func.attr == 'copy' and prog.try_fold(f.module, d.func.value) == (True, addr_types))
            for d in defs
        )
        grows = [c for c in walk_local_ordered(f.node) if isinstance(c, ast.Call) and isinstance(c.func, ast.Attribute) and norm(c.func.value) == src.id and c.func.attr in ('add', 'update', 'append', 'extend')]
        cfg = cfg_of(f.node)
        node = next(n for n in cfg.nodes if any(c is s.node for c in n.calls()))
        guarded = False
        for t in cfg.nodes:
            if t.kind == 'test' and cfg.dominates(t, node):
                e = t.ast
                nonempty = (isinstance(e, ast.Name) and e.id == src.id) or (isinstance(e, ast.Compare) and isinstance(e.ops[0], ast.In) and norm(e.comparators[0]) == src.id)
                if nonempty and any(cfg.dominates(x, node) or x is node for x, lab in t.succ if lab is True):
                    guarded = True
        if not (from_addr and not grows and guarded):
            problems.append(f'{f.where()}:{s.line} `{norm(s.node)}`: missing types not a guarded non-empty subset of {{A, AAAA}}')
    # public dns_nsec() wrapper is user API (A5); internal callers counted above
    # decoded records reach the encoder only as known answers, which are selected by constant non-NSEC types
    for nm in ('get_all_by_details', 'async_all_by_details'):
        g = prog.func('zeroconf._cache.DNSCache.' + nm)
        for s in ctx.cg.callers_of(g):
            if s.caller.module.name == 'zeroconf._cache':
                continue
            ok_t, why = _type_arg_not_nsec(ctx, s.caller, s.node.args[1] if len(s.node.args) > 1 else None)
            if not ok_t:
                problems.append(f'{s.caller.where()}:{s.line} cache lookup by type may select NSEC records: {why}')
    return (not problems, f'{len(ctor_sites)} DNSNsec construction sites (builder + decoder); {len(callers)} internal builder call(s) pass a guarded non-empty subset of {{A, AAAA}}; cache lookups that feed queries use constant non-NSEC types' if not problems else '; '.join(problems))


def _type_arg_not_nsec(ctx: Any, f: FuncInfo, a: Optional[ast.AST], depth: int = 0) -> Tuple[bool, str]:
    if a is None or depth > 3:
        return False, 'type argument not found'
    okc, v = ctx.prog.try_fold(f.module, a)
    if okc and not (isinstance(a, ast.Name) and a.id in f.params):
        return (v != 47, f'type {v}')
    if isinstance(a, ast.Name) and a.id in f.params:
        idx = f.params.index(a.id) - (1 if f.cls is not None else 0)
        sites = ctx.cg.callers_of(f)
        if not sites:
            return False, f'{f.qual} has no internal caller'
        for s in sites:
            arg = s.node.args[idx] if idx < len(s.node.args) else None
            ok, why = _type_arg_not_nsec(ctx, s.caller, arg, depth + 1)
            if not ok:
                return False, why
        return True, 'constant at every call site'
    if isinstance(a, ast.Name):
        # a loop variable over a literal tuple / list of constants stands for each of them
        loops = [lp for lp in walk_local_ordered(f.node) if isinstance(lp, (ast.For, ast.comprehension)) and isinstance(lp.target, ast.Name) and lp.target.id == a.id]
        stores = [x for x in walk_local_ordered(f.node) if isinstance(x, ast.Name) and x.id == a.id and isinstance(x.ctx, ast.Store)]
        if loops and len(stores) == len(loops) and all(isinstance(lp.iter, (ast.Tuple, ast.List)) and lp.iter.elts for lp in loops):
            for lp in loops:
                for el in lp.iter.elts:
                    ok, why = _type_arg_not_nsec(ctx, f, el, depth + 1)
                    if not ok:
                        return False, why
            return True, 'loop variable over constants'
    return False, f'`{norm(a)}` is not a constant'


RESIDUAL: List[Tuple[str, str, Callable[[Any], Tuple[bool, str]]]] = [
    ('DNSRecord.write', 'AbstractMethodException', sc_abstract_record),
    ('DNSRecord.__eq__', 'AbstractMethodException', sc_abstract_record),
    ('DNSNsec.write', 'ValueError', sc_nsec),
    ('RecordUpdateListener.update_record', 'RuntimeError', sc_update_record),
    ('AsyncListener.handle_query_or_defer', 'AssertionError', sc_loop_set),
    ('AsyncEngine._async_schedule_next_cache_cleanup', 'AssertionError', sc_loop_set),
    ('MulticastOutgoingQueue.async_add', 'AssertionError', sc_loop_set),
    ('MulticastOutgoingQueue.async_ready', 'AssertionError', sc_loop_set),
    ('QueryHandler._add_address_answers', 'AssertionError', sc_server_set),
    ('ServiceInfo._get_address_and_nsec_records', 'AssertionError', sc_server_set),
]


def resize_while_iterating(ctx: Any, R: str, funcs: List[FuncInfo]) -> List[Ob]:
    """A collection is not resized while it is being iterated (see the comment in the body)."""
    obs: List[Ob] = []
    # a collection is not resized while it is being iterated: a deque, dict or set raises RuntimeError at the next step of the loop
    # (a list silently skips an element); taking a snapshot first, or leaving the loop right after the change, is the way out
    MUT = {'remove', 'pop', 'popleft', 'popitem', 'append', 'appendleft', 'add', 'discard', 'clear', 'insert', 'extend', 'update', 'setdefault'}
    for f in funcs:
        cfg = None
        for lp in walk_local_ordered(f.node):
            if not isinstance(lp, ast.For):
                continue
            it = lp.iter
            while isinstance(it, ast.Call) and isinstance(it.func, ast.Attribute) and it.func.attr in ('items', 'keys', 'values') and not it.args:
                it = it.func.value
            if not isinstance(it, (ast.Attribute, ast.Name)):
                continue  # a call (list(x), x.copy(), sorted(x), reversed(list(x)) ...) iterates a snapshot
            ctext = norm(it)
            td = ctx.ty.type_of(f.module.name, it)
            names = ctx.ty.inst_names(td) if td else []
            if not any(n_.rsplit('.', 1)[-1] in ('deque', 'dict', 'set', 'list', 'Dict', 'Set', 'List', 'Deque', 'defaultdict', 'OrderedDict') for n_ in names):
                continue
            for x in [y for st_ in lp.body for y in ast.walk(st_)]:
                hit = None
                if isinstance(x, ast.Call) and isinstance(x.func, ast.Attribute) and x.func.attr in MUT and norm(x.func.value) == ctext:
                    hit = x
                if isinstance(x, ast.Delete) and any(isinstance(t, ast.Subscript) and norm(t.value) == ctext for t in x.targets):
                    hit = x
                if hit is None or hit is lp.iter:
                    continue
                if cfg is None:
                    cfg = cfg_of(f.node)
                hn = next((n for n in cfg.nodes if any(y is hit for e in n.exprs() for y in ast.walk(e)) or n.ast is hit), None)
                head = next((n for n in cfg.nodes if n.kind == 'for' and n.ast is lp), None)
                back = hn is not None and head is not None and cfg.path_avoiding(hn, lambda n: n is head, lambda n, lp=lp, head=head: n is not head and lp not in n.in_loop) is not None
                if back:
                    obs.append(ob(R, f, hit, f'`{ctext}` is not resized inside the loop that iterates it (RuntimeError for a deque / dict / set; a list skips an element)', False, f'the loop at line {lp.lineno} goes on iterating `{ctext}` after `{norm(hit)[:60]}`'))
    return obs


@rule('C15.ESCAPE', 'N', expect_min=10)
def escape(ctx: Any) -> List[Ob]:
    """Exception containment at the datagram-driven event-loop entry points (the
    protocol methods of the listener and every function handed to a loop timer):
    the may-raise set of each -- every explicit raise and run-time assert in the
    package, plus the implicit catalogue inside the decoder -- must be empty,
    except for residual sites whose side condition (checked on every run) shows
    the raise unreachable."""
    R = 'C15.ESCAPE'
    roots = entry_points(ctx)
    ctx.counters['event_loop_entry_points'] = [r.qual for r in roots]
    if len(roots) < 8:
        raise AnalysisError(f'only {len(roots)} event-loop entry points discovered (10 confirmed by hand)')
    mr = run_ex(ctx, roots)
    ctx.counters['may_raise'] = mr.stats()
    obs: List[Ob] = []
    sc_cache: Dict[Any, Tuple[bool, str]] = {}
    seen_sites: Dict[Tuple[str, str, int], List[str]] = {}
    for r in roots:
        esc = mr.escaping(r)
        if not esc:
            obs.append(ob(R, r, f'{r.qual} (entry point)', 'no exception escapes into the event loop', True))
        for key, o in esc.items():
            seen_sites.setdefault(key, []).append(r.qual)
    for (k, where, line), entries in sorted(seen_sites.items()):
        # one obligation per escaping raise site
        o = None
        for r in roots:
            if (k, where, line) in mr.escaping(r):
                o = mr.escaping(r)[(k, where, line)]
                root = r
                break
        assert o is not None
        origin_fn = where.split('::')[-1]
        short = k.split('.')[-1]
        row = next((x for x in RESIDUAL if x[0] == origin_fn and x[1] == short), None)
        file = where.split('::')[0]
        if row is None:
            obs.append(ob(R, (file, origin_fn), o.text, f'{short} raised here can escape into the event loop through {entries}', False, 'not contained and not in the residual table', o.describe()))
            continue
        if row[2] not in sc_cache:
            sc_cache[row[2]] = row[2](ctx)
        ok, why = sc_cache[row[2]]
        obs.append(ob(R, (file, origin_fn), o.text, f'residual site ({short}): unreachable under its side condition -- {row[2].__doc__}', ok, why, None if ok else o.describe()))
    # a handler that swallows an exception and falls through must not reach a use of a local that the interrupted statement
    # was about to bind (UnboundLocalError in the event loop): for every local read in a function on the event-loop path, no
    # path that takes an exception edge reaches the read without an assignment of that local having completed
    for f in sorted(ctx.cg.closure(roots), key=lambda x: x.full):
        if not any(isinstance(x, ast.Try) for x in ast.walk(f.node)):
            continue
        cfg = cfg_of(f.node)
        assigned: Dict[str, List[Any]] = {}
        for n in cfg.nodes:
            tg: List[ast.AST] = []
            a = n.ast
            if n.kind == 'stmt' and isinstance(a, (ast.Assign, ast.AnnAssign, ast.AugAssign)):
                tg = list(a.targets) if isinstance(a, ast.Assign) else ([a.target] if getattr(a, 'value', None) is not None or isinstance(a, ast.AugAssign) else [])
            elif n.kind == 'for':
                tg = [a.target]
            elif n.kind == 'with':
                tg = [it.optional_vars for it in a.items if it.optional_vars is not None]
            elif n.kind == 'except' and getattr(a, 'name', None):
                assigned.setdefault(a.name, []).append(n)
            for t in tg:
                for x in ast.walk(t):
                    if isinstance(x, ast.Name):
                        assigned.setdefault(x.id, []).append(n)
        params = set(f.params) | {a_.arg for a_ in f.node.args.kwonlyargs} | ({f.node.args.vararg.arg} if f.node.args.vararg else set()) | ({f.node.args.kwarg.arg} if f.node.args.kwarg else set())
        for var, defs in sorted(assigned.items()):
            if var in params:
                continue
            uses = [n for n in cfg.nodes if n not in defs and any(isinstance(x, ast.Name) and x.id == var and isinstance(x.ctx, ast.Load) for e in n.exprs() for x in ast.walk(e))]
            if not uses:
                continue
            # DFS over (node, took an exception edge): an assigning node kills the path unless it is left by an exception edge
            seen = set()
            todo = [(cfg.entry, False)]
            hit = None
            while todo and hit is None:
                n, exc = todo.pop()
                if (n.id, exc) in seen:
                    continue
                seen.add((n.id, exc))
                if exc and n in uses:
                    hit = n
                    break
                for s2, lab in n.succ:
                    if lab == 'exc':
                        todo.append((s2, True))
                    elif n not in defs:
                        todo.append((s2, exc))
            if hit is not None:
                obs.append(ob(R, f, hit.ast, f'`{var}` is bound on every path that reaches this use (a handler that swallows the exception of the statement binding it must not fall through to the use)', False, f'after an exception is caught, line {hit.line} reads `{var}` although the statement that assigns it did not complete: UnboundLocalError escapes into the event loop'))
    obs.extend(resize_while_iterating(ctx, R, sorted(ctx.cg.closure(roots), key=lambda x: x.full)))
    # resolving a future that is already done or cancelled raises InvalidStateError: every set_result / set_exception reachable
    # from the entry points is reached only through the `not done` edge of a test of that very future (a waiter can be
    # cancelled, or resolved by its time-out, at any moment before the datagram that would wake it)
    for f in sorted(ctx.cg.closure(roots), key=lambda x: x.full):
        cfg = cfg_of(f.node)
        for n in cfg.nodes:
            for c in n.calls():
                if call_name(c) in ('set_result', 'set_exception') and isinstance(c.func, ast.Attribute):
                    fut = norm(c.func.value)
                    guarded = False
                    for t in cfg.nodes:
                        if t.kind != 'test' or t.ast is None:
                            continue
                        e, live = t.ast, False
                        while isinstance(e, ast.UnaryOp) and isinstance(e.op, ast.Not):
                            e, live = e.operand, not live
                        if isinstance(e, ast.Call) and call_name(e) in ('done', 'cancelled') and isinstance(e.func, ast.Attribute) and norm(e.func.value) == fut and call_name(e) == 'done':
                            if cfg.only_through_edge(t, live, n):
                                guarded = True
                    obs.append(ob(R, f, c, f'`{fut}` is resolved only after a test that it is not done yet (else InvalidStateError escapes into the event loop)', guarded, '' if guarded else 'no dominating `not ...done()` test of this future'))
    return obs


@rule('C15.GUARD', 'D', expect_min=3)
def guard(ctx: Any) -> List[Ob]:
    """Datagrams over 8966 bytes are ignored (same rule as C02.GUARD)."""
    from .c02 import guard as g

    out = g.fn(ctx)
    for o in out:
        o.rule = 'C15.GUARD'
    return out


EXPLANATION = (
    'C15.ESCAPE (necessary condition): may-raise analysis (explicit raises and run-time asserts package-wide, full implicit '
    'catalogue inside the decoder region) from the datagram-driven event-loop entry points -- the four protocol methods of the '
    'listener and every callback handed to call_at/call_later/call_soon. Each escaping raise site must be contained by a handler '
    'or be a residual site whose side condition is re-checked on every run (abstract record never instantiated; NSEC records built '
    'only from non-empty subsets of {A, AAAA}; loops set before endpoints exist; registered services always have a server). '
    'C15.GUARD (decided): the 8966-byte gate. Not decided: "keeps working afterwards" beyond exception containment, and implicit '
    'exceptions outside the decoder region [X].'
)
EXPLANATION_ADDENDUM = (
    ' C15.CONTAINERS (necessary): partial operations on stateful containers and on lists that come out of a datagram are guarded. C15.MEMORY (decided): the duplicate memory is rewritten as a whole before any dispatch. C15.OPTIONAL (necessary): no attribute / item is taken from a possibly-None value on the datagram path (type oracle with a structural fallback). C15.ASSEMBLED (necessary): pending deferral timer implies a non-empty deferred list.'
)
EXPLANATION = EXPLANATION + EXPLANATION_ADDENDUM

RULES = [escape, guard]


# ------------------------------------------------------------------ C15.CONTAINERS
PARTIAL_CALLS = {'pop', 'remove', 'popleft', 'popitem', 'index'}
INVARIANTS = {
    # (function qual, container attr): reason, rule that decides the invariant
    ('QueryScheduler._process_ready_types', '_next_scheduled_for_alias'): 'every live heap entry has a schedule-map entry (C10.PAIR: push stores the entry, cancel/supersede flags the heap entry and removes the map entry together)',
    ('ServiceRegistry._async_get_by_index', '_services'): 'names in an index bucket are keys of the service table (C03.INDEX: add/remove maintain the three indexes together)',
    ('_QueryResponse.answers', '_additionals'): 'every record put into an answer bucket was first stored in the additionals table (checked below)',
    ('DNSOutgoing._replace_short', 'data'): 'the index was taken as len(self.data) immediately before the placeholder was appended (C14.ACCOUNT)',
}


def _container_sites(ctx: Any, f: FuncInfo) -> List[Tuple[ast.AST, str, str, ast.AST, Optional[ast.AST]]]:
    """(node, container attr, operation, container expr, key expr) for partial operations on self.<attr> containers (or local aliases)."""
    me = f.params[0] if f.params else 'self'
    out = []
    aliases: Dict[str, str] = {}
    for st in walk_local_ordered(f.node):
        if isinstance(st, ast.Assign) and isinstance(st.targets[0], ast.Name) and self_attr(st.value, me):
            aliases[st.targets[0].id] = st.value.attr

    def attr_of(e: ast.AST) -> Optional[str]:
        a = self_attr(e, me)
        if a:
            return a
        if isinstance(e, ast.Name) and e.id in aliases:
            return aliases[e.id]
        return None

    for n in walk_local_ordered(f.node):
        if isinstance(n, ast.Subscript) and not isinstance(n.slice, ast.Slice) and isinstance(n.ctx, (ast.Load, ast.Del)):
            a = attr_of(n.value)
            if a:
                td = ctx.ty.type_of(f.module.name, n.value)
                tn = td[1] if td and td[0] == 'inst' else ''
                if tn in ('builtins.dict', 'builtins.list', 'collections.deque', 'collections.OrderedDict'):
                    out.append((n, a, 'del' if isinstance(n.ctx, ast.Del) else 'load', n.value, n.slice))
        elif isinstance(n, ast.Call) and isinstance(n.func, ast.Attribute) and n.func.attr in PARTIAL_CALLS:
            a = attr_of(n.func.value)
            if a:
                td = ctx.ty.type_of(f.module.name, n.func.value)
                tn = td[1] if td and td[0] == 'inst' else ''
                if tn in ('builtins.dict', 'builtins.list', 'collections.deque', 'builtins.set') and not (n.func.attr == 'pop' and tn == 'builtins.dict' and len(n.args) >= 2):
                    out.append((n, a, n.func.attr, n.func.value, n.args[0] if n.args else None))
    return out


def _discharged_locally(ctx: Any, f: FuncInfo, node: ast.AST, cont: ast.AST, key: Optional[ast.AST], op: str) -> Tuple[bool, str]:
    cfg = cfg_of(f.node)
    host = next((n for n in cfg.nodes if any(x is node for e in n.exprs() for x in ast.walk(e))), None)
    if host is None:
        return False, 'site not found in the CFG'
    ctext = norm(cont)
    ktext = norm(key) if key is not None else ''
    me = f.params[0] if f.params else 'self'
    cattr = self_attr(cont, me)
    if cattr is None and isinstance(cont, ast.Name):
        d0 = [st.value for st in walk_local_ordered(f.node) if isinstance(st, ast.Assign) and norm(st.targets[0]) == cont.id]
        if len(d0) == 1:
            cattr = self_attr(d0[0], me)

    def same_cont(e: ast.AST) -> bool:
        if norm(e) == ctext:
            return True
        # alias of the same attribute
        if isinstance(e, ast.Name):
            d = [st.value for st in walk_local_ordered(f.node) if isinstance(st, ast.Assign) and norm(st.targets[0]) == e.id]
            return len(d) == 1 and (norm(d[0]) == ctext or (cattr is not None and self_attr(d[0], me) == cattr))
        return cattr is not None and self_attr(e, me) == cattr

    def establishes(t: ast.AST, arm: bool) -> bool:
        """Does test `t` taking `arm` establish that the access is defined?"""
        if isinstance(t, ast.UnaryOp) and isinstance(t.op, ast.Not):
            return establishes(t.operand, not arm)
        if isinstance(t, ast.BoolOp):
            if isinstance(t.op, ast.And) and arm:
                return any(establishes(v, True) for v in t.values)
            if isinstance(t.op, ast.Or) and not arm:
                return any(establishes(v, False) for v in t.values)
            return False
        if isinstance(t, ast.Compare) and len(t.ops) == 1:
            l, o, r = t.left, t.ops[0], t.comparators[0]
            if isinstance(o, ast.In) and same_cont(r) and norm(l) == ktext:
                return arm
            if isinstance(o, ast.NotIn) and same_cont(r) and (norm(l) == ktext or op in ('load', 'remove') and ktext in ('0', '-1')):
                return not arm
            if isinstance(o, ast.In) and same_cont(r) and ktext in ('0', '-1'):
                return arm  # something is in it: it is non-empty
            # len(c) > k / len(c) >= 1 / len(c) != 0
            for a_, b_, flip in ((l, r, False), (r, l, True)):
                if isinstance(a_, ast.Call) and norm(a_.func) == 'len' and a_.args and same_cont(a_.args[0]):
                    okc, kv = ctx.prog.try_fold(f.module, b_)
                    if okc and isinstance(kv, int):
                        oo = type(o)
                        if flip:
                            oo = {ast.Lt: ast.Gt, ast.Gt: ast.Lt, ast.LtE: ast.GtE, ast.GtE: ast.LtE}.get(oo, oo)
                        if oo is ast.Gt and kv >= 0:
                            return arm
                        if oo is ast.GtE and kv >= 1:
                            return arm
                        if oo is ast.NotEq and kv == 0:
                            return arm
                        if oo is ast.Eq and kv == 0:
                            return not arm
                        if oo is ast.Eq and kv >= 1:
                            return arm
                        if oo is ast.NotEq and kv >= 1:
                            return not arm  # `len(c) != 1` is false: exactly one element
                        if oo is ast.Lt and kv <= 1:
                            return not arm  # `len(c) < 1` is false: non-empty
                        if oo is ast.LtE and kv <= 0:
                            return not arm
            # current = c.get(k); current is not None
            for a_, b_ in ((l, r), (r, l)):
                if isinstance(b_, ast.Constant) and b_.value is None and isinstance(a_, ast.Name):
                    d = [st.value for st in walk_local_ordered(f.node) if isinstance(st, ast.Assign) and norm(st.targets[0]) == a_.id]
                    if len(d) == 1 and isinstance(d[0], ast.Call) and call_name(d[0]) == 'get' and same_cont(d[0].func.value) and d[0].args and norm(d[0].args[0]) == ktext:
                        return arm if isinstance(o, ast.IsNot) else (not arm if isinstance(o, ast.Is) else False)
            return False
        if isinstance(t, ast.Call) and norm(t.func) == 'len' and t.args and same_cont(t.args[0]):
            return arm
        if same_cont(t):
            return arm  # truthiness of the container
        if isinstance(t, ast.Name):
            d = [st.value for st in walk_local_ordered(f.node) if isinstance(st, ast.Assign) and norm(st.targets[0]) == t.id]
            if len(d) == 1 and isinstance(d[0], ast.Call) and call_name(d[0]) in ('get', 'pop') and same_cont(d[0].func.value) and d[0].args and norm(d[0].args[0]) == ktext:
                return arm
        return False

    for t in cfg.nodes:
        if t.kind in ('test', 'loop_test') and t is not host and cfg.dominates(t, host):
            for arm in (True, False):
                if establishes(t.ast, arm):
                    arm_nodes = [s for s, lab in t.succ if lab is arm]
                    if arm_nodes and all(s is host or cfg.dominates(s, host) for s in arm_nodes):
                        return True, f'guarded by `{norm(t.ast)[:60]}`'
    # short-circuit inside the expression that contains the access: an earlier operand of an enclosing
    # `and` (true) / `or` (false) / conditional expression guards a later one
    def guarded_within(e: ast.AST) -> bool:
        if e is node:
            return False
        if isinstance(e, ast.BoolOp):
            for i, v in enumerate(e.values):
                if any(x is node for x in ast.walk(v)):
                    want = isinstance(e.op, ast.And)
                    if any(establishes(u, want) for u in e.values[:i]):
                        return True
                    return guarded_within(v)
            return False
        if isinstance(e, ast.IfExp):
            if any(x is node for x in ast.walk(e.body)):
                return establishes(e.test, True) or guarded_within(e.body)
            if any(x is node for x in ast.walk(e.orelse)):
                return establishes(e.test, False) or guarded_within(e.orelse)
            return guarded_within(e.test)
        for c in ast.iter_child_nodes(e):
            if any(x is node for x in ast.walk(c)):
                return guarded_within(c)
        return False

    for e in host.exprs():
        if any(x is node for x in ast.walk(e)) and guarded_within(e):
            return True, 'guarded by an earlier operand of the same condition (short-circuit)'
    for t in []:
        if False:
            pass
    # stored-if-absent just before: a dominating `c.setdefault(k, ...)` with the same key
    for t in cfg.nodes:
        if t is not host and cfg.dominates(t, host) and any(call_name(c_) == 'setdefault' and isinstance(c_.func, ast.Attribute) and same_cont(c_.func.value) and c_.args and norm(c_.args[0]) == ktext for c_ in t.calls()):
            return True, f'`{ktext}` is stored if absent (setdefault) before the access'
    # present-or-stored: `if k not in c: c[k] = ...` before the access (the absent arm stores the key)
    for t in cfg.nodes:
        tt, neg = t.ast, False
        while isinstance(tt, ast.UnaryOp) and isinstance(tt.op, ast.Not):
            tt, neg = tt.operand, not neg
        if t.kind == 'test' and cfg.dominates(t, host) and isinstance(tt, ast.Compare) and len(tt.ops) == 1 and isinstance(tt.ops[0], (ast.In, ast.NotIn)) and same_cont(tt.comparators[0]) and norm(tt.left) == ktext:
            absent_arm = isinstance(tt.ops[0], ast.NotIn) != neg
            starts = [s_ for s_, lab in t.succ if lab is absent_arm]
            stores_k = lambda n: n.kind == 'stmt' and isinstance(n.ast, ast.Assign) and any(isinstance(tg, ast.Subscript) and same_cont(tg.value) and norm(tg.slice) == ktext for tg in n.ast.targets)  # noqa: E731
            if starts and all(stores_k(s_) or cfg.path_avoiding(s_, lambda n: n is host, stores_k, skip_start=False) is None for s_ in starts):
                return True, f'`{norm(t.ast)[:50]}`: the key is stored on the absent arm before the access'
    # the key iterates over the container (or over a list collected from it in this function)
    if key is not None and isinstance(key, ast.Name):
        for lp in walk_local_ordered(f.node):
            if isinstance(lp, (ast.For, ast.comprehension)) and any(isinstance(x, ast.Name) and x.id == key.id for x in ast.walk(lp.target)):
                it = lp.iter
                srcs = [it]
                if isinstance(it, ast.Name):
                    srcs = [st.value for st in walk_local_ordered(f.node) if isinstance(st, (ast.Assign, ast.AnnAssign)) and norm(st.targets[0] if isinstance(st, ast.Assign) else st.target) == it.id and st.value is not None]
                    # a list filled inside a loop over the container
                    for lp2 in walk_local_ordered(f.node):
                        if isinstance(lp2, ast.For) and any(same_cont(x) for x in ast.walk(lp2.iter)) and any(isinstance(c, ast.Call) and call_name(c) == 'append' and norm(c.func.value) == it.id for c in ast.walk(lp2)):
                            return True, f'`{key.id}` comes from a list collected while iterating the container'
                if any(any(same_cont(x) for x in ast.walk(s_)) for s_ in srcs):
                    return True, f'`{key.id}` iterates over the container'
    return False, 'no dominating presence test, and the key does not iterate the container'


_DGRAM_SEQ_ATTRS = ('_questions', 'questions')  # per-packet lists that a valid datagram may leave empty


def datagram_sequence_sinks(ctx: Any, scope: List[FuncInfo]) -> List[Tuple[FuncInfo, ast.AST, ast.AST, Optional[ast.AST], str]]:
    """Partial accesses ([k], pop) to a list that comes out of a datagram (a packet's question list, its answers) after it
    has flowed through locals, parameters (any call site) and instance attributes.  Such a list may be empty for a valid
    datagram (a known-answer continuation packet carries no question), so the access needs a presence test."""
    prog = ctx.prog
    t_params: Set[Tuple[str, str]] = set()
    t_attrs: Set[Tuple[str, str]] = set()

    def tainted(f: FuncInfo, e: ast.AST, depth: int = 3) -> bool:
        me = f.params[0] if f.params and f.cls is not None else None
        if isinstance(e, ast.Attribute) and e.attr in _DGRAM_SEQ_ATTRS and not (me and self_attr(e, me) and (f.cls.full, e.attr) not in t_attrs and not f.cls.full.endswith('DNSIncoming')):
            return True
        if isinstance(e, ast.Attribute) and me and self_attr(e, me) and (f.cls.full, e.attr) in t_attrs:
            return True
        if isinstance(e, ast.Call) and call_name(e) == 'answers' and isinstance(e.func, ast.Attribute) and not e.args:
            td = ctx.ty.type_of(f.module.name, e.func.value)
            return bool(td and td[0] == 'inst' and str(td[1]).endswith('DNSIncoming'))
        if isinstance(e, ast.Name):
            if (f.full, e.id) in t_params:
                return True
            if depth > 0 and e.id not in f.params:
                return any(v is not None and tainted(f, v, depth - 1) for v in local_defs(f).get(e.id, []))
        # a list assembled from such lists can be empty as well: a comprehension whose innermost source is one of them, a copy,
        # a concatenation
        if isinstance(e, (ast.ListComp, ast.SetComp, ast.GeneratorExp)):
            bound = {x.id: g.iter for g in e.generators for x in ast.walk(g.target) if isinstance(x, ast.Name)}

            def src_tainted(it: ast.AST, d: int = 3) -> bool:
                if tainted(f, it, depth):
                    return True
                if d > 0:
                    for x in ast.walk(it):
                        if isinstance(x, ast.Name) and x.id in bound and src_tainted(bound[x.id], d - 1):
                            pass
                    # `for msg in msgs for q in msg._questions`: the inner source is an attribute of an outer loop variable
                    if isinstance(it, ast.Attribute) and it.attr in _DGRAM_SEQ_ATTRS:
                        return True
                return False

            return any(src_tainted(g.iter) for g in e.generators)
        if isinstance(e, ast.Call) and isinstance(e.func, ast.Name) and e.func.id in ('list', 'tuple', 'sorted', 'reversed') and len(e.args) == 1:
            return tainted(f, e.args[0], depth)
        if isinstance(e, ast.BinOp) and isinstance(e.op, ast.Add):
            return tainted(f, e.left, depth) and tainted(f, e.right, depth)
        return False

    changed = True
    rounds = 0
    while changed and rounds < 6:
        changed = False
        rounds += 1
        for f in scope:
            me = f.params[0] if f.params and f.cls is not None else None
            for t, st in attr_stores(f.node):
                if me and self_attr(t, me) and isinstance(st, ast.Assign) and tainted(f, st.value) and (f.cls.full, t.attr) not in t_attrs:
                    t_attrs.add((f.cls.full, t.attr))
                    changed = True
            for cs in ctx.cg.sites_in(f):
                for tg in cs.targets:
                    ps = tg.params[1:] if tg.cls is not None else tg.params
                    for i, a in enumerate(cs.node.args):
                        if i < len(ps) and tainted(f, a) and (tg.full, ps[i]) not in t_params:
                            t_params.add((tg.full, ps[i]))
                            changed = True
                    for k in cs.node.keywords:
                        if k.arg in ps and tainted(f, k.value) and (tg.full, k.arg) not in t_params:
                            t_params.add((tg.full, k.arg))
                            changed = True
    out = []
    for f in scope:
        for n in walk_local_ordered(f.node):
            if isinstance(n, ast.Subscript) and isinstance(n.ctx, ast.Load) and not isinstance(n.slice, ast.Slice) and tainted(f, n.value):
                out.append((f, n, n.value, n.slice, 'load'))
            elif isinstance(n, ast.Call) and isinstance(n.func, ast.Attribute) and n.func.attr in ('pop', 'popleft', 'remove', 'index') and tainted(f, n.func.value):
                out.append((f, n, n.func.value, n.args[0] if n.args else None, n.func.attr))
    ctx.counters['datagram_sequence_flows'] = {'params': sorted(f'{a}:{b}' for a, b in t_params), 'attrs': sorted(f'{a}.{b}' for a, b in t_attrs)}
    return out


@rule('C15.CONTAINERS', 'N', expect_min=10)
def containers(ctx: Any) -> List[Ob]:
    """Stateful containers touched on the event-loop path are accessed totally: every partial
    operation (dict load / del, pop without default, [0] / [-1], remove, popleft) on an instance
    container, in any function reachable from the datagram-driven entry points outside the decoder,
    is dominated by a presence test, or its key iterates the container, or it relies on an invariant
    that another rule decides -- so no KeyError / IndexError can reach the event loop from them."""
    R = 'C15.CONTAINERS'
    roots = entry_points(ctx)
    _, reg = region(ctx)
    decoder = {f.full for f in reg}
    scope = [f for f in ctx.cg.closure(roots) if f.full not in decoder and f.cls is not None]
    obs: List[Ob] = []
    for f in sorted(scope, key=lambda x: x.full):
        for node, attr, op, cont, key in _container_sites(ctx, f):
            inv = INVARIANTS.get((f.qual, attr))
            if inv is not None:
                obs.append(ob(R, f, node, f'access relies on an invariant decided elsewhere: {inv}', True))
                continue
            ok, why = _discharged_locally(ctx, f, node, cont, key, op)
            obs.append(ob(R, f, node, f'partial operation `{op}` on self.{attr} cannot fail (no KeyError/IndexError into the event loop)', ok, why))
    # lists that come out of a datagram (they may be empty for a valid one), wherever they have flowed to
    seen_nodes = set()
    for f in sorted(scope, key=lambda x: x.full):
        for node, *_ in _container_sites(ctx, f):
            seen_nodes.add(id(node))
    full_scope = [f for f in ctx.cg.closure(roots) if f.full not in decoder]
    for f, node, cont, key, op in datagram_sequence_sinks(ctx, full_scope):
        if id(node) in seen_nodes:
            continue
        ok, why = _discharged_locally(ctx, f, node, cont, key, op)
        obs.append(ob(R, f, node, f'partial operation `{op}` on a list taken from a datagram (`{norm(cont)}` may be empty) cannot fail', ok, why))
    # side condition of the _additionals invariant: every add to an answer bucket is preceded by storing the same keys
    qr = ctx.prog.cls('zeroconf._handlers.query_handler._QueryResponse')
    for m in qr.methods.values():
        me = m.params[0] if m.params else 'self'
        adds = [c for c in walk_local_ordered(m.node) if isinstance(c, ast.Call) and call_name(c) in ('add', 'update') and isinstance(c.func, ast.Attribute) and self_attr(c.func.value, me) in ('_ucast', '_mcast_now', '_mcast_aggregate', '_mcast_aggregate_last_second')]
        if not adds:
            continue
        cfg = cfg_of(m.node)
        stores = [n for n in cfg.nodes if (n.kind == 'stmt' and isinstance(n.ast, ast.Assign) and isinstance(n.ast.targets[0], ast.Subscript) and self_attr(n.ast.targets[0].value, me) == '_additionals') or any(call_name(c) == 'update' and isinstance(c.func, ast.Attribute) and self_attr(c.func.value, me) == '_additionals' for c in n.calls())]
        for a in adds:
            an = next(n for n in cfg.nodes if any(c is a for c in n.calls()))
            obs.append(ob(R, m, a, 'a record enters an answer bucket only after it was stored in the additionals table', cfg.dominated_by_any(an, stores)))
    # side conditions of the invariants that other rules decide: their obligations are part of this rule too, so a change that
    # breaks `every live heap entry has a schedule-map entry` (a push that does not supersede the alias's previous entry: the
    # second pop finds the map entry gone) is reported here as the KeyError into the timer callback that it is
    from .c03 import index as _c03_index
    from .c10 import pair as _c10_pair

    for src, what in ((_c10_pair, 'schedule heap / map pairing'), (_c03_index, 'registry indexes maintained together')):
        for o in src.fn(ctx):
            o.rule = R
            o.statement = f'[invariant behind an unchecked container access: {what}] ' + o.statement
            obs.append(o)
    return obs


RULES.append(containers)


@rule('C15.MEMORY', 'D', expect_min=4)
def memory(ctx: Any) -> List[Ob]:
    """The instance keeps working after junk: whatever arrives (valid or not), the duplicate memory of the socket is
    rewritten as a whole -- bytes, time and message together, before any dispatch -- so a later well-formed query is never
    compared with the bytes of one datagram and the arrival time of another (and dropped as a `duplicate`)."""
    from .c16 import memory_obligations

    return memory_obligations(ctx, 'C15.MEMORY')


RULES.append(memory)


@rule('C15.LIVENESS', 'N', expect_min=2)
def liveness(ctx: Any) -> List[Ob]:
    """`The instance keeps working`: the answer queues drain.  A queued answer group always has a flush pending, and the flush
    re-arms itself for exactly the time remaining to the next deadline, in the unit the event loop expects (the C12.WIRING
    obligations about the flush timer) -- a wake-up scheduled in seconds where milliseconds were meant leaves every later
    aggregated answer in a queue nobody drains."""
    from .c12 import wiring

    out = [o for o in wiring.fn(ctx) if any(k in o.statement for k in ('re-arms itself', 'flush timer armed', 'waits until the first group must go'))]
    for o in out:
        o.rule = 'C15.LIVENESS'
    # `an announcement sent afterwards still reaches its browsers`: what a browser was told about a record is what happened to
    # the cache (shared with C06.DEDUP) -- else the browser and the cache disagree for good and later announcements are refreshes
    from .c06 import told_equals_done_obligations

    out.extend(told_equals_done_obligations(ctx, 'C15.LIVENESS'))
    return out


RULES.append(liveness)


@rule('C15.READONLY', 'N', expect_min=3)
def readonly(ctx: Any) -> List[Ob]:
    """Answering one datagram does not change how the next one is answered: the functions that assemble an outgoing message
    from the answer sets treat what they are handed as read-only.  The additionals handed to them are the very set objects
    memoised on the registered services; an in-place `-=`, `.discard()`, `.clear()` ... on a collection reached through a
    parameter would strip records from every later reply."""
    R = 'C15.READONLY'
    prog = ctx.prog
    mod = prog.modules.get('zeroconf._handlers.answers')
    if mod is None:
        raise AnalysisError('anchor vanished: zeroconf._handlers.answers')
    MUT = {'add', 'discard', 'remove', 'clear', 'update', 'pop', 'popitem', 'difference_update', 'intersection_update', 'symmetric_difference_update', 'append', 'extend', 'insert', 'sort', 'reverse', 'setdefault'}
    obs: List[Ob] = []
    for f in sorted(mod.functions.values(), key=lambda x: x.qual):
        if f.cls is not None or '<locals>' in f.qual:
            continue
        params = set(f.params)
        fresh: Set[str] = set()
        derived: Set[str] = set(params)
        changed = True
        while changed:
            changed = False
            for n in walk_local_ordered(f.node):
                if isinstance(n, ast.Assign) and len(n.targets) == 1 and isinstance(n.targets[0], ast.Name):
                    t, v = n.targets[0].id, n.value
                    is_fresh = isinstance(v, (ast.Dict, ast.Set, ast.List, ast.ListComp, ast.SetComp, ast.DictComp)) or (isinstance(v, ast.Call) and norm(v.func) in ('set', 'dict', 'list', 'DNSOutgoing', 'sorted', 'tuple'))
                    if is_fresh and t not in fresh:
                        fresh.add(t); changed = True
                    elif not is_fresh and t not in derived and any(isinstance(x, ast.Name) and x.id in derived for x in ast.walk(v)):
                        derived.add(t); changed = True
                if isinstance(n, (ast.For, ast.comprehension)) and any(isinstance(x, ast.Name) and x.id in derived for x in ast.walk(n.iter)):
                    for x in ast.walk(n.target):
                        if isinstance(x, ast.Name) and x.id not in derived:
                            derived.add(x.id); changed = True
        derived -= fresh
        # the message being built is the one parameter these functions exist to fill
        builders = {p_ for p_ in params if p_ == 'out'}
        sites = []
        for n in walk_local_ordered(f.node):
            if isinstance(n, ast.AugAssign) and isinstance(n.target, ast.Name) and n.target.id in derived - builders and isinstance(n.op, (ast.Sub, ast.BitOr, ast.BitAnd, ast.BitXor, ast.Add)):
                sites.append((n, n.target.id, 'in-place ' + type(n.op).__name__))
            if isinstance(n, ast.Call) and isinstance(n.func, ast.Attribute) and n.func.attr in MUT and isinstance(n.func.value, ast.Name) and n.func.value.id in derived - builders:
                sites.append((n, n.func.value.id, '.' + n.func.attr + '()'))
            if isinstance(n, (ast.Assign, ast.Delete)):
                for t in (n.targets if isinstance(n, (ast.Assign, ast.Delete)) else []):
                    if isinstance(t, ast.Subscript) and isinstance(t.value, ast.Name) and t.value.id in derived - builders:
                        sites.append((n, t.value.id, 'item store / delete'))
        obs.append(ob(R, f, sites[0][0] if sites else f.name, 'nothing reached through a parameter (other than the message being built) is mutated', not sites, '; '.join(f'line {n.lineno}: `{nm}` {how}' for n, nm, how in sites[:3])))
    return obs


RULES.append(readonly)


@rule('C15.OPTIONAL', 'N', expect_min=1)
def optional(ctx: Any) -> List[Ob]:
    """No attribute or item is taken from a value that may be None anywhere on the datagram-driven path: for every
    `x.attr` / `x[k]` in the functions reachable from the event-loop entry points, the type the oracle computes for `x`
    at that point (after flow narrowing) does not include None.  A helper that returns Optional (an address that does not
    parse, a cache miss) dereferenced without a test is an AttributeError / TypeError into the event loop."""
    R = 'C15.OPTIONAL'
    roots = entry_points(ctx)
    scope = ctx.cg.closure(roots)
    obs: List[Ob] = []
    n = 0
    for f in sorted(scope, key=lambda x: x.full):
        for x in walk_local_ordered(f.node):
            if (isinstance(x, ast.Attribute) or (isinstance(x, ast.Subscript))) and isinstance(x.ctx, ast.Load):
                n += 1
                td = ctx.ty.type_of(f.module.name, x.value)
                if td and td[0] == 'union' and any(m and m[0] == 'none' for m in td[1]) and not structurally_non_none(f, x, x.value):
                    obs.append(ob(R, f, x, 'the value dereferenced here cannot be None', False, f'`{norm(x.value)[:50]}` has type Optional at this point (no None test dominates the access)'))
    ctx.counters['dereferences_examined'] = n
    obs.append(ob(R, ('src/zeroconf', '<datagram path>'), f'{n} attribute / item accesses in {len(scope)} functions', 'none of them is applied to a possibly-None value (type oracle, flow-narrowed)', True))
    if n < 500:
        raise AnalysisError(f'only {n} dereferences examined on the datagram path (expected about 1000): the type oracle or the closure shrank')
    return obs


RULES.append(optional)


@rule('C15.ASSEMBLED', 'N', expect_min=2)
def assembled(ctx: Any) -> List[Ob]:
    """The assembled-query handler indexes its first packet; it is entered from a timer with only the
    deferred packets, so the invariant `pending timer => non-empty deferred list` must hold."""
    from .c12 import deferred_timer_discipline

    return deferred_timer_discipline(ctx, 'C15.ASSEMBLED')


RULES.append(assembled)

"""C11 -- replies are routed and formatted as RFC 6762 sections 5.4, 6 and 6.7 require."""
from __future__ import annotations

import ast
from typing import Any, Dict, List, Optional, Set, Tuple

from sa import AnalysisError
from sa import fd, lf
from sa.cf import cfg_of
from sa.pm import FuncInfo, call_name, norm, self_attr, walk_local_ordered
from sa.report import Ob, rule

from .common import attr_stores, ob, single_return_expr as single_return_expr_, strip_ret, traces, xnorm
from .common import expand as expand_

QH = 'zeroconf._handlers.query_handler.QueryHandler'
QR = 'zeroconf._handlers.query_handler._QueryResponse'
BUCKETS = {'_ucast': 'UCAST', '_mcast_now': 'MCAST_NOW', '_mcast_aggregate': 'AGGREGATE', '_mcast_aggregate_last_second': 'LAST_SECOND'}


def _bucket_eff(me: str) -> Any:
    def eff(node: Any, evl: Any) -> List[Any]:
        out = []
        for c in node.calls():
            if call_name(c) in ('add', 'update') and isinstance(c.func, ast.Attribute):
                a = self_attr(c.func.value, me)
                if a in BUCKETS:
                    out.append(BUCKETS[a])
        return out

    return eff



def sighting_predicate_table(ctx: Any, R: str, nm: str) -> List[Ob]:
    """A sighting predicate of the answer set as a table: no cache entry -> not seen; an entry -> seen exactly when its time
    test says so (a predicate that tests the absent entry, or answers `seen` for no entry, sends every answer the wrong way)."""
    g = ctx.prog.func(QR + '.' + nm)
    obs: List[Ob] = []
    for entry, recent in ((False, False), (True, True), (True, False)):
        atoms_s: Dict[str, Any] = {'.async_get_unique()': fd.Sym('entry') if entry else None, '.is_recent()': recent, f'{g.params[0]}._now': 100000.0, '.created': 100000.0 - (10.0 if recent else 5000000.0)}
        oc_s, und_s = traces(ctx, g, atoms_s, lambda n, e: [], loop_bound=1)
        rets_s = {bool(x[1]) if x[1] in (True, False, None) else x[1] for t in oc_s for x in t if isinstance(x, tuple) and x[0] == 'ret'}
        want_s = entry and recent
        obs.append(ob(R, g, f'{nm}: {"no cache entry" if not entry else ("entry seen just now" if recent else "entry seen long ago")}', f'returns {want_s}', rets_s == {want_s} and not und_s, f'returns {sorted(map(str, rets_s))}; undecided {und_s}'))
    return obs


def mcast_table(ctx: Any, R: str) -> List[Ob]:
    """Decision table of the multicast answer routine over (probe, seen in the last second, number of
    questions, question type): probe -> now; else seen < 1 s -> the protected queue; else a single
    SRV/A/AAAA/NSEC question -> now; else the aggregation queue."""
    prog = ctx.prog
    obs: List[Ob] = []
    # (c) multicast answers
    h = prog.func(QR + '.add_mcast_question_response')
    me = h.params[0]
    imm = prog.const('zeroconf._handlers.query_handler', '_RESPOND_IMMEDIATE_TYPES')
    obs.append(ob(R, h, f'_RESPOND_IMMEDIATE_TYPES = {sorted(imm)}', 'single-question immediate types are NSEC, SRV, A, AAAA', set(imm) == {47, 33, 1, 28}))
    for probe in (False, True):
        for last_second in (False, True):
            for nq, qtype in ((1, 33), (1, 12), (2, 33), (1, 1), (1, 16)):
                atoms = {f'{me}._is_probe': probe, '._has_mcast_record_in_last_second()': last_second, f'{me}._questions': ['Q'] * nq, '.type': qtype}
                oc, und = traces(ctx, h, atoms, _bucket_eff(me), loop_bound=1, for_iter=lambda n, e: True)
                got = {frozenset(strip_ret(t)) for t in oc}
                if probe:
                    want = {'MCAST_NOW'}
                elif last_second:
                    want = {'LAST_SECOND'}
                elif nq == 1 and qtype in (47, 33, 1, 28):
                    want = {'MCAST_NOW'}
                else:
                    want = {'AGGREGATE'}
                obs.append(ob(R, h, f'multicast answer: probe={probe} seen<1s={last_second} questions={nq} type={qtype}', f'goes to {sorted(want)}', got == {frozenset(want)} and not und, f'got {[sorted(x) for x in got]} undecided {und}'))
    return obs


def fresh_message_obligations(ctx: Any, R: str) -> List[Ob]:
    """The message that is dispatched (to the query handler or to the record manager) is decoded in this call from this
    datagram's bytes and stamped with this arrival time."""
    prog = ctx.prog
    obs: List[Ob] = []
    # (z) the "recently multicast" decisions compare the record's age with the time THIS datagram arrived: the message that
    # is dispatched is decoded in this call from this datagram's bytes and stamped with this arrival time (a reused,
    # earlier-decoded message would carry the arrival time of the first copy and every record would look recent for ever)
    from .c16 import dispatching_function

    pd = dispatching_function(ctx)
    disp = [c for c in walk_local_ordered(pd.node) if isinstance(c, ast.Call) and call_name(c) in ('handle_query_or_defer', 'async_updates_from_response')]
    from .common import local_defs as _ld

    # the datagram's bytes and its arrival time are the parameters of the dispatching method that its caller fills from the
    # protocol callback (by name: the two that the decoder call uses)
    dec = [c for c in walk_local_ordered(pd.node) if isinstance(c, ast.Call) and call_name(c) == 'DNSIncoming' and len(c.args) >= 4]
    if not dec or not all(isinstance(dec[0].args[i], ast.Name) and dec[0].args[i].id in pd.params for i in (0, 3)):
        return [ob(R, pd, dec[0] if dec else 'DNSIncoming(data, addr_port, scope, now)', 'the message handed on is decoded from this datagram and carries this datagram\'s arrival time', False, 'the dispatching method does not decode its own `data` / `now` parameters')]
    p_data, p_now = dec[0].args[0].id, dec[0].args[3].id
    for c in disp:
        marg = next((a for a in c.args if isinstance(a, ast.Name) and a.id not in pd.params), None)
        defs = [v for v in _ld(pd).get(marg.id, [])] if marg is not None else []

        def fresh(v: Any) -> bool:
            return isinstance(v, ast.Call) and call_name(v) == 'DNSIncoming' and len(v.args) >= 4 and norm(v.args[0]) == p_data and norm(v.args[3]) == p_now

        good = bool(defs) and all(v is not None and fresh(v) for v in defs)
        obs.append(ob(R, pd, c, 'the message handed on is decoded from this datagram and carries this datagram\'s arrival time', good, '' if good else f'`{marg.id if marg is not None else "?"}` may be something other than DNSIncoming({p_data}, ..., {p_now}): ' + '; '.join(norm(v)[:70] for v in defs if v is not None and not fresh(v))))
    return obs



def qu_answer_table(ctx: Any, R: str, probes_only: bool = False) -> List[Ob]:
    """Decision table of the answer to a QU question (shared with C09.SHAPE for the probe rows: conflict detection rests on
    the owner answering a probe at once, by unicast to the prober, whether or not the record was multicast recently)."""
    prog = ctx.prog
    obs: List[Ob] = []
    g = prog.func(QR + '.add_qu_question_response')
    me = g.params[0]
    for probe in ((True,) if probes_only else (False, True)):
        for recent in (False, True):
            atoms = {f'{me}._is_probe': probe, '._has_mcast_within_one_quarter_ttl()': recent}
            oc, und = traces(ctx, g, atoms, _bucket_eff(me), loop_bound=1, for_iter=lambda n, e: True)
            got = {frozenset(strip_ret(t)) for t in oc}
            want = set()
            if probe:
                want.add('UCAST')
            if not recent:
                want.add('MCAST_NOW')
            elif not probe:
                want.add('UCAST')
            obs.append(ob(R, g, f'QU question: probe={probe}, multicast within a quarter TTL={recent}', f'answered via {sorted(want)}', got == {frozenset(want)} and not und, f'got {[sorted(x) for x in got]}'))
    return obs


@rule('C11.ROUTE', 'D', expect_min=18)
def route(ctx: Any) -> List[Ob]:
    """Routing decision tables against the property text: per question, which of
    the QU / unicast-source / multicast routines run over (source port is 5353?,
    QU?); QU answers over (probe, recently multicast); multicast answers over
    (probe, seen in the last second, single immediate-type question); and each
    of the four answer sets reaches its sink (unicast on the receiving transport
    to the source address and port; multicast now; the 500 ms queue; the
    1 s-protected queue)."""
    R = 'C11.ROUTE'
    prog = ctx.prog
    obs: List[Ob] = []
    # (a) async_response per-question routing
    f = prog.func(QH + '.async_response')
    cfg = cfg_of(f.node)
    p_ucast = f.params[2]
    loops = [n for n in cfg.nodes if n.kind == 'for' and any(call_name(c).startswith('add_') and 'question_response' in call_name(c) for m in cfg.nodes if n.ast in m.in_loop for c in m.calls())]
    if len(loops) != 1:
        raise AnalysisError('anchor vanished: strategy loop in async_response')
    lp = loops[0]
    names = {'add_qu_question_response': 'QU', 'add_ucast_question_response': 'UCAST', 'add_mcast_question_response': 'MCAST'}

    def eff(node: Any, evl: Any) -> List[Any]:
        return [names[call_name(c)] for c in node.calls() if call_name(c) in names] + (['HISTORY'] if any(call_name(c) == 'add_question_at_time' for c in node.calls()) else [])

    for ucast_source in (False, True):
        for qu in (False, True):
            atoms = {p_ucast: ucast_source, '.unique': qu}
            oc, und = fd.run_paths(prog, f.module, cfg, atoms, eff, start=lp, stop=lambda n: n is lp, loop_bound=1, for_iter=lambda n, e: True)
            got = {frozenset(strip_ret(t)) for t in oc}
            want: Set[str] = set()
            if not ucast_source and qu:
                want = {'QU'}
            elif ucast_source:
                want = {'UCAST', 'MCAST'}
            else:
                want = {'MCAST'}
            if not qu:
                want.add('HISTORY')
            obs.append(ob(R, f, f'source port {"other" if ucast_source else "5353"}, {"QU" if qu else "QM"} question', f'routines: {sorted(want)} (QM questions are remembered for duplicate suppression, QU never)', got == {frozenset(want)}, f'got {[sorted(g) for g in got]}'))
    # (a') what the routine works from: every question of every packet contributes its answer strategies (a question that is
    # dropped here is never answered), nothing is answered only when there is no strategy at all, and the query counts as a
    # probe exactly when one of its packets is one (a probe's records are claims, not known answers; a non-probe's are)
    f_ar = prog.func(QH + '.async_response')
    acfg = cfg_of(f_ar.node)
    p_msgs = f_ar.params[1]
    qloops = [n for n in acfg.nodes if n.kind == 'for' and n.in_loop and any(call_name(c) == '_get_answer_strategies' for m_ in acfg.nodes if m_.in_loop and n.ast in m_.in_loop for c in m_.calls())]
    ok_st, why_st = False, 'no loop over the questions that collects strategies'
    if len(qloops) == 1 and isinstance(qloops[0].ast.target, ast.Name):
        qv_ = qloops[0].ast.target.id
        oc_st, _ = fd.run_paths(prog, f_ar.module, acfg, {}, lambda n, e: [('EXT', norm(c.args[0])) for c in fd.node_calls(n, e) if call_name(c) == 'extend' and c.args and isinstance(c.args[0], ast.Call) and call_name(c.args[0]) == '_get_answer_strategies'], start=qloops[0], stop=lambda n: n is qloops[0], loop_bound=1, for_iter=lambda n, e: True)
        per_q = {tuple(x for x in strip_ret(t) if isinstance(x, tuple)) for t in oc_st}
        outer_ok = any(o.kind == 'for' and norm(o.ast.iter) == p_msgs and qloops[0].in_loop and o.ast in qloops[0].in_loop for o in acfg.nodes)
        ok_st = outer_ok and len(per_q) == 1 and len(next(iter(per_q))) == 1 and qv_ in next(iter(per_q))[0][1]
        why_st = f'per question: {sorted(map(str, per_q))[:2]}; over every packet: {outer_ok}'
    obs.append(ob(R, f_ar, qloops[0].ast if qloops else 'for msg in msgs: for question in msg._questions: strategies.extend(...)', 'the strategies of every question of every packet are collected', ok_st, why_st))
    st_names = sorted({norm(c.func.value) for c in walk_local_ordered(f_ar.node) if isinstance(c, ast.Call) and call_name(c) == 'extend' and c.args and isinstance(c.args[0], ast.Call) and call_name(c.args[0]) == '_get_answer_strategies' and isinstance(c.func, ast.Attribute)})
    if len(st_names) == 1:
        for have in (False, True):
            oc_h, und_h = traces(ctx, f_ar, {st_names[0]: (['strategy'] if have else [])}, lambda n, e: ['BUILD' for c in fd.node_calls(n, e) if call_name(c) == '_QueryResponse'], loop_bound=1, for_iter=lambda n, e: False)
            outs_h = {('BUILD' in strip_ret(t), next((x[1] for x in t if isinstance(x, tuple) and x[0] == 'ret'), 'no-return')) for t in oc_h}
            good_h = (all(b and r is not None for b, r in outs_h) if have else outs_h == {(False, None)}) and bool(outs_h)
            obs.append(ob(R, f_ar, f'{"some" if have else "no"} answer strategy for the query', 'a response is worked out' if have else 'nothing is answered (None), nothing is built', good_h, f'(response built, returned) per path: {sorted(map(str, outs_h))[:3]}'))
    ploops = [n for n in acfg.nodes if n.kind == 'for' and not n.in_loop and norm(n.ast.iter) == p_msgs and any(call_name(c) == 'is_probe' for m_ in acfg.nodes if m_.in_loop and n.ast in m_.in_loop for c in (list(m_.calls()) + [x for e in m_.exprs() for x in ast.walk(e) if isinstance(x, ast.Call)]))]
    if len(ploops) != 1:
        raise AnalysisError('anchor vanished: the loop of async_response that classifies the packets (probe / known answers)')
    flag = next((t.targets[0].id for t in walk_local_ordered(f_ar.node) if isinstance(t, ast.Assign) and isinstance(t.targets[0], ast.Name) and isinstance(t.value, ast.Constant) and t.value.value is True and any(l_ is ploops[0].ast for l_ in (next((m_.in_loop for m_ in acfg.nodes if m_.ast is t), []) or []))), None)
    init = [t for t in walk_local_ordered(f_ar.node) if isinstance(t, ast.Assign) and isinstance(t.targets[0], ast.Name) and flag is not None and t.targets[0].id == flag and isinstance(t.value, ast.Constant) and t.value.value is False]
    for probe in (True, False):
        def eff_pr(n: Any, e: Any) -> List[Any]:
            out_ = []
            if n.kind == 'stmt' and isinstance(n.ast, ast.Assign) and isinstance(n.ast.targets[0], ast.Name) and n.ast.targets[0].id == flag:
                out_.append(('FLAG', e.ev(n.ast.value)))
            out_ += ['KNOWN' for c in fd.node_calls(n, e) if call_name(c) == 'extend' and c.args and isinstance(c.args[0], ast.Call) and call_name(c.args[0]) == 'answers']
            return out_

        oc_pr, und_pr = fd.run_paths(prog, f_ar.module, acfg, {'.is_probe()': probe}, eff_pr, start=ploops[0], stop=lambda n: n is ploops[0], loop_bound=1, for_iter=lambda n, e: True)
        per_p = {tuple(x for x in strip_ret(t) if x == 'KNOWN' or isinstance(x, tuple) and x[0] == 'FLAG') for t in oc_pr}
        want_p = {(('FLAG', True),)} if probe else {('KNOWN',)}
        obs.append(ob(R, f_ar, f'packet {"is" if probe else "is not"} a probe', 'the query is marked a probe (its records are not known answers)' if probe else 'its answer section is taken as known answers (the probe mark is left alone)', flag is not None and len(init) == 1 and per_p == want_p and not und_pr, f'per packet: {sorted(map(str, per_p))}; undecided {und_pr}'))
    # (b) QU answers
    obs.extend(qu_answer_table(ctx, R))
    obs.extend(mcast_table(ctx, R))
    # (d) sinks
    s = prog.func(QH + '.handle_assembled_query')
    me = s.params[0]
    p_addr, p_port, p_tr, p_v6 = s.params[2], s.params[3], s.params[4], s.params[5]

    def effs(node: Any, evl: Any) -> List[Any]:
        out = []
        for c in node.calls():
            nm = call_name(c)
            if nm == 'async_send':
                inner = c.args[0] if c.args else None
                built = None
                if isinstance(inner, ast.Call):
                    built = inner
                elif isinstance(inner, ast.Name):
                    defs = [st.value for st in walk_local_ordered(s.node) if isinstance(st, ast.Assign) and any(isinstance(t, ast.Name) and t.id == inner.id for t in st.targets)]
                    built = defs[0] if defs else None
                kind = call_name(built) if isinstance(built, ast.Call) else '?'
                src = norm(built.args[0]).split('.')[-1] if isinstance(built, ast.Call) and built.args else '?'
                rest = [norm(a) for a in c.args[1:]]
                out.append(('SEND', kind, src, tuple(rest)))
            elif nm == 'async_add' and isinstance(c.func, ast.Attribute):
                q = self_attr(c.func.value, me)
                out.append(('QUEUE', q, norm(c.args[1]).split('.')[-1] if len(c.args) > 1 else '?', norm(c.args[0]) if c.args else '?'))
        return out

    expect = {
        'ucast': ('SEND', 'construct_outgoing_unicast_answers', 'ucast', (p_addr, p_port, p_v6, p_tr)),
        'mcast_now': ('SEND', 'construct_outgoing_multicast_answers', 'mcast_now', ()),
        'mcast_aggregate': ('QUEUE', 'out_queue', 'mcast_aggregate'),
        'mcast_aggregate_last_second': ('QUEUE', 'out_delay_queue', 'mcast_aggregate_last_second'),
    }
    for only, want_e in expect.items():
        atoms = {'.' + k: ({'r': set()} if k == only else {}) for k in expect}
        atoms['.async_response()'] = fd.Sym('answers')
        oc, und = traces(ctx, s, atoms, effs)
        got = {strip_ret(t) for t in oc}
        ok = len(got) == 1 and len(next(iter(got))) == 1 and next(iter(got))[0][: len(want_e)] == want_e
        obs.append(ob(R, s, f'only `{only}` answers present', f'exactly one sink: {want_e}', ok, f'got {sorted(map(str, got))}'))
    # queue time base is the arrival time of the query
    qcalls = [c for c in walk_local_ordered(s.node) if isinstance(c, ast.Call) and call_name(c) == 'async_add']
    obs.append(ob(R, s, 'async_add(first_packet.now, ...)', 'queued answers are timed from the arrival of the query', len(qcalls) == 2 and all(norm(c.args[0]).endswith('.now') for c in qcalls)))
    # unicast reply is built from the first packet's id and questions, under ucast_source = port != 5353
    # the flag handed to async_response / the unicast constructor: found by role, not by name
    ar = [c for c in walk_local_ordered(s.node) if isinstance(c, ast.Call) and call_name(c) == 'async_response']
    from .common import expand as _xp

    flag_e = _xp(s, ar[0].args[1]) if ar and len(ar[0].args) > 1 else None
    ok_us = False
    if isinstance(flag_e, ast.Compare):
        try:
            p, op = lf.comparison(prog, s.module, flag_e, lambda x: 'PORT' if isinstance(x, ast.Name) and x.id == p_port else None)
            ok_us = lf.same_cmp((p, op), lf.parse_cmp('PORT - 5353 != 0'))
        except lf.NotLinear:
            pass
    obs.append(ob(R, s, 'ucast_source = port != _MDNS_PORT', 'a query is a legacy-unicast query iff its source port is not 5353', ok_us))
    # parameter pass-through from the protocol to the handler
    from .c16 import dispatching_function

    pd = dispatching_function(ctx)
    # the source-address parameter: the one that is unpacked into address and port
    unpack = [st for st in walk_local_ordered(pd.node) if isinstance(st, ast.Assign) and isinstance(st.targets[0], ast.Tuple) and isinstance(st.value, ast.Name) and st.value.id in pd.params]
    firsts = {tuple(norm(e) for e in st.targets[0].elts[:2]) for st in unpack}
    ok_un = len(unpack) == 2 and len(firsts) == 1 and {len(st.targets[0].elts) for st in unpack} == {2, 4}
    obs.append(ob(R, pd, 'addr, port = addrs / addr, port, flow, scope = addrs', 'address and port are the first two components of the source address of the datagram (both address shapes)', ok_un))
    a_loc, p_loc = next(iter(firsts)) if len(firsts) == 1 else ('?', '?')
    calls = [c for c in walk_local_ordered(pd.node) if isinstance(c, ast.Call) and call_name(c) == 'handle_query_or_defer']
    good = bool(calls)
    for c in calls:
        args = [norm(a) for a in c.args]
        good = good and len(args) == 5 and args[1] == a_loc and args[2] == p_loc and args[3] == f'{pd.params[0]}.transport'
        # the flow/scope argument is the local built from the unpacked flow and scope (or the empty tuple)
        v6 = [xnorm(pd, st.value) if st.value is not None else '' for st in walk_local_ordered(pd.node) if isinstance(st, (ast.Assign, ast.AnnAssign)) and norm(st.targets[0] if isinstance(st, ast.Assign) else st.target) == args[4]]
        good = good and len(v6) == 2 and '()' in v6
    obs.append(ob(R, pd, 'handle_query_or_defer(msg, addr, port, self.transport, v6_flow_scope)', 'source address and port and the receiving transport are handed on unchanged', good))
    for fn, callee in (('zeroconf._listener.AsyncListener.handle_query_or_defer', '_respond_query'), ('zeroconf._listener.AsyncListener._respond_query', 'handle_assembled_query')):
        ff = prog.func(fn)
        want_tail = ff.params[2:6]
        calls = [c for c in walk_local_ordered(ff.node) if isinstance(c, ast.Call) and call_name(c) == callee]
        good = bool(calls)
        for c in calls:
            tail = [norm(a) for a in c.args][-4:]
            # the protocol object's own transport *is* the receiving transport
            if len(tail) == 4 and tail[2] == f'{ff.params[0]}.transport':
                tail[2] = want_tail[2]
            good = good and tail == want_tail
        obs.append(ob(R, ff, f'{callee}(..., {", ".join(want_tail)})', 'source address, port, transport and flow/scope are handed on unchanged (own parameters, same positions)', good))
    # the receiving transport is the protocol object's own transport: one protocol object per socket
    from .c16 import per_socket_protocol

    obs.append(per_socket_protocol(ctx, R, 'each socket has its own protocol object whose `transport` is that socket, so `self.transport` is the receiving socket'))
    cm = prog.func('zeroconf._listener.AsyncListener.connection_made')
    st = [s_ for t, s_ in attr_stores(cm.node) if self_attr(t, cm.params[0]) == 'transport']
    obs.append(ob(R, cm, st[0] if st else 'self.transport = ...', 'the protocol remembers the transport it was connected to', len(st) == 1 and cm.params[1] in norm(expand_(cm, st[0].value))))
    obs.extend(fresh_message_obligations(ctx, R))
    # `seen multicast within a quarter of its TTL` is read from the cached copy of the record: the sighting is recorded in it
    # before any listener runs
    from .c06 import sighting_obligations

    obs.extend(sighting_obligations(ctx, R))
    # every valid query reaches the query handler while anything is registered
    from .c16 import dispatch_obligations, duplicate_source_obligation

    obs.extend(dispatch_obligations(ctx, R, 'query'))
    # ... whoever sent it: the duplicate guard in front of the dispatch does not take another querier's identical bytes for a
    # duplicate (`a query from a source port other than 5353 gets a unicast reply to that address and port`)
    obs.append(duplicate_source_obligation(ctx, R))
    return obs


FLAGS_RESPONSE_AA = 0x8400


@rule('C11.FORMAT', 'D', expect_min=10)
def fmt(ctx: Any) -> List[Ob]:
    """Every message construction site with folded arguments: multicast replies and
    announcements are (response|authoritative, multicast); the unicast reply is
    (response|authoritative, unicast, id of the query) and echoes the questions
    iff the source was a legacy-unicast port; queries carry the query flag; no
    question is added to a multicast reply; QU routing uses the quarter-TTL
    constant."""
    R = 'C11.FORMAT'
    prog = ctx.prog
    obs: List[Ob] = []
    # `carrying no cache-flush bits` (unicast reply) / `cache-flush bits exactly on the unique records` (multicast reply): the
    # class writer sets the top bit iff the record is unique AND the message is a multicast one (table shared with C01.FLUSHBIT)
    from .c01 import flushbit as _flushbit

    for o in _flushbit.fn(ctx):
        o.rule = R
        obs.append(o)
    sites = []
    for f in prog.functions.values():
        for c in walk_local_ordered(f.node):
            if isinstance(c, ast.Call) and call_name(c) == 'DNSOutgoing' and isinstance(c.func, ast.Name):
                sites.append((f, c))
    ctx.counters['message_construction_sites'] = [f'{f.where()}:{c.lineno}' for f, c in sites]
    table = {
        'construct_outgoing_multicast_answers': (FLAGS_RESPONSE_AA, 'True'),
        'construct_outgoing_unicast_answers': (FLAGS_RESPONSE_AA, 'False'),
        'Zeroconf.generate_service_broadcast': (FLAGS_RESPONSE_AA, 'default'),
        'Zeroconf.generate_unregister_all_services': (FLAGS_RESPONSE_AA, 'default'),
        'Zeroconf.generate_service_query': (0x0400, 'default'),
        '_DNSPointerOutgoingBucket.__init__': (0x0000, 'param'),
        'ServiceInfo._generate_request_query': (0x0000, 'default'),
    }
    seen = set()
    for f, c in sites:
        seen.add(f.qual)
        if f.qual not in table:
            obs.append(ob(R, f, c, 'every message construction site is in the format table (a new site must be classified)', False))
            continue
        wflags, wmc = table[f.qual]
        okf, fl = prog.try_fold(f.module, c.args[0]) if c.args else (False, None)
        mc = 'default'
        if len(c.args) > 1:
            a = c.args[1]
            mc = norm(a) if isinstance(a, ast.Constant) else 'param'
        obs.append(ob(R, f, c, f'flags {wflags:#06x}, multicast {wmc}', okf and fl == wflags and mc == wmc, f'flags fold to {fl if not okf else hex(fl)}, multicast {mc}'))
    missing = set(table) - seen
    obs.append(ob(R, ('src/zeroconf', '<package>'), f'{len(sites)} DNSOutgoing(...) sites', 'all known construction sites are still present', not missing, f'missing {sorted(missing)}'))
    dflt = prog.cls('zeroconf._protocol.outgoing.DNSOutgoing').methods['__init__'].node.args.defaults
    obs.append(ob(R, prog.cls('zeroconf._protocol.outgoing.DNSOutgoing').methods['__init__'], 'multicast: bool = True, id_: int = 0', 'a message is multicast with id 0 unless stated otherwise', [norm(d) for d in dflt] == ['True', '0']))
    # every multicast reply has id 0: no multicast construction hands an id on, and the header writer puts 0 for a multicast message
    for f_, c_ in sites:
        wmc_ = table.get(f_.qual, (None, None))[1]
        if wmc_ in ('True', 'default'):
            id_args = list(c_.args[2:3]) + [k.value for k in c_.keywords if k.arg in ('id_', 'id')]
            obs.append(ob(R, f_, c_, 'a multicast message is built without an id of its own (id 0)', not id_args or all(prog.try_fold(f_.module, a) == (True, 0) for a in id_args), f'id argument `{norm(id_args[0])}`' if id_args else ''))
    from .c14 import tc as _tc

    for o in _tc.fn(ctx):
        if o.construct.startswith('remaining=None'):
            o.rule = R
            obs.append(o)
    # where a datagram goes: the address and port handed to the socket are the ones given -- the querier's for a unicast reply --
    # and the mDNS group of the socket's family and port 5353 when none is given
    tx = next((f_ for f_ in prog.functions.values() if any(isinstance(c_, ast.Call) and call_name(c_) == 'sendto' for c_ in walk_local_ordered(f_.node))), None)
    if tx is None:
        raise AnalysisError('anchor vanished: the function that hands datagrams to a socket (sendto)')
    grp4, grp6, mport = prog.const('zeroconf.const', '_MDNS_ADDR'), prog.const('zeroconf.const', '_MDNS_ADDR6'), prog.const('zeroconf.const', '_MDNS_PORT')
    # where the destination tuple is built: in the primitive itself, or -- when the primitive is handed a ready tuple -- in its caller
    st_call = next(c_ for c_ in walk_local_ordered(tx.node) if isinstance(c_, ast.Call) and call_name(c_) == 'sendto')
    builder, dest_name = tx, None
    if len(st_call.args) >= 2 and isinstance(st_call.args[1], ast.Name) and st_call.args[1].id in tx.params:
        pi = tx.params.index(st_call.args[1].id)
        callers = [s_ for s_ in ctx.cg.callers_of(tx)]
        if len({s_.caller.full for s_ in callers}) != 1:
            raise AnalysisError('anchor vanished: the one caller that builds the destination handed to the transmit primitive')
        builder = callers[0].caller
        arg = callers[0].node.args[pi] if len(callers[0].node.args) > pi else None
        dest_name = arg.id if isinstance(arg, ast.Name) else None
        if dest_name is None:
            raise AnalysisError('anchor vanished: the destination handed to the transmit primitive is not a local of its caller')
    p_addr = next((p_ for p_ in builder.params if p_ == 'addr' or 'addr' in p_), None)
    p_port = next((p_ for p_ in builder.params if p_ == 'port' or p_.endswith('_port')), None)
    if p_addr is None or p_port is None:
        raise AnalysisError('anchor vanished: address / port parameters of the routine that builds the destination')

    def eff_tx(node: Any, evl: Any) -> List[Any]:
        out_ = []
        tuples = []
        if dest_name is None:
            tuples = [c_.args[1] for c_ in fd.node_calls(node, evl) if call_name(c_) == 'sendto' and len(c_.args) >= 2 and isinstance(c_.args[1], ast.Tuple)]
        elif node.kind == 'stmt' and isinstance(node.ast, (ast.Assign, ast.AnnAssign)):
            tg = node.ast.targets[0] if isinstance(node.ast, ast.Assign) else node.ast.target
            if isinstance(tg, ast.Name) and tg.id == dest_name and isinstance(node.ast.value, ast.Tuple):
                tuples = [node.ast.value]
        for tp in tuples:
            if len(tp.elts) >= 2:
                a_, p__ = evl.ev(tp.elts[0]), evl.ev(tp.elts[1])
                out_.append(('DST', 'UNKNOWN' if a_ is fd.UNKNOWN else a_, 'UNKNOWN' if p__ is fd.UNKNOWN else p__))
        return out_

    for given in (True, False):
        for v6 in (True, False):
            for port_v in (0, 40000):
                atoms_tx = {p_addr: '192.0.2.7' if given else None, p_port: port_v, '.is_ipv6': v6, 'can_send_to()': True, 'log_debug': False, 'v6_flow_scope': ()}
                if builder is tx:
                    oc_tx, und_tx = traces(ctx, tx, atoms_tx, eff_tx)
                else:
                    # one socket: the loop over the transports runs once
                    oc_tx, und_tx = traces(ctx, builder, atoms_tx, eff_tx, loop_bound=1, for_iter=lambda n, e: True if n.kind == 'for' and any(isinstance(x, ast.Name) and x.id == dest_name for st_ in ast.walk(n.ast) for x in ([st_.targets[0]] if isinstance(st_, ast.Assign) else [])) else None)
                dst = {x[1:] for t in oc_tx for x in t if isinstance(x, tuple) and x[0] == 'DST'}
                want_dst = ('192.0.2.7' if given else (grp6 if v6 else grp4), port_v or mport)
                obs.append(ob(R, builder, f'address {"given" if given else "not given"}, {"IPv6" if v6 else "IPv4"} socket, port {port_v or "not given"}', f'the datagram is handed to the socket for {want_dst}', dst == {want_dst}, f'destinations on the feasible paths: {sorted(map(str, dst))}; undecided {und_tx}'))
    # flow info and scope of an IPv6 destination belong to the socket the datagram leaves through: a value read from one
    # socket (`sock_name`) is not kept in a variable that lives across the loop over the sockets -- the second socket on
    # another link would send to the first one's scope
    for g_ in {tx, builder, prog.func('zeroconf._core.Zeroconf.async_send')}:
        for lp in [x for x in walk_local_ordered(g_.node) if isinstance(x, ast.For) and isinstance(x.target, ast.Name)]:
            derived = {lp.target.id}
            changed = True
            while changed:
                changed = False
                for st_ in ast.walk(lp):
                    if isinstance(st_, ast.Assign):
                        names_ = {t.id for tt in st_.targets for t in ast.walk(tt) if isinstance(t, ast.Name)}
                        if any(isinstance(x, ast.Name) and x.id in derived for x in ast.walk(st_.value)) and not names_ <= derived:
                            derived |= names_
                            changed = True
            outer_defs = {a_ for a_ in g_.params} | {t.id for st_ in walk_local_ordered(g_.node) if isinstance(st_, (ast.Assign, ast.AnnAssign)) and not any(st_ is y for y in ast.walk(lp)) for t in ast.walk(st_.targets[0] if isinstance(st_, ast.Assign) else st_.target) if isinstance(t, ast.Name)}
            sticky = sorted(v for v in derived - {lp.target.id} if v in outer_defs and any(isinstance(i_, ast.If) and any(isinstance(x, ast.Name) and x.id == v for x in ast.walk(i_.test)) and any(isinstance(y, ast.Assign) and any(isinstance(t, ast.Name) and t.id == v for tt in y.targets for t in ast.walk(tt)) for y in ast.walk(i_)) for i_ in ast.walk(lp)))
            if 'sock_name' in ast.dump(lp) or sticky:
                obs.append(ob(R, g_, lp, 'what is read from one socket (flow info, scope id) is used for that socket only: it is not parked in a variable that outlives the trip of the loop over the sockets', not sticky, f'`{sticky[0]}` is set from the socket of one trip under a test of itself and lives on into the next' if sticky else ''))
    # `on the receiving socket`: when a transport is handed to the sender, the datagrams leave through that transport and no other
    snd = prog.func('zeroconf._core.Zeroconf.async_send')
    p_tr = next((p_ for p_ in snd.params if p_ == 'transport'), None)
    if p_tr is None:
        raise AnalysisError('anchor vanished: transport parameter of Zeroconf.async_send')
    loops_tx = [lp for lp in walk_local_ordered(snd.node) if isinstance(lp, ast.For) and any(isinstance(c_, ast.Call) and tx is not None and call_name(c_) == tx.name for c_ in ast.walk(lp))]
    loops_tx = [lp for lp in loops_tx if not any(inner is not lp and inner in loops_tx for inner in ast.walk(lp))]  # the innermost
    ok_tr, why_tr = False, 'no loop that hands the datagrams to the transmit primitive'
    for lp in loops_tx:
        it = lp.iter
        # (a list prepared by an earlier loop over the transports stands for those transports)
        if isinstance(it, ast.Name):
            feeders = [l2 for l2 in walk_local_ordered(snd.node) if isinstance(l2, ast.For) and l2 is not lp and any(isinstance(c_, ast.Call) and call_name(c_) == 'append' and isinstance(c_.func, ast.Attribute) and norm(c_.func.value) == it.id for c_ in ast.walk(l2))]
            if len(feeders) == 1:
                it = feeders[0].iter
        for given, addr_v in ((True, '192.0.2.7'), (True, None), (False, None)):
            v_ = fd.Evaluator(prog, snd.module, {p_tr: 'RECEIVING' if given else None, 'addr': addr_v, f'{snd.params[0]}.engine.senders': ['S1', 'S2']}).ev(expand_(snd, it))
            want_v = ['RECEIVING'] if given else ['S1', 'S2']
            if v_ is fd.UNKNOWN or list(v_) != want_v:
                ok_tr, why_tr = False, f'transport {"given" if given else "not given"}, address {addr_v}: the datagrams go through {v_!r}'
                break
        else:
            ok_tr, why_tr = True, ''
            continue
        break
    obs.append(ob(R, snd, loops_tx[0].iter if loops_tx else 'transports', 'a reply for which the receiving transport is given leaves through that transport only; otherwise through every sender', ok_tr, why_tr))
    uni = prog.func('zeroconf._handlers.answers.construct_outgoing_unicast_answers')
    c = next(c for f, c in sites if f is uni)
    obs.append(ob(R, uni, c, 'the unicast reply carries the id of the query', len(c.args) == 3 and norm(c.args[2]) == uni.params[3]))

    def effq(node: Any, evl: Any) -> List[Any]:
        return ['ECHO' for x in node.calls() if call_name(x) == 'add_question']

    for src in (True, False):
        oc, _ = traces(ctx, uni, {uni.params[1]: src}, effq, loop_bound=1, for_iter=lambda n, e: True)
        got = {('ECHO' in t) for t in oc}
        obs.append(ob(R, uni, f'ucast_source={src}', f'questions {"are" if src else "are not"} echoed in the unicast reply', got == {src}))
    mul = prog.func('zeroconf._handlers.answers.construct_outgoing_multicast_answers')
    has_q = [g.qual for g in ctx.cg.closure([mul]) if any(call_name(x) == 'add_question' for x in walk_local_ordered(g.node) if isinstance(x, ast.Call))]
    obs.append(ob(R, mul, 'construct_outgoing_multicast_answers', 'a multicast reply has no question section (nothing it calls adds a question)', not has_q, str(has_q)))
    # the unicast id comes from the first packet and the questions too
    s = prog.func(QH + '.handle_assembled_query')
    uc = [c for c in walk_local_ordered(s.node) if isinstance(c, ast.Call) and call_name(c) == 'construct_outgoing_unicast_answers']
    pk = s.params[1]
    got_q = xnorm(s, uc[0].args[2]) if uc and len(uc[0].args) == 4 else '?'
    got_id = xnorm(s, uc[0].args[3]) if uc and len(uc[0].args) == 4 else '?'
    obs.append(ob(R, s, f'construct_outgoing_unicast_answers(..., {got_q}, {got_id})', 'the unicast reply echoes id and questions of the (first) query packet', got_q == f'{pk}[0]._questions' and got_id == f'{pk}[0].id'))
    obs.append(ob(R, ('src/zeroconf/_dns.py', '<module>'), '_RECENT_TIME_MS', 'recently multicast = within one quarter of the TTL (250 ms per TTL second)', prog.const('zeroconf._dns', '_RECENT_TIME_MS') == 250))
    obs.append(ob(R, ('src/zeroconf/const.py', '<module>'), '_MDNS_PORT', 'the mDNS port is 5353', prog.const('zeroconf.const', '_MDNS_PORT') == 5353))
    # recent / last-second consult the cache entry for that record
    for nm in ('_has_mcast_within_one_quarter_ttl', '_has_mcast_record_in_last_second'):
        g = prog.func(QR + '.' + nm)
        calls = [c for c in walk_local_ordered(g.node) if isinstance(c, ast.Call) and call_name(c) == 'async_get_unique']
        obs.append(ob(R, g, calls[0] if calls else nm, 'the sighting consulted is the cache entry equal to the record being answered', len(calls) == 1 and [norm(a) for a in calls[0].args] == [g.params[1]]))
        obs.extend(sighting_predicate_table(ctx, R, nm))
    # `within a quarter of its TTL`, exactly: the test either is the record's own is_recent(arrival time) (normalised under
    # C05.LIFETIME to created + 250*ttl - now > 0) or normalises to that form itself; a whole-second quarter (ttl // 4) ends the
    # unicast-only window up to 750 ms early, and for TTLs below 4 s there is none
    gq = prog.func(QR + '._has_mcast_within_one_quarter_ttl')
    gme, grec = gq.params[0], gq.params[1]
    okq, whyq = False, ''
    try:
        eq = single_return_expr_(gq)
    except AnalysisError as e_:
        eq, whyq = None, str(e_)
    if eq is not None:
        parts = [eq]
        if isinstance(eq, ast.Call) and norm(eq.func) == 'bool' and len(eq.args) == 1:
            parts = [eq.args[0]]
        if isinstance(parts[0], ast.BoolOp) and isinstance(parts[0].op, ast.And):
            parts = list(parts[0].values)
        timing = [x for x in parts if not (isinstance(x, ast.Compare) and any(isinstance(o, (ast.Is, ast.IsNot)) for o in x.ops)) and not (isinstance(x, ast.UnaryOp) and isinstance(x.operand, ast.Compare) and any(isinstance(o, (ast.Is, ast.IsNot)) for o in x.operand.ops))]
        if len(timing) == 1:
            t_ = timing[0]
            if isinstance(t_, ast.Call) and call_name(t_) == 'is_recent' and len(t_.args) == 1 and self_attr(t_.args[0], gme) == '_now':
                okq = True
            else:
                try:
                    def qsym(x: ast.AST) -> Optional[str]:
                        if self_attr(x, gme) == '_now':
                            return 'NOW'
                        if isinstance(x, ast.Attribute) and x.attr == 'created':
                            return 'CREATED'
                        if isinstance(x, ast.Attribute) and x.attr == 'ttl':
                            return 'TTL'
                        return None

                    envq: Dict[str, Any] = {}
                    for st_ in walk_local_ordered(gq.node):
                        if isinstance(st_, ast.Assign) and isinstance(st_.targets[0], ast.Name):
                            try:
                                envq[st_.targets[0].id] = lf.poly(prog, gq.module, st_.value, qsym, envq)
                            except lf.NotLinear:
                                pass
                    okq = lf.same_cmp(lf.comparison(prog, gq.module, t_, qsym, envq), lf.parse_cmp('0 < CREATED + 250*TTL - NOW'))
                    whyq = '' if okq else f'the test is `{norm(t_)[:80]}`'
                except lf.NotLinear as e_:
                    whyq = f'not a linear form of the creation time, the TTL and the arrival time: {e_}'
        else:
            whyq = f'{len(timing)} timing conditions'
    obs.append(ob(R, gq, eq if eq is not None else '_has_mcast_within_one_quarter_ttl', 'a record counts as recently multicast exactly while now - created < 250 ms x TTL (a quarter of the TTL, no rounding)', okq, whyq))
    # the echoed id and questions are those of the FIRST packet of the query: the list handed to the handler keeps arrival
    # order -- the deferred packets as they came, the packet that completes the query appended last
    rq = prog.func('zeroconf._listener.AsyncListener._respond_query')
    rme, p_msg = rq.params[0], rq.params[1]
    hcall = [c for c in walk_local_ordered(rq.node) if isinstance(c, ast.Call) and call_name(c) == 'handle_assembled_query']
    okp, whyp = False, 'anchor: handle_assembled_query(packets, ...) not found'
    if hcall and hcall[0].args and isinstance(hcall[0].args[0], ast.Name):
        from .common import local_defs as _ld2

        pk = hcall[0].args[0].id
        defs = [v for v in _ld2(rq).get(pk, []) if v is not None]
        # the deferred packets popped as they are -- or, where none are deferred, the list that holds at most the new packet
        is_pop = lambda d: isinstance(d, ast.Call) and call_name(d) == 'pop' and isinstance(d.func, ast.Attribute) and self_attr(d.func.value, rme) == '_deferred'  # noqa: E731
        is_fresh = lambda d: isinstance(d, ast.List) and all(norm(e_) == p_msg for e_ in d.elts) and len(d.elts) <= 1  # noqa: E731
        def arms(d: ast.AST) -> List[ast.AST]:
            return arms(d.body) + arms(d.orelse) if isinstance(d, ast.IfExp) else [d]

        defs_f = [a_ for d in defs for a_ in arms(d)]
        from_deferred = sum(1 for d in defs_f if is_pop(d)) == 1 and all(is_pop(d) or is_fresh(d) for d in defs_f)
        appends = [c for c in walk_local_ordered(rq.node) if isinstance(c, ast.Call) and call_name(c) == 'append' and isinstance(c.func, ast.Attribute) and norm(c.func.value) == pk and c.args and norm(c.args[0]) == p_msg]
        others = [c for c in walk_local_ordered(rq.node) if isinstance(c, ast.Call) and call_name(c) in ('insert', 'extend', 'appendleft', 'reverse', 'sort') and isinstance(c.func, ast.Attribute) and norm(c.func.value) == pk]
        okp = from_deferred and len(appends) == 1 and not others
        whyp = '' if okp else f'`{pk}` is built as {[norm(d)[:50] for d in defs]} with {len(appends)} append(s) of the new packet and other reordering calls {[norm(o)[:40] for o in others]}'
    obs.append(ob(R, rq, hcall[0] if hcall else '_respond_query', 'the packets of a reassembled query reach the handler in arrival order (deferred ones first, the completing one last)', okp, whyp))
    return obs


EXPLANATION = (
    'C11.ROUTE (decided): finite-domain decision tables of the per-question routing, the QU answer routine, the multicast answer '
    'routine and the four sinks of the assembled-query handler, against the oracle in the property text; parameter pass-through of '
    'source address/port/transport from the protocol. C11.FORMAT (decided): all message construction sites enumerated with folded flag '
    'and multicast arguments; unicast reply id/question echo; no question in multicast replies. Cache-flush bits: C01.FLUSHBIT; id 0 '
    'iff multicast: C14.TC. Not decided: traces over all queries and record ages [X].'
)
EXPLANATION_ADDENDUM = (
    ' C11.ROUTE also requires the dispatched message to be decoded from this datagram with this arrival time (the `recently multicast` tests read it).'
)
EXPLANATION = EXPLANATION + EXPLANATION_ADDENDUM

RULES = [route, fmt]

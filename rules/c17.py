"""C17 -- shutdown is complete and quiet (transmit gate, goodbye ordering, timers, listeners)."""
from __future__ import annotations

import ast
from typing import Any, Dict, List, Optional, Set, Tuple

from sa import AnalysisError, StructuralViolation, fd
from sa.cf import cfg_of
from sa.pm import FuncInfo, call_name, norm, self_attr, walk_local_ordered
from sa.report import Ob, rule

from .common import attr_stores, ob, receiver_classes, strip_ret, traces

ZC = 'zeroconf._core.Zeroconf'
RAW_SEND_NAMES = {'sendto', 'sendmsg', 'sendall', 'send', 'send_bytes', 'write', 'writelines'}
RAW_SEND_OWNERS = ('asyncio.transports.', 'socket.socket', '_socket.socket', 'asyncio.trsock')


def raw_send_sites(ctx: Any) -> List[Any]:
    out = []
    for sites in ctx.cg.sites.values():
        for s in sites:
            if call_name(s.node) not in RAW_SEND_NAMES:
                continue
            if any(e.startswith(RAW_SEND_OWNERS) for e in s.ext):
                out.append(s)
            elif s.unresolved and call_name(s.node) in ('sendto', 'sendmsg'):
                out.append(s)
    return out


def done_atoms(ctx: Any, f: FuncInfo) -> Dict[str, Any]:
    """Atoms `<expr>.done` = True for every attribute load of `done` on a Zeroconf instance in f."""
    atoms: Dict[str, Any] = {}
    for n in walk_local_ordered(f.node):
        if isinstance(n, ast.Attribute) and n.attr == 'done' and isinstance(n.ctx, ast.Load):
            if ZC in receiver_classes(ctx, f, n.value):
                atoms[norm(n)] = True
    return atoms


def site_gated(ctx: Any, f: FuncInfo, call: ast.Call) -> bool:
    """True iff, once `done` is set, no path through f reaches `call`."""
    atoms = done_atoms(ctx, f)
    if not atoms:
        return False

    def eff(node: Any, evl: Any) -> List[Any]:
        return ['HIT'] if any(c is call for c in node.calls()) else []

    oc, _ = traces(ctx, f, atoms, eff)
    return not any('HIT' in t for t in oc)


def ungated_chain(ctx: Any, f: FuncInfo, call: ast.Call, seen: Optional[Set[str]] = None) -> Optional[List[str]]:
    """A call chain (root first) along which `call` in f can execute with done set; None if every chain is gated."""
    seen = seen if seen is not None else set()
    if site_gated(ctx, f, call):
        return None
    here = f'{f.where()}:{call.lineno} `{norm(call.func)}(...)`'
    if f.full in seen:
        return None
    seen.add(f.full)
    callers = ctx.cg.callers_of(f)
    refs = [d for d in ctx.cg.deferred if f in d.targets]
    if not callers and not refs:
        return [f'<entry> {f.where()}', here]
    for d in refs:
        ch = ungated_chain(ctx, d.caller, d.call, seen)
        if ch is not None:
            return ch + [f'(scheduled via {d.api})', here]
    for s in callers:
        ch = ungated_chain(ctx, s.caller, s.node, seen)
        if ch is not None:
            return ch + [here]
    return None


@rule('C17.GATE', 'D', expect_min=6)
def gate(ctx: Any) -> List[Ob]:
    """Transmit gate: every call that hands a datagram to a socket/transport is
    reachable only through a function in which the instance's `done` flag, once
    set, blocks every path to it; `done` is cleared only in the constructor and
    set in `_close`; `_close` runs on every path of close()/_async_close()
    before the engine is closed.  Together: once close has set `done`, nothing
    is transmitted, for every schedule."""
    R = 'C17.GATE'
    prog = ctx.prog
    obs: List[Ob] = []
    sends = raw_send_sites(ctx)
    if not sends:
        raise AnalysisError('anchor vanished: no transport/socket send call found in the package')
    ctx.counters['raw_send_sites'] = [f'{s.caller.where()}:{s.line}' for s in sends]
    for s in sends:
        ch = ungated_chain(ctx, s.caller, s.node)
        obs.append(ob(R, s.caller, s.node, 'every call chain to this transmit passes an `if done: return` gate', ch is None, 'reachable with done set', ch))
    # writers of Zeroconf.done
    zc = prog.cls(ZC)
    n_w = 0
    for f in prog.functions.values():
        for t, st in attr_stores(f.node):
            if t.attr != 'done':
                continue
            rc = receiver_classes(ctx, f, t.value)
            if ZC not in rc and '?' not in rc:
                continue
            n_w += 1
            val = st.value if isinstance(st, (ast.Assign, ast.AnnAssign)) else None
            okc, v = prog.try_fold(f.module, val) if val is not None else (False, None)
            if f.full == ZC + '.__init__':
                obs.append(ob(R, f, st, 'constructor initialises done', True))
            else:
                obs.append(ob(R, f, st, '`done` is never cleared after construction (only the constant True is stored)', okc and v is True, '' if okc and v is True else 'stores something other than True'))
    if n_w < 2:
        zi = prog.func(ZC + '.__init__')
        raise StructuralViolation(zi.module.rel, 'Zeroconf', 'self.done = False (constructor) / self.done = True (_close)', 'the transmit gate `done` is initialised by the constructor and set by _close', f'only {n_w} store(s) into Zeroconf.done are left: the gate is never {"closed" if any("constructor" in o.statement for o in obs) else "initialised"}')
    # _close sets done on every path where it was not set
    closef = prog.func(ZC + '._close')
    cfg = cfg_of(closef.node)
    atoms = {k: False for k in done_atoms(ctx, closef)}

    def eff(node: Any, evl: Any) -> List[Any]:
        out = []
        if node.kind == 'stmt':
            for t, st in attr_stores(node.ast):
                if t.attr == 'done' and self_attr(t, closef.params[0]) == 'done':
                    out.append('SET')
        return out

    oc, _ = traces(ctx, closef, atoms, eff)
    bad = [t for t in oc if 'SET' not in t]
    obs.append(ob(R, closef, 'self.done = True', '_close sets `done` on every path on which it was not already set', not bad and bool(oc)))
    # close() and _async_close(): _close before the engine is closed, on every path
    for fn, engine_call in ((ZC + '.close', 'close'), (ZC + '._async_close', '_async_close')):
        f = prog.func(fn)
        c = cfg_of(f.node)
        n_close = [n for n in c.nodes if any(call_name(x) == '_close' and self_attr(x.func.value if isinstance(x.func, ast.Attribute) else x.func, f.params[0]) is None and isinstance(x.func, ast.Attribute) and norm(x.func.value) == f.params[0] for x in n.calls())]
        n_eng = [n for n in c.nodes if any(call_name(x) == engine_call and isinstance(x.func, ast.Attribute) and norm(x.func.value).endswith('.engine') for x in n.calls())]
        if not n_close or not n_eng:
            raise StructuralViolation(f.module.rel, f.qual, 'self._close() ... self.engine.' + engine_call + '()', f'{f.name} closes the gate (_close) and then the engine', ('no call of _close()' if not n_close else f'no call of engine.{engine_call}()') + f' is left in {f.name}')
        w = c.must_pass_before_exit(c.entry, lambda n: n in n_close)
        obs.append(ob(R, f, 'self._close()', f'every path through {f.name} calls _close()', w is None, '', [x.text() for x in w] if w else None))
        for e in n_eng:
            obs.append(ob(R, f, e.ast, '_close() (sets done, removes browsers) precedes closing the engine', c.dominated_by_any(e, n_close)))
    return obs


@rule('C17.GOODBYE', 'D', expect_min=5)
def goodbye(ctx: Any) -> List[Ob]:
    """Goodbyes go out before the gate closes: unregister_all_services precedes
    _close in Zeroconf.close (non-loop-thread arm) and async_unregister_all_services
    precedes _async_close in AsyncZeroconf.async_close; browsers are removed first."""
    R = 'C17.GOODBYE'
    prog = ctx.prog
    obs: List[Ob] = []
    f = prog.func(ZC + '.close')
    eff_names = {'unregister_all_services': 'UNREG', '_close': 'CLOSE', 'close': 'ENGINE', '_shutdown_threads': 'THREADS'}

    def eff(node: Any, evl: Any) -> List[Any]:
        out = []
        for c in node.calls():
            nm = call_name(c)
            if nm in eff_names and isinstance(c.func, ast.Attribute):
                if nm == 'close' and not norm(c.func.value).endswith('engine'):
                    continue
                out.append(eff_names[nm])
        return out

    oc, _ = traces(ctx, f, {}, eff)
    tr = {strip_ret(t) for t in oc}
    bad_order = [t for t in tr if 'UNREG' in t and 'CLOSE' in t and t.index('CLOSE') < t.index('UNREG')]
    obs.append(ob(R, f, 'self.unregister_all_services() ... self._close()', 'on no path is the gate closed before the goodbyes are sent', not bad_order, str(bad_order)))
    obs.append(ob(R, f, 'self.unregister_all_services()', 'close() sends goodbyes on some path (the non-loop-thread arm)', any('UNREG' in t for t in tr)))
    # the arm that skips the goodbyes is exactly: loop not running, or called from the loop thread
    atoms_run = [norm(n) for n in walk_local_ordered(f.node) if isinstance(n, ast.Call) and call_name(n) == 'is_running']
    atoms_same = [norm(n) for n in walk_local_ordered(f.node) if isinstance(n, ast.Compare) and 'get_running_loop' in norm(n)]
    if atoms_run and atoms_same:
        sign = {}
        for a in atoms_same:
            cmp_node = next(n for n in walk_local_ordered(f.node) if isinstance(n, ast.Compare) and norm(n) == a)
            sign[a] = not isinstance(cmp_node.ops[0], (ast.Eq, ast.Is))  # value meaning "different thread"
        atoms = {a: True for a in atoms_run}
        atoms.update(sign)
        oc2, und = traces(ctx, f, atoms, eff)
        tr2 = {strip_ret(t) for t in oc2}
        good = tr2 == {('UNREG', 'CLOSE', 'ENGINE', 'THREADS')}
        obs.append(ob(R, f, 'close() from a non-loop thread with the loop running', 'the effect sequence is goodbyes, gate, engine close, thread shutdown', good, f'traces {sorted(tr2)}'))
    else:
        raise AnalysisError('anchor vanished: is_running()/get_running_loop() tests in Zeroconf.close')
    # AsyncZeroconf.async_close
    g = prog.func('zeroconf.asyncio.AsyncZeroconf.async_close')
    names = {'async_remove_all_service_listeners': 'BROWSERS', 'async_unregister_all_services': 'UNREG', '_async_close': 'CLOSE', 'async_wait_for_start': 'START'}

    def eff2(node: Any, evl: Any) -> List[Any]:
        return [names[call_name(c)] for c in node.calls() if call_name(c) in names]

    oc3, _ = traces(ctx, g, {'.done': False}, eff2)
    tr3 = {strip_ret(t) for t in oc3}
    obs.append(ob(R, g, 'async_close() on an instance that is not closed yet', 'every path: start-up is awaited (so that the sockets being created are the ones closed), browsers removed, goodbyes sent, then the instance is closed', tr3 == {('START', 'BROWSERS', 'UNREG', 'CLOSE')}, f'traces {sorted(tr3)}'))
    oc3b, _ = traces(ctx, g, {'.done': True}, eff2)
    tr3b = {tuple(x for x in strip_ret(t) if x != 'START') for t in oc3b}
    obs.append(ob(R, g, 'async_close() on a closed instance', 'browsers removed, goodbyes (none left), close (a no-op)', tr3b == {('BROWSERS', 'UNREG', 'CLOSE')}, f'traces {sorted(tr3b)}'))
    # nothing registered survives the goodbye routine, and nothing can run between its return and the closing of the gate
    ua = prog.func(ZC + '.async_unregister_all_services')
    cfg_u = cfg_of(ua.node)
    sends_u = cfg_u.nodes_calling('async_send')
    if not sends_u:
        raise AnalysisError('anchor vanished: async_send in async_unregister_all_services')
    aw_u = [n for n in cfg_u.nodes if any(isinstance(x, ast.Await) for e in n.exprs() for x in ast.walk(e))]
    # what it withdrew is everything that is registered when it returns: a registration that was still probing can
    # complete while the goodbyes are being sent, so after the last suspension the registry is looked at again
    bad_paths = []
    n_paths = 0
    for path in cfg_u.paths(loop_bound=2):
        if path[-1][0] is cfg_u.raise_exit:
            continue
        n_paths += 1
        kinds = []
        for n, _lab in path:
            if any(call_name(c) == 'generate_unregister_all_services' for c in n.calls()):
                kinds.append('SNAPSHOT')
            if n in aw_u:
                kinds.append('SUSPEND')
        if 'SUSPEND' in kinds and 'SNAPSHOT' not in kinds[len(kinds) - kinds[::-1].index('SUSPEND'):]:
            bad_paths.append(' -> '.join(str(n.line) for n, _ in path if n.line))
    obs.append(ob(R, ua, 'generate_unregister_all_services() ... await ... return', 'on every path the registry is examined again after the last suspension (a service registered while the goodbyes were being sent is withdrawn too)', n_paths > 0 and not bad_paths, 'path through lines ' + bad_paths[0] if bad_paths else ''))
    # decision table of the routine: a goodbye message is transmitted three times, then the registry is examined again; with
    # nothing (left) registered it returns without transmitting
    gen_calls = {norm(c) for c in ast.walk(ua.node) if isinstance(c, ast.Call) and call_name(c) == 'generate_unregister_all_services'}
    want_n = prog.const('zeroconf._core', '_REGISTER_BROADCASTS')

    def count_iter(node: Any, evl: Any) -> Any:
        it = node.ast.iter
        if isinstance(it, ast.Call) and norm(it.func) == 'range' and len(it.args) == 1 and isinstance(node.ast.target, ast.Name):
            k = evl.ev(it.args[0])
            cur = evl.locals.get(node.ast.target.id)
            if isinstance(k, int):
                return (0 if not isinstance(cur, int) else cur + 1) < k
        return None

    def eff_u(node: Any, evl: Any) -> List[Any]:
        out = ['GEN' for c in fd.node_calls(node, evl) if call_name(c) == 'generate_unregister_all_services']
        out += ['SEND' for c in fd.node_calls(node, evl) if call_name(c) == 'async_send']
        return out

    gen_nodes = [n for n in cfg_u.nodes if any(call_name(c) == 'generate_unregister_all_services' for c in n.calls())]
    oc_none, und_n = fd.run_paths(prog, ua.module, cfg_u, {c: None for c in gen_calls}, eff_u, loop_bound=want_n + 2, for_iter=count_iter)
    none_ok = bool(oc_none) and all('SEND' not in t for t in oc_none)
    # one round with a message: from the snapshot to the next snapshot (or the exit)
    oc_msg, und_m = fd.run_paths(prog, ua.module, cfg_u, {c: 'goodbye-message' for c in gen_calls}, eff_u, start=gen_nodes[0] if gen_nodes else None, stop=lambda n: n in gen_nodes, loop_bound=want_n + 2, for_iter=count_iter)
    rounds = sorted({sum(1 for x in t if x == 'SEND') for t in oc_msg})
    back = all(t and t[-1] != ('ret', None) and not any(isinstance(x, tuple) and x[0] == 'ret' for x in t) for t in oc_msg)
    obs.append(ob(R, ua, 'out = self.generate_unregister_all_services(); if not out: return; for i in range(_REGISTER_BROADCASTS): ... self.async_send(out)', 'a goodbye message is transmitted three times and the registry examined again; with nothing registered the routine returns without transmitting', none_ok and rounds == [want_n] and back and not und_n and not und_m and bool(gen_nodes), f'nothing registered: {sorted(map(str, oc_none))[:2]}; transmissions per goodbye message: {rounds}; returns to the snapshot: {back}; undecided {und_n + und_m}'))
    from .c08 import closing_goodbye_obligation

    obs.append(closing_goodbye_obligation(ctx, R))
    gcfg = cfg_of(g.node)
    un = gcfg.nodes_calling('async_unregister_all_services')
    cl = gcfg.nodes_calling('_async_close')
    between = [n for n in gcfg.nodes if n not in un and n not in cl and any(isinstance(x, ast.Await) for e in n.exprs() for x in ast.walk(e)) and any(gcfg.can_reach(u_, n) for u_ in un) and any(gcfg.can_reach(n, c_) for c_ in cl)]
    obs.append(ob(R, g, between[0].ast if between else 'await ...unregister_all...; await ..._async_close()', 'async_close does not suspend between the goodbyes and the closing of the gate', bool(un) and bool(cl) and not between))
    # _close removes browsers
    cf = prog.func(ZC + '._close')
    atoms = {k: False for k in done_atoms(ctx, cf)}

    def eff3(node: Any, evl: Any) -> List[Any]:
        return ['BROWSERS' for c in node.calls() if call_name(c) == 'remove_all_service_listeners']

    oc4, _ = traces(ctx, cf, atoms, eff3)
    obs.append(ob(R, cf, 'self.remove_all_service_listeners()', '_close cancels every browser on the path that sets done', all('BROWSERS' in t for t in oc4) and bool(oc4)))
    atoms_t = {k: True for k in done_atoms(ctx, cf)}

    def eff4(node: Any, evl: Any) -> List[Any]:
        out = [norm(c.func) for c in node.calls() if not norm(c.func).startswith(('log.', 'logging.'))]  # a log line is not an effect
        if node.kind == 'stmt':
            out += [norm(t) for t, _ in attr_stores(node.ast)]
        return out

    oc5, _ = traces(ctx, cf, atoms_t, eff4)
    obs.append(ob(R, cf, 'if self.done: return', 'closing again is a no-op (no effect once done is set)', all(not strip_ret(t) for t in oc5) and bool(oc5), str(sorted(oc5))))
    return obs


def _cancel_sites(ctx: Any, attr: str, cls_full: str) -> List[Tuple[FuncInfo, ast.Call]]:
    from .common import expand as _xp_cs

    out = []
    c = ctx.prog.cls(cls_full)
    fam = [c] + c.all_subclasses()
    for k in fam:
        for f in k.methods.values():
            me = f.params[0] if f.params else 'self'
            for n in walk_local_ordered(f.node):
                if isinstance(n, ast.Call) and call_name(n) == 'cancel' and isinstance(n.func, ast.Attribute):
                    # on the attribute itself, or on a local that names it (`timer = self._cleanup_timer; timer.cancel()`) --
                    # provided the local is not a stale snapshot: nothing between its binding and the cancel gives the event
                    # loop a turn (an await there lets the callback re-arm, and the handle cancelled is then the old one)
                    if any(self_attr(x, me) == attr for x in ast.walk(n.func.value)):
                        out.append((f, n))
                    elif isinstance(n.func.value, ast.Name) and any(self_attr(x, me) == attr for x in ast.walk(_xp_cs(f, n.func.value))):
                        cfg_c = cfg_of(f.node)
                        binds = [b for b in cfg_c.nodes if b.kind == 'stmt' and isinstance(b.ast, ast.Assign) and norm(b.ast.targets[0]) == n.func.value.id]
                        host = [h for h in cfg_c.nodes if any(c_ is n for c_ in h.calls())]
                        yields = [y for y in cfg_c.nodes if y.ast is not None and any(isinstance(e_, (ast.Await, ast.Yield, ast.YieldFrom)) for x_ in y.exprs() for e_ in ast.walk(x_))]
                        stale = any(cfg_c.can_reach(b, y) and cfg_c.can_reach(y, h) and y is not b for b in binds for h in host for y in yields)
                        if binds and host and not stale:
                            out.append((f, n))
    return out


SHUTDOWN_ROOTS = [
    ZC + '.close', ZC + '._close', ZC + '._async_close', 'zeroconf.asyncio.AsyncZeroconf.async_close',
    'zeroconf._engine.AsyncEngine._async_close',
]


def _boundary_sites(ctx: Any, f: FuncInfo) -> List[str]:
    out = []
    # timers armed from here are obligations of their own (each creation site is classified separately)
    for g in ctx.cg.closure([f], include_deferred=False):
        for s in ctx.cg.sites_in(g):
            if s.boundary or (s.unresolved and not isinstance(s.node.func, ast.Attribute)) or (s.unresolved and isinstance(s.node.func, ast.Call)):
                out.append(f'{g.where()}:{s.line} `{norm(s.node.func)}`')
    return out


def _body_gated(ctx: Any, f: FuncInfo) -> bool:
    atoms = done_atoms(ctx, f)
    if not atoms:
        return False

    def eff(node: Any, evl: Any) -> List[Any]:
        out = [norm(c.func) for c in node.calls()]
        if node.kind == 'stmt':
            out += [norm(t) for t, _ in attr_stores(node.ast)]
        return out

    oc, _ = traces(ctx, f, atoms, eff)
    return bool(oc) and all(not strip_ret(t) for t in oc)


@rule('C17.TIMERS', 'N', expect_min=12)
def timers(ctx: Any) -> List[Ob]:
    """Every loop timer / task the library creates is either cancelled on the
    shutdown path of its owner (its handle is stored and a cancel of that handle
    is reachable from close/_close/_async_close/async_close), or is quiet after
    close: its body starts with the done gate, or nothing it can reach calls a
    user callback (every transmit it reaches is gated by C17.GATE)."""
    R = 'C17.TIMERS'
    cg = ctx.cg
    prog = ctx.prog
    obs: List[Ob] = []
    roots = [prog.func(r) for r in SHUTDOWN_ROOTS]
    shutdown_closure = set(x.full for x in cg.closure(roots, include_deferred=True))
    table = []
    survivors: List[FuncInfo] = []
    for d in cg.deferred:
        if d.api == 'partial':
            continue
        for cb in d.targets:
            how: List[str] = []
            # (1) handle stored in self.<attr> and cancelled on a shutdown path
            parent = _assign_parent(d.caller, d.call)
            stored_attr = None
            if parent is not None:
                for t in parent.targets if isinstance(parent, ast.Assign) else [parent.target]:
                    base = t.value if isinstance(t, ast.Subscript) else t
                    a = self_attr(base, d.caller.params[0] if d.caller.params else 'self')
                    if a:
                        stored_attr = a
                    elif isinstance(t, ast.Name):
                        # local handle: cancelled on every exit (finally)?
                        c = cfg_of(d.caller.node)
                        start = next((n for n in c.nodes if any(x is d.call for x in n.calls())), None)
                        if start is not None:
                            canc = lambda n, _t=t: any(call_name(x) == 'cancel' and isinstance(x.func, ast.Attribute) and norm(x.func.value) == _t.id for x in n.calls())  # noqa: E731
                            w = c.path_avoiding(start, lambda n: n in (c.exit, c.raise_exit), canc, follow_exc=True)
                            if w is None:
                                how.append(f'local handle `{t.id}` is cancelled on every exit')
            if stored_attr and d.caller.cls is not None:
                cs = _cancel_sites(ctx, stored_attr, d.caller.cls.full)
                live = [f for f, _ in cs if f.full in shutdown_closure]
                if live:
                    how.append(f'handle stored in self.{stored_attr}; cancelled in {live[0].qual} on the shutdown path')
            # (2) done gate at the top of the callback
            if _body_gated(ctx, cb):
                how.append('body is gated: with done set the callback has no effect')
            # (3) quiet: reaches no user callback
            b = _boundary_sites(ctx, cb)
            if not b:
                how.append('reaches no user callback (transmits are gated by C17.GATE)')
            api_driven = d.api == 'call_soon_threadsafe'
            if api_driven:
                # trampolines of the public thread-safe API: they run only as the direct consequence of an API call
                table.append({'site': f'{d.caller.where()}:{d.call.lineno}', 'api': d.api, 'callback': cb.qual, 'class': 'API trampoline (outside the quantifier: runs only because the user called the API)'})
                continue
            table.append({'site': f'{d.caller.where()}:{d.call.lineno}', 'api': d.api, 'callback': cb.qual, 'class': how})
            obs.append(ob(R, d.caller, d.call, f'timer for {cb.qual} is cancelled at shutdown or quiet after close', bool(how), '; '.join(how) if how else 'handle not cancelled on any shutdown path, no done gate, reaches user callbacks: ' + '; '.join(b[:3])))
            if how and not any(h.startswith(('handle stored', 'local handle')) for h in how):
                survivors.append(cb)
    # `no timer left behind raises`: a timer that is not cancelled at shutdown runs after close has returned, on whatever state
    # the shutdown left (queues emptied, tables cleared) -- so every partial container access it can reach must be guarded
    # (the C15.CONTAINERS obligations of the functions such a callback reaches)
    if survivors:
        from .c15 import containers as _containers

        reach = {f.full for f in cg.closure(survivors, include_deferred=False)}
        for o in _containers.fn(ctx):
            if any(fi.module.rel == o.file and fi.qual == o.function for fi in ctx.prog.functions.values() if fi.full in reach):
                o.rule = R
                o.statement += ' -- reached from a timer that is left armed at close'
                obs.append(o)
    # tasks
    for fn, sites in cg.sites.items():
        for s in sites:
            nm = call_name(s.node)
            if nm not in ('ensure_future', 'create_task'):
                continue
            coro = next((a for a in s.node.args if isinstance(a, ast.Call)), None)
            if coro is None:
                continue
            tg = [t for ss in cg.sites_in(s.caller) if ss.node is coro for t in ss.targets]
            for cb in tg:
                how = []
                parent = _assign_parent(s.caller, s.node)
                if parent is not None and isinstance(parent, ast.Assign):
                    for t in parent.targets:
                        a = self_attr(t, s.caller.params[0] if s.caller.params else 'self')
                        if a and s.caller.cls is not None:
                            cs = _cancel_sites(ctx, a, s.caller.cls.full)
                            live = [f for f, _ in cs if f.full in shutdown_closure]
                            if live:
                                how.append(f'task stored in self.{a}; cancelled in {live[0].qual} on the shutdown path')
                b = _boundary_sites(ctx, cb)
                if not b:
                    how.append('reaches no user callback (transmits are gated by C17.GATE)')
                table.append({'site': f'{s.caller.where()}:{s.line}', 'api': nm, 'callback': cb.qual, 'class': how})
                obs.append(ob(R, s.caller, s.node, f'task {cb.qual} is cancelled at shutdown or quiet after close', bool(how), '; '.join(how) if how else 'reaches user callbacks: ' + '; '.join(b[:3])))
    # a lookup in progress at close ends quietly (it runs out at its timeout): once the lookup has registered its listener
    # and may be waiting, nothing it reaches raises of its own accord -- the only routine of the package that raises because
    # the instance is no longer running (the start-up wait) is called before the lookup starts listening, never from its loop
    raisers = [g for g in prog.functions.values() if any(isinstance(r, ast.Raise) and r.exc is not None and 'NotRunning' in norm(r.exc) for r in walk_local_ordered(g.node))]
    if not raisers:
        raise AnalysisError('anchor vanished: the routine that raises NotRunningException')
    lk = prog.func('zeroconf._services.info.ServiceInfo.async_request')
    lcfg = cfg_of(lk.node)
    listen = [n for n in lcfg.nodes if any(call_name(c) in ('async_add_listener', 'add_listener') for c in n.calls())]
    waits = [n for n in lcfg.nodes if any(call_name(c) == 'async_wait' for c in n.calls())]
    if not listen or not waits:
        raise AnalysisError('anchor vanished: listener registration / wait of the lookup loop')
    raising_nodes = []
    for n in lcfg.nodes:
        for c in n.calls():
            for s_ in cg.sites.get(lk.full, []):
                if s_.node is c and any(r in cg.closure(list(s_.targets), include_deferred=False) for r in raisers):
                    raising_nodes.append(n)
    late = [n for n in raising_nodes if any(lcfg.path_avoiding(a, lambda x, n=n: x is n, lambda x: False) is not None for a in listen + waits)]
    obs.append(ob(R, lk, late[0].ast if late else (raising_nodes[0].ast if raising_nodes else 'await zc.async_wait_for_start()'), 'a lookup that has started listening or waiting never reaches the routine that raises NotRunningException (it ends quietly when the instance closes under it)', not late, f'{len(late)} call(s) reachable after the lookup started listening / from its loop'))
    ctx.counters['timer_table'] = table
    ctx.counters['excluded'] = [
        'AsyncEngine.close called from the loop thread: outside the quantifier (close from a non-loop thread / async_close)',
        'run_coroutine_threadsafe sites: blocking API calls made by the user thread, complete before the API returns',
    ]
    return obs


def _assign_parent(f: FuncInfo, call: ast.Call) -> Optional[ast.AST]:
    for n in walk_local_ordered(f.node):
        if isinstance(n, (ast.Assign, ast.AnnAssign)) and n.value is call:
            return n
    return None


def lookup_listener_obligations(ctx: Any, R: str) -> List[Ob]:
    """A lookup removes its record listener on every exit, and does so at once (the loop-side removal, not the thread-safe
    one that only schedules the removal for a later iteration -- by then a retry on the same object may have re-registered)."""
    prog = ctx.prog
    f = prog.func('zeroconf._services.info.ServiceInfo.async_request')
    c = cfg_of(f.node)
    adds = c.nodes_calling('async_add_listener')
    if not adds:
        raise AnalysisError('anchor vanished: async_add_listener in async_request')
    rem = lambda n: any(call_name(x) == 'async_remove_listener' for x in n.calls())  # noqa: E731
    obs: List[Ob] = []
    for a in adds:
        w = c.path_avoiding(a, lambda n: n in (c.exit, c.raise_exit), rem, follow_exc=True)
        obs.append(ob(R, f, a.ast, 'the lookup listener is removed on every exit, normal or exceptional', w is None, '', [x.text() for x in w] if w else None))
    zc = prog.cls('zeroconf._core.Zeroconf')
    deferred_removers = [m.name for m in zc.methods.values() if 'remove_listener' in m.name and any(isinstance(x, ast.Call) and call_name(x) in ('call_soon_threadsafe', 'call_soon', 'run_coroutine_threadsafe') for x in walk_local_ordered(m.node))]
    late = [x for x in walk_local_ordered(f.node) if isinstance(x, ast.Call) and call_name(x) in deferred_removers]
    obs.append(ob(R, f, late[0] if late else 'zc.async_remove_listener(self)', 'the removal happens before the lookup returns (not scheduled for a later loop iteration)', not late, f'`{norm(late[0])}` only schedules the removal' if late else ''))
    # ... and removing means removing: the chain from the public call ends in the listener set losing the listener
    zr = zc.methods.get('async_remove_listener')
    rmr = prog.func('zeroconf._handlers.record_manager.RecordManager.async_remove_listener')
    fwd = [x for x in walk_local_ordered(zr.node) if isinstance(x, ast.Call) and call_name(x) == 'async_remove_listener' and 'record_manager' in norm(x.func)] if zr is not None else []
    drops = [x for x in walk_local_ordered(rmr.node) if isinstance(x, ast.Call) and call_name(x) in ('remove', 'discard') and isinstance(x.func, ast.Attribute) and self_attr(x.func.value, rmr.params[0]) == 'listeners' and x.args and norm(x.args[0]) == rmr.params[1]]
    rc = cfg_of(rmr.node)
    drop_nodes = [n for n in rc.nodes if any(any(y is d for d in drops) for y in n.calls())]
    skip = rc.path_avoiding(rc.entry, lambda n: n is rc.exit, lambda n: n in drop_nodes) if drop_nodes else [rc.entry]
    obs.append(ob(R, rmr, drops[0] if drops else 'self.listeners.remove(listener)', 'removing a record listener takes it out of the listener set on every path (a removed listener -- a finished lookup, a cancelled browser -- is never called again)', bool(fwd) and bool(drops) and skip is None, '' if drops else 'the listener set is not touched'))
    return obs


@rule('C17.LISTENER', 'D', expect_min=6)
def listener(ctx: Any) -> List[Ob]:
    """Pairing: a lookup removes its record listener on every exit (finally);
    cancelling a browser stops its scheduler, removes its listener and cancels
    its task on every path; the scheduler's stop cancels the armed timer; the
    wait helper cancels its timeout handle on every exit."""
    R = 'C17.LISTENER'
    prog = ctx.prog
    obs: List[Ob] = []
    obs.extend(lookup_listener_obligations(ctx, R))
    # also: an exception in the very statement that adds must not leak a half-added listener: add is inside the try
    g = prog.func('zeroconf._services.browser._ServiceBrowserBase._async_cancel')
    cg_ = cfg_of(g.node)
    for nm, what in (('stop', 'stops the query scheduler'), ('async_remove_listener', 'removes its record listener'), ('cancel', 'cancels its start-up task')):
        w = cg_.must_pass_before_exit(cg_.entry, lambda n, nm=nm: any(call_name(x) == nm for x in n.calls()))
        obs.append(ob(R, g, f'.{nm}()', f'cancelling a browser {what} on every path', w is None, '', [x.text() for x in w] if w else None))
    # the asyncio front-end reaches that routine for every browser it created: closing removes all service listeners, removing
    # all removes each one still registered, removing one cancels its browser (and forgets it), and the browser's async cancel
    # is the cancel routine above -- a link that does nothing leaves browsers listening and querying after async_close
    az = prog.cls('zeroconf.asyncio.AsyncZeroconf')
    ab = prog.cls('zeroconf.asyncio.AsyncServiceBrowser')
    chain = [
        (az.methods.get('async_close'), 'async_remove_all_service_listeners', 'closing removes every service listener'),
        (az.methods.get('async_remove_all_service_listeners'), 'async_remove_service_listener', 'removing all listeners removes each'),
        (ab.methods.get('async_cancel'), '_async_cancel', 'the browser\'s async cancel runs the cancel routine'),
    ]
    for fm, callee, what in chain:
        if fm is None:
            raise AnalysisError(f'anchor vanished: the asyncio routine that calls {callee}')
        fcfg = cfg_of(fm.node)
        hits = [n for n in fcfg.nodes if any(call_name(x) == callee for e in n.exprs() for x in ast.walk(e) if isinstance(x, ast.Call))]
        # (a call made once per element in the body of a loop that has no way round it is made for every element: the loop
        # head stands for it -- zero trips means there was nothing to remove)
        for lp_ in [n for n in fcfg.nodes if n.kind == 'for']:
            inner = [h_ for h_ in hits if h_.in_loop and any(l_ is lp_.ast for l_ in h_.in_loop)]
            if inner and not any(isinstance(x, (ast.If, ast.Continue, ast.Break, ast.Try)) for x in ast.walk(lp_.ast)):
                hits.append(lp_)
        byp_c = fcfg.must_pass_before_exit(fcfg.entry, lambda n: n in hits) if hits else [fcfg.entry]
        obs.append(ob(R, fm, hits[0].ast if hits else callee, f'{what} (on every path)', bool(hits) and byp_c is None))
    from .common import expand as _xp_st  # noqa: F811

    ra_ = az.methods.get('async_remove_all_service_listeners')
    whole_ = ra_ is not None and any(isinstance(g_, ast.comprehension) and not g_.ifs and any(self_attr(x, ra_.params[0]) == 'async_browsers' for x in ast.walk(_xp_st(ra_, g_.iter))) for g_ in ast.walk(ra_.node))
    # ... or a plain loop over that snapshot, with nothing in its body that skips an element
    whole_ = whole_ or (ra_ is not None and any(isinstance(l_, ast.For) and any(self_attr(x, ra_.params[0]) == 'async_browsers' for x in ast.walk(_xp_st(ra_, l_.iter))) and isinstance(_xp_st(ra_, l_.iter), ast.Call)
                                                and not any(isinstance(x, (ast.If, ast.Continue, ast.Break)) for x in ast.walk(l_)) for l_ in ast.walk(ra_.node)))
    obs.append(ob(R, ra_, 'for listener in list(self.async_browsers)', 'every browser still registered is visited (a snapshot of all keys, no filter)', bool(whole_)))
    rs_ = az.methods.get('async_remove_service_listener')
    if rs_ is None:
        raise AnalysisError('anchor vanished: AsyncZeroconf.async_remove_service_listener')
    for present in (True, False):
        mem_ = {norm(n_): (present if isinstance(n_.ops[0], ast.In) else not present) for n_ in ast.walk(rs_.node) if isinstance(n_, ast.Compare) and len(n_.ops) == 1 and isinstance(n_.ops[0], (ast.In, ast.NotIn))}

        def eff_rs(node: Any, evl: Any) -> List[Any]:
            out = ['CANCEL' for e in node.exprs() for x in ast.walk(e) if isinstance(x, ast.Call) and call_name(x) == 'async_cancel']
            if node.kind == 'stmt' and isinstance(node.ast, ast.Delete):
                out.append('FORGET')
            out += ['FORGET' for c in fd.node_calls(node, evl) if call_name(c) == 'pop']
            return out

        oc_rs, und_rs = traces(ctx, rs_, mem_, eff_rs, loop_bound=1)
        got_rs = {tuple(sorted(x for x in strip_ret(t) if isinstance(x, str))) for t in oc_rs}
        obs.append(ob(R, rs_, f'listener {"registered" if present else "not registered"}', 'its browser is cancelled and forgotten' if present else 'nothing happens', got_rs == ({('CANCEL', 'FORGET')} if present else {()}) and not und_rs, f'got {sorted(got_rs)}; undecided {und_rs}'))
    tb = prog.func('zeroconf._services.browser.ServiceBrowser.cancel')
    tcfg = cfg_of(tb.node)
    wj = tcfg.must_pass_before_exit(tcfg.entry, lambda n: any(call_name(x) == 'join' and isinstance(x.func, ast.Attribute) and self_attr(x.func, tb.params[0]) for x in n.calls()))
    obs.append(ob(R, tb, 'self.queue.put(None); ...; self.join()', 'cancelling a threaded browser waits for its dispatch thread on every path, so no queued callback runs after the cancel (and the close) has returned', wj is None, 'a path returns without joining the dispatch thread' if wj is not None else ''))
    from .common import expand as _xp_st

    st = prog.func('zeroconf._services.browser.QueryScheduler.stop')
    me = st.params[0]
    atoms_none = {}
    live = object()  # a live handle
    for n in walk_local_ordered(st.node):
        if isinstance(n, ast.Attribute) and isinstance(n.ctx, ast.Load) and self_attr(n, me) == '_next_run':
            atoms_none[norm(n)] = live

    def eff(node: Any, evl: Any) -> List[Any]:
        out = []
        for x in node.calls():
            if call_name(x) == 'cancel' and isinstance(x.func, ast.Attribute) and self_attr(_xp_st(st, x.func.value), me) == '_next_run':
                out.append('CANCEL')  # on the handle itself, or on a local that names it
            if call_name(x) == 'clear' and isinstance(x.func, ast.Attribute):
                out.append('CLEAR:' + (self_attr(x.func.value, me) or '?'))
        return out

    oc, _ = traces(ctx, st, atoms_none, eff)
    obs.append(ob(R, st, 'self._next_run.cancel()', 'stop() cancels the armed timer whenever one is armed', bool(oc) and all('CANCEL' in t for t in oc), str(sorted(oc))))
    obs.append(ob(R, st, 'self._query_heap.clear()', 'stop() drops every scheduled refresh', bool(oc) and all('CLEAR:_query_heap' in t and 'CLEAR:_next_scheduled_for_alias' in t for t in oc)))
    return obs


@rule('C17.DEFERRED', 'N', expect_min=2)
def deferred17(ctx: Any) -> List[Ob]:
    """No timer left behind raises: the truncated-query timer only ever finds packets to answer
    (deferred packets are never dropped without cancelling the timer)."""
    from .c12 import deferred_timer_discipline

    return deferred_timer_discipline(ctx, 'C17.DEFERRED')


EXPLANATION = (
    'C17.GATE (decided): every transport/socket send call site is found through the type oracle; each call chain to it must '
    'pass a function in which, with the instance flag `done` set, no CFG path reaches the call (finite-domain path evaluation); '
    '`done` is only ever set to True after construction; _close() runs on every path of close()/_async_close() before the engine '
    'is closed. Hence nothing is transmitted after close for every schedule. C17.GOODBYE (decided): effect order goodbyes -> gate '
    '-> engine close on the paths the property quantifies over. C17.TIMERS (necessary condition): each of the timer/task creation '
    'sites is classified (cancelled on a shutdown path / done-gated / reaches no user callback). C17.LISTENER (decided): listener '
    'and timer-handle pairing on all exits. Not decided: behaviour over hours of virtual time and in-flight states [X].'
)
EXPLANATION_ADDENDUM = (
    ' C17.GOODBYE also requires the closing goodbye routine to examine the registry again after its last suspension and async_close not to suspend between it and the closing of the gate. C17.DEFERRED (necessary): deferral timers are cancelled together with their packets.'
)
EXPLANATION = EXPLANATION + EXPLANATION_ADDENDUM

RULES = [gate, goodbye, timers, listener, deferred17]

"""C10 -- the browser keeps learned services alive: refresh queries, rate limit, liveness."""
from __future__ import annotations

import ast
from typing import Any, Dict, List, Optional, Set, Tuple

from sa import AnalysisError
from sa import fd, lf
from sa.cf import cfg_of
from sa.ky import Lowered, key_sites
from sa.pm import FuncInfo, call_name, norm, self_attr, walk_local_ordered
from sa.report import Ob, rule

from .c17 import done_atoms
from .common import attr_stores, ob, single_return_expr, strip_ret, traces

QS = 'zeroconf._services.browser.QueryScheduler'
ARM_APIS = ('call_at', 'call_later')


def scheduler_callbacks(ctx: Any) -> List[FuncInfo]:
    qs = ctx.prog.cls(QS)
    out: List[FuncInfo] = []
    for d in ctx.cg.deferred:
        if d.api in ARM_APIS:
            for t in d.targets:
                if t.cls is qs and t not in out:
                    out.append(t)
    if len(out) < 2:
        raise AnalysisError(f'expected the two scheduler callbacks, found {[f.qual for f in out]}')
    return out


def _arm_nodes(cfg: Any, me: str) -> List[Any]:
    out = []
    for n in cfg.nodes:
        if n.kind == 'stmt' and isinstance(n.ast, ast.Assign) and any(self_attr(t, me) == '_next_run' for t in n.ast.targets):
            v = n.ast.value
            if isinstance(v, ast.Call) and call_name(v) in ARM_APIS:
                out.append(n)
    return out


@rule('C10.REARM', 'N', expect_min=4)
def rearm(ctx: Any) -> List[Ob]:
    """Scheduler liveness: in each scheduler callback every path from entry to a
    normal exit either takes the instance-closed early return or re-arms the
    timer (stores a new loop timer in _next_run); and no exception can leave the
    callback, so the re-arm is always reached."""
    R = 'C10.REARM'
    prog = ctx.prog
    obs: List[Ob] = []
    cbs = scheduler_callbacks(ctx)
    from .c15 import RESIDUAL, run_ex

    mr = run_ex(ctx, cbs)
    for f in cbs:
        me = f.params[0]
        cfg = cfg_of(f.node)
        arms = _arm_nodes(cfg, me)
        atoms = {k: False for k in done_atoms(ctx, f)}
        if not atoms:
            obs.append(ob(R, f, 'if self._zc.done: return', 'the callback checks the instance-closed flag', False))

        def eff(node: Any, evl: Any, arms=arms) -> List[Any]:
            return ['ARM'] if node in arms else []

        oc, _ = traces(ctx, f, atoms, eff, loop_bound=1)
        bad = [t for t in oc if 'ARM' not in t and not any(isinstance(x, tuple) and x[0] == 'raise' for x in t)]
        obs.append(ob(R, f, 'self._next_run = self._loop.call_at(...)', 'while the instance is open every path through the callback re-arms the scheduler timer', bool(oc) and not bad, f'{len(bad)} path(s) leave without re-arming' if bad else ''))
        twice = [t for t in oc if t.count('ARM') > 1]
        obs.append(ob(R, f, 'self._next_run = ...', 'the timer is armed once per run (no orphan timers)', not twice))
        # ... and while it is closed nothing happens at all: with the flag set, every path leaves before it sends or re-arms
        if atoms:
            sends = [n for n in cfg_of(f.node).nodes if any(call_name(c) in ('async_send_ready_queries', 'async_send') for c in n.calls())]

            def eff_c(node: Any, evl: Any, arms=arms, sends=sends) -> List[Any]:
                return (['ARM'] if node in arms else []) + (['SEND'] if node in sends else [])

            oc_c, _ = traces(ctx, f, {k: True for k in atoms}, eff_c, loop_bound=1)
            live_c = sorted({x for t in oc_c for x in t if x in ('ARM', 'SEND')})
            obs.append(ob(R, f, 'if self._zc.done: return', 'with the instance closed the callback neither sends nor re-arms (the closed test leaves the callback)', bool(oc_c) and not live_c, f'still reached with the flag set: {live_c}'))
        esc = {k: o for k, o in mr.escaping(f).items()}
        live = []
        for (k, where, line), o in esc.items():
            origin_fn = where.split('::')[-1]
            if any(r[0] == origin_fn and r[1] == k.split('.')[-1] for r in RESIDUAL):
                continue  # residual sites: side conditions are decided under C15.ESCAPE
            live.append((k, o))
        obs.append(ob(R, f, f'{f.qual} may-raise set', 'no exception can leave the callback before the timer is re-armed', not live, '; '.join(k.split('.')[-1] for k, _ in live), live[0][1].describe() if live else None))
    # what the scheduler generated is sent: every message the query builder hands back goes to the transmit routine, with the
    # browser's own destination (one call per message, no filter)
    sq = prog.cls(QS).methods['async_send_ready_queries']
    sme = sq.params[0]
    gen_names = {t.id for st_ in walk_local_ordered(sq.node) if isinstance(st_, ast.Assign) and isinstance(st_.value, ast.Call) and call_name(st_.value) == 'generate_service_query' for t in st_.targets if isinstance(t, ast.Name)}
    sloops = [lp for lp in walk_local_ordered(sq.node) if isinstance(lp, ast.For) and isinstance(lp.iter, ast.Name) and lp.iter.id in gen_names and isinstance(lp.target, ast.Name)]
    ok_s, why_s = False, 'no loop over the generated messages'
    if len(sloops) == 1:
        scfg = cfg_of(sq.node)
        shead = next(n for n in scfg.nodes if n.kind == 'for' and n.ast is sloops[0])
        tvs = sloops[0].target.id
        oc_s, _ = fd.run_paths(prog, sq.module, scfg, {}, lambda node, evl: [('SEND', tuple(norm(a) for a in c.args)) for c in fd.node_calls(node, evl) if call_name(c) == 'async_send'], start=shead, stop=lambda n: n is shead, loop_bound=1, for_iter=lambda n, e: True)
        per_s = {tuple(x for x in strip_ret(t) if isinstance(x, tuple)) for t in oc_s}
        ok_s = per_s == {(('SEND', (tvs, f'{sme}._addr', f'{sme}._port')),)}
        why_s = f'per message: {sorted(map(str, per_s))[:2]}'
        # the loop itself is reached whenever there is something to send: no path from the generation to the exit avoids the
        # loop except through a test of the generated list
        gnode = [n for n in scfg.nodes if any(call_name(c) == 'generate_service_query' for c in n.calls())]
        def list_test(n: Any) -> Optional[bool]:
            """the edge on which the generated list is non-empty: `if outs:` -> True, `if not outs:` -> False"""
            if n.kind != 'test' or n.ast is None:
                return None
            if norm(n.ast) in gen_names:
                return True
            if isinstance(n.ast, ast.UnaryOp) and isinstance(n.ast.op, ast.Not) and norm(n.ast.operand) in gen_names:
                return False
            return None

        byp = scfg.path_avoiding(gnode[0], lambda n: n is scfg.exit, lambda n: n is shead or list_test(n) is not None) if gnode else [None]
        ok_s = ok_s and byp is None
        why_s += '' if byp is None else '; a path reaches the end without the send loop or a test of the generated list'
        tests_s = [n for n in scfg.nodes if list_test(n) is not None]
        ok_s = ok_s and all(scfg.only_through_edge(t_, list_test(t_), shead) for t_ in tests_s)
        why_s += '' if all(scfg.only_through_edge(t_, list_test(t_), shead) for t_ in tests_s) else '; the send loop is not on the non-empty arm of the test'
    obs.append(ob(R, sq, sloops[0] if sloops else 'for out in outs: self._zc.async_send(out, self._addr, self._port)', 'every generated query message is sent, to the browser\'s destination', ok_s, why_s))
    # the scheduler can only move a refresh query if it is told of the refresh: the record manager reports every live record
    from .c06 import pair_per_live_record

    obs.extend(pair_per_live_record(ctx, R))
    # ... and it has to be started, and fed: the chain from the creation of a browser to the first armed timer, and from a
    # learned pointer to the heap, has no path that skips a link (must-pass-through on each routine of the chain)
    prog = ctx.prog
    base = prog.cls('zeroconf._services.browser._ServiceBrowserBase')
    qs = prog.cls(QS)
    chain = [
        (base.methods.get('_async_start'), 'async_add_listener', 'a started browser registers itself as a record listener (with its questions, so that the cache is replayed to it)'),
        (base.methods.get('_async_start'), '_async_start_query_sender', 'a started browser starts its query sender'),
        (base.methods.get('_async_start_query_sender'), 'start', 'the query sender starts the scheduler (after the instance has started)'),
        (qs.methods.get('start'), 'call_later', 'starting the scheduler arms the timer of the first start-up query'),
    ]
    # ... every routine of the scheduler that builds a scheduled query hands it to the heap (through the scheduling primitive
    # -- the routine that calls heappush -- or a helper that reaches it) on every path from the construction on; the rescue
    # query is conditional by design (not scheduled at or after expiry): there the hand-over must be REACHABLE
    prims = _push_primitives(ctx)
    pushers_all = _pushers(ctx)
    for f in sorted(qs.methods.values(), key=lambda g_: g_.name):
        fcfg = cfg_of(f.node)
        built = [n for n in fcfg.nodes if any(call_name(c) == '_ScheduledPTRQuery' for c in n.calls())]
        if not built:
            continue
        hits = [n for n in fcfg.nodes if any(call_name(c) in pushers_all and f.params and isinstance(c.func, ast.Attribute) and isinstance(c.func.value, ast.Name) and c.func.value.id == f.params[0] for c in n.calls())]
        if f.name == 'schedule_rescue_query':
            obs.append(ob(R, f, 'schedule(...)', 'a rescue query that is due before expiry is put on the heap', bool(hits)))
            continue
        skip = [b for b in built if b not in hits and fcfg.path_avoiding(b, lambda n: n is fcfg.exit, lambda n: n in hits) is not None]
        obs.append(ob(R, f, built[0].ast, 'a refresh computed for a pointer is put on the heap -- on every path', bool(hits) and not skip, '' if hits else f'{f.name} builds a scheduled query and hands it to nothing that pushes'))
    for f in prims:
        fcfg = cfg_of(f.node)
        hits = [n for n in fcfg.nodes if any(call_name(c) == 'heappush' for c in n.calls())]
        skip2 = fcfg.path_avoiding(fcfg.entry, lambda n: n is fcfg.exit, lambda n: n in hits)
        obs.append(ob(R, f, 'heappush(...)', 'a scheduled query is pushed onto the heap -- on every path', skip2 is None))
    for f, callee, what in chain:
        if f is None:
            raise AnalysisError(f'anchor vanished: a routine of the browser start-up chain (the one that calls {callee})')
        cfg = cfg_of(f.node)
        hits = [n for n in cfg.nodes if any(call_name(c) == callee for c in n.calls())]
        if what is None:
            # the rescue query is conditional by design (not scheduled at or after expiry): it must be REACHABLE
            obs.append(ob(R, f, f'{callee}(...)', 'a rescue query that is due before expiry is put on the heap', bool(hits)))
            continue
        skip = cfg.path_avoiding(cfg.entry, lambda n: n is cfg.exit, lambda n: n in hits) if hits else [cfg.entry]
        obs.append(ob(R, f, f'{callee}(...)', what + ' -- on every path', bool(hits) and skip is None, '' if hits else f'no call of {callee} is left in {f.name}'))
    st = base.methods['_async_start']
    al = [c for c in walk_local_ordered(st.node) if isinstance(c, ast.Call) and call_name(c) == 'async_add_listener']
    okq = False
    if al and len(al[0].args) == 2 and isinstance(al[0].args[1], (ast.ListComp, ast.List)):
        qc = [c for c in ast.walk(al[0].args[1]) if isinstance(c, ast.Call) and call_name(c) == 'DNSQuestion']
        okq = len(qc) == 1 and len(qc[0].args) == 3 and prog.try_fold(st.module, qc[0].args[1]) == (True, 12) and prog.try_fold(st.module, qc[0].args[2]) == (True, 1) and any(isinstance(g_.iter, ast.Attribute) and g_.iter.attr == 'types' for c_ in ast.walk(al[0].args[1]) if isinstance(c_, ast.ListComp) for g_ in c_.generators)
    obs.append(ob(R, st, al[0] if al else 'self.zc.async_add_listener(self, [...])', 'the browser listens with one PTR / IN question per browsed type', okq))
    return obs


def _push_functions(ctx: Any) -> List[Tuple[FuncInfo, ast.Call]]:
    out = []
    qs = ctx.prog.cls(QS)
    for f in qs.methods.values():
        for c in walk_local_ordered(f.node):
            if isinstance(c, ast.Call) and call_name(c) in ('heappush', 'heappushpop', 'heapreplace'):
                out.append((f, c))
    return out


def _resolve_sources(f: FuncInfo, e: ast.AST, depth: int = 0) -> List[ast.AST]:
    """All expressions that may flow into e through local assignments."""
    if depth > 5:
        return [e]
    if isinstance(e, ast.Call) and call_name(e) == 'millis_to_seconds' and e.args:
        return _resolve_sources(f, e.args[0], depth + 1)
    if isinstance(e, ast.Name):
        defs = [st.value for st in walk_local_ordered(f.node) if isinstance(st, ast.Assign) and any(isinstance(t, ast.Name) and t.id == e.id for t in st.targets)]
        if defs and e.id not in f.params:
            out: List[ast.AST] = []
            for d in defs:
                out.extend(_resolve_sources(f, d, depth + 1))
            return out
    if isinstance(e, ast.IfExp):
        return _resolve_sources(f, e.body, depth + 1) + _resolve_sources(f, e.orelse, depth + 1)
    return [e]


def _mentions_heap(f: FuncInfo, e: ast.AST) -> bool:
    me = f.params[0]
    for x in ast.walk(e):
        if isinstance(x, ast.Attribute) and x.attr in ('when_millis', 'expire_time_millis'):
            return True
        if self_attr(x, me) == '_query_heap':
            return True
    return False


@rule('C10.HEAPMIN', 'N', expect_min=2)
def heapmin(ctx: Any) -> List[Ob]:
    """The armed wake-up covers the heap minimum.  If the wake-up time of the
    refresh processor is derived from the heap, it must be read after the last
    push reachable in that run, and every function that pushes a query from
    outside the callback must re-arm the timer; if instead the wake-up is always
    now + the minimum query delay (polling), a later, shorter-lived record is
    picked up within one delay and pushes need no re-arm."""
    R = 'C10.HEAPMIN'
    prog = ctx.prog
    obs: List[Ob] = []
    qs = prog.cls(QS)
    proc = qs.methods.get('_process_ready_types')
    if proc is None:
        raise AnalysisError('anchor vanished: QueryScheduler._process_ready_types')
    me = proc.params[0]
    cfg = cfg_of(proc.node)
    arms = [n for n in _arm_nodes(cfg, me) if any(isinstance(a, ast.Attribute) and a.attr == '_process_ready_types' for a in n.ast.value.args)]
    if not arms:
        raise AnalysisError('anchor vanished: self-re-arm of _process_ready_types')
    heap_dependent = False
    for a in arms:
        call = a.ast.value
        t_expr = call.args[0]
        srcs = _resolve_sources(proc, t_expr)
        dep = [s for s in srcs if _mentions_heap(proc, s)]
        polls = []
        for s in srcs:
            if s in dep:
                continue
            try:
                from .common import expand

                p = lf.poly(prog, proc.module, expand(proc, s), lambda x: ('D' if self_attr(x, me) == '_min_time_between_queries_millis' else ('NOW' if isinstance(x, ast.Call) and call_name(x) == 'current_time_millis' else None)))
                polls.append(p == lf.parse_poly('NOW + D'))
            except lf.NotLinear:
                polls.append(False)
        if dep:
            heap_dependent = True
        else:
            obs.append(ob(R, proc, call, 'the wake-up is exactly now + the minimum query delay (polling: a query pushed at any time is seen within one delay)', bool(polls) and all(polls), f'sources: {[norm(s) for s in srcs]}'))
    pushes = _push_functions(ctx)
    if not pushes:
        raise AnalysisError('anchor vanished: heappush in the scheduler')
    if heap_dependent:
        # (i) no push may follow the heap read that feeds the armed time
        push_closure = {f.full for f, _ in pushes}
        pushers = {g.full for g in qs.methods.values() if any(x.full in push_closure for x in ctx.cg.closure([g]))}
        read_nodes = [n for n in cfg.nodes if n.kind == 'stmt' and isinstance(n.ast, ast.Assign) and any(self_attr(x, me) == '_query_heap' for x in ast.walk(n.ast.value))]
        late = []
        for n in cfg.nodes:
            if any(t.full in pushers for s in ctx.cg.sites_in(proc) if any(c is s.node for c in n.calls()) for t in s.targets):
                if any(cfg.can_reach(r, n) for r in read_nodes) and not any(cfg.can_reach(n, r) for r in read_nodes if not r.in_loop or r.in_loop != n.in_loop):
                    late.append(n)
        obs.append(ob(R, proc, arms[0].ast, 'the heap minimum used for the wake-up is read after the last push of the same run', not late, 'a query is pushed after the heap top was read: ' + '; '.join(x.text()[:60] for x in late) if late else ''))
        # (ii) pushes from outside the callbacks must re-arm
        for f, c in pushes:
            fcfg = cfg_of(f.node)
            node = next(n for n in fcfg.nodes if any(x is c for x in n.calls()))
            rearms = [n for n in fcfg.nodes if any(call_name(x) in ARM_APIS or any('call_at' in norm(y) or 'call_later' in norm(y) for t in s.targets for y in ast.walk(t.node) if isinstance(y, ast.Call)) for s in ctx.cg.sites_in(f) for x in [s.node] if any(x is z for z in n.calls()))]
            w = fcfg.must_pass_before_exit(node, lambda n: n in rearms)
            reach_outside = [s.caller.qual for s in ctx.cg.callers_of(f)]
            obs.append(ob(R, f, c, 'a query pushed outside the timer callback re-arms the timer if it is due before the armed wake-up', w is None, f'pushed without re-arming (callers: {reach_outside}); the wake-up was computed from an earlier heap minimum'))
    else:
        for f, c in pushes:
            obs.append(ob(R, f, c, 'push site: no re-arm needed because the processor polls every minimum delay', True))
    return obs


@rule('C10.ALIASKEY', 'D', expect_min=5)
def aliaskey(ctx: Any) -> List[Ob]:
    """Record identity is case-insensitive (C20), so the per-record schedule map
    must be keyed by the lower-cased PTR target: otherwise a re-cased refresh
    leaves the old schedule live and queries keep firing on it."""
    R = 'C10.ALIASKEY'
    low = Lowered(ctx)
    qs = ctx.prog.cls(QS)
    obs: List[Ob] = []
    for f in qs.methods.values():
        me = f.params[0] if f.params else 'self'
        for d, k, how in key_sites(f, lambda e: self_attr(e, me) == '_next_scheduled_for_alias'):
            ok, why = low.is_lowered(f, k)
            obs.append(ob(R, f, f'{norm(d)} {how} {norm(k)}', 'the schedule map is keyed case-insensitively', ok, why))
    return obs


@rule('C10.PAIR', 'D', expect_min=5)
def pair(ctx: Any) -> List[Ob]:
    """Heap / map pairing: every push also stores the schedule-map entry; every
    live entry popped for sending deletes its map entry; cancelling sets the
    cancelled flag and removes the map entry; a superseded schedule is flagged
    cancelled before the new one is pushed."""
    R = 'C10.PAIR'
    prog = ctx.prog
    qs = prog.cls(QS)
    obs: List[Ob] = []
    for f, c in _push_functions(ctx):
        me = f.params[0]
        pushed = norm(c.args[1]) if len(c.args) > 1 else '?'
        stores = [st for st in walk_local_ordered(f.node) if isinstance(st, ast.Assign) and isinstance(st.targets[0], ast.Subscript) and self_attr(st.targets[0].value, me) == '_next_scheduled_for_alias' and norm(st.value) == pushed]
        obs.append(ob(R, f, c, 'the pushed query is also recorded in the schedule map', len(stores) == 1))
    proc = qs.methods['_process_ready_types']
    me = proc.params[0]
    cfg = cfg_of(proc.node)

    def eff(node: Any, evl: Any) -> List[Any]:
        out = []
        for x in node.calls():
            if call_name(x) == 'heappop':
                out.append('POP')
        if node.kind == 'stmt':
            for y in walk_local_ordered(node.ast):
                if isinstance(y, ast.Delete) and any(isinstance(t, ast.Subscript) and self_attr(t.value, me) == '_next_scheduled_for_alias' for t in y.targets):
                    out.append('UNMAP')
                if isinstance(y, ast.Call) and call_name(y) == 'pop' and isinstance(y.func, ast.Attribute) and self_attr(y.func.value, me) == '_next_scheduled_for_alias':
                    out.append('UNMAP')
        return out

    def eff(node: Any, evl: Any) -> List[Any]:  # noqa: F811  (extends the effect labels with RESCUE / READY)
        out = []
        for x in node.calls():
            if call_name(x) == 'heappop':
                out.append('POP')
            if call_name(x) in ('append', 'add') and isinstance(x.func, ast.Attribute) and isinstance(x.func.value, ast.Name):
                tgt = x.func.value.id
                if tgt in rescue_lists:
                    out.append('RESCUE')
                if tgt in ready_sets:
                    out.append('READY')
            if call_name(x) == 'schedule_rescue_query' and node.in_loop and any(isinstance(l, ast.While) for l in node.in_loop):
                out.append('RESCUE')
        if node.kind == 'stmt':
            for y in walk_local_ordered(node.ast):
                if isinstance(y, ast.Delete) and any(isinstance(t, ast.Subscript) and self_attr(t.value, me) == '_next_scheduled_for_alias' for t in y.targets):
                    out.append('UNMAP')
                if isinstance(y, ast.Call) and call_name(y) == 'pop' and isinstance(y.func, ast.Attribute) and self_attr(y.func.value, me) == '_next_scheduled_for_alias':
                    out.append('UNMAP')
        return out

    # the list whose elements are later handed to schedule_rescue_query, and the set handed to async_send_ready_queries
    rescue_lists = {norm(lp.iter) for lp in walk_local_ordered(proc.node) if isinstance(lp, ast.For) and any(isinstance(c, ast.Call) and call_name(c) == 'schedule_rescue_query' and c.args and norm(c.args[0]) == norm(lp.target) for c in ast.walk(lp))}
    ready_sets = {norm(c.args[2]) for c in walk_local_ordered(proc.node) if isinstance(c, ast.Call) and call_name(c) == 'async_send_ready_queries' and len(c.args) >= 3}
    # ... or a collection the set is built from afterwards, element by element and unfiltered (`{q.name for q in due}`)
    from .common import expand as _xp_r

    for rs_ in list(ready_sets):
        for c_ in walk_local_ordered(proc.node):
            if isinstance(c_, ast.Call) and call_name(c_) == 'async_send_ready_queries' and len(c_.args) >= 3 and norm(c_.args[2]) == rs_:
                e_ = _xp_r(proc, c_.args[2], 1)
                if isinstance(e_, (ast.SetComp, ast.ListComp, ast.GeneratorExp)) and len(e_.generators) == 1 and not e_.generators[0].ifs and isinstance(e_.generators[0].iter, ast.Name):
                    ready_sets.add(e_.generators[0].iter.id)
    atoms = {k: False for k in done_atoms(ctx, proc)}
    live = dict(atoms)
    live[f'{me}._query_heap'] = ['q']
    live['.cancelled'] = False
    live['.when_millis'] = 0.0
    oc, _ = traces(ctx, proc, {**live, 'current_time_millis()': 1000.0, '._clock_resolution_millis': 1.0}, eff, loop_bound=1, for_iter=lambda n, e: False)
    got = {tuple(x for x in strip_ret(t)) for t in oc}
    obs.append(ob(R, proc, 'query = heappop(self._query_heap); del self._next_scheduled_for_alias[...]', 'a due, live query taken from the heap is removed from the schedule map', bool(got) and all(t.count('POP') == t.count('UNMAP') and t.count('POP') >= 1 for t in got), str(sorted(got))))
    obs.append(ob(R, proc, 'ready_types.add(query.name); schedule_rescue.append(query)', 'every due, live query -- not only the first of its type -- is asked for and gets its next rescue query scheduled (rescue entries are per record and are cancelled per record)', bool(got) and all(t.count('POP') == t.count('RESCUE') == t.count('READY') for t in got), str(sorted(got))))
    # the map entry of the query just taken is removed BEFORE anything stores a new entry for that record: a removal after
    # the rescue entry has been stored un-maps the rescue entry (it stays in the heap where cancel/reschedule cannot find it)
    storers = set()
    for m_ in qs.methods.values():
        mm = m_.params[0] if m_.params else 'self'
        if any(isinstance(st, ast.Assign) and isinstance(st.targets[0], ast.Subscript) and self_attr(st.targets[0].value, mm) == '_next_scheduled_for_alias' for st in walk_local_ordered(m_.node)):
            storers.add(m_.name)
    grew = True
    while grew:
        grew = False
        for m_ in qs.methods.values():
            if m_.name not in storers and any(isinstance(c, ast.Call) and call_name(c) in storers and isinstance(c.func, ast.Attribute) and self_attr(c.func, m_.params[0]) for c in walk_local_ordered(m_.node)):
                storers.add(m_.name)
                grew = True

    def eff_o(node: Any, evl: Any) -> List[Any]:
        out = [x for x in eff(node, evl) if x == 'UNMAP']
        out += ['MAPSTORE' for c in node.calls() if call_name(c) in storers and isinstance(c.func, ast.Attribute) and self_attr(c.func, me)]
        return out

    oc_o, _ = traces(ctx, proc, {**live, 'current_time_millis()': 1000.0, '._clock_resolution_millis': 1.0}, eff_o, loop_bound=1, for_iter=lambda n, e: True)
    late = [t for t in oc_o if 'MAPSTORE' in t and 'UNMAP' in t[t.index('MAPSTORE'):]]
    obs.append(ob(R, proc, 'del self._next_scheduled_for_alias[query.alias] ... self.schedule_rescue_query(...)', 'the map entry of a query taken from the heap is removed before its rescue entry is stored, never after', bool(oc_o) and any('MAPSTORE' in t for t in oc_o) and not late, str(sorted(map(str, late)))[:200]))
    # the rescue entries are armed whether or not a question went out (a question suppressed by the duplicate history must
    # still be followed by the 85 % and 95 % attempts): the loop that arms them is on every path to the end of the routine
    rescue_loops = [n for n in cfg.nodes if n.kind == 'for' and norm(n.ast.iter) in rescue_lists]
    direct = [n for n in cfg.nodes if any(call_name(c) == 'schedule_rescue_query' for c in n.calls()) and any(isinstance(l_, ast.While) for l_ in n.in_loop)]
    if rescue_loops:
        drain = [n for n in cfg.nodes if n.kind == 'loop_test' and any(call_name(c) == 'heappop' for m_ in cfg.nodes if n.ast in [l_ for l_ in m_.in_loop] or (hasattr(n.ast, 'lineno') and False) for c in m_.calls())] or [n for n in cfg.nodes if n.kind == 'loop_test']
        w_ = cfg.must_pass_before_exit(drain[0], lambda n: n in rescue_loops)
        obs.append(ob(R, proc, rescue_loops[0].ast.iter, 'the rescue queries of the entries taken from the heap are armed on every path (not only when a query was actually sent)', w_ is None, 'a path reaches the end of the routine without arming the rescue queries' if w_ is not None else ''))
    elif not direct:
        from sa import StructuralViolation

        raise StructuralViolation(proc.module.rel, proc.qual, 'for query in rescue: self.schedule_rescue_query(query, now, 10 %)', 'an entry taken from the heap for sending gets its rescue query (the next 10 % step) armed', 'no call of schedule_rescue_query is left in the routine: a record is asked for once, at 75 %, and never again before it expires')
    canc = dict(atoms)
    canc[f'{me}._query_heap'] = ['q']
    canc['.cancelled'] = True
    oc2, _ = traces(ctx, proc, canc, eff, loop_bound=1, for_iter=lambda n, e: False)
    got2 = {tuple(x for x in strip_ret(t)) for t in oc2}
    obs.append(ob(R, proc, 'if query.cancelled: heappop(...)', 'a cancelled query is discarded without touching the map (its entry was removed when it was cancelled)', bool(got2) and all('UNMAP' not in t and 'POP' in t for t in got2), str(sorted(got2))))
    # the schedule as a whole (heap and map) is thrown away only when the browser is cancelled: records can be learned -- and
    # scheduled -- from the moment the browser's listener is installed, which is before the scheduler is started, so nothing on the
    # start-up or running paths may discard what is scheduled
    def discards(m_: FuncInfo) -> bool:
        mm = m_.params[0] if m_.params else 'self'
        for x in walk_local_ordered(m_.node):
            if isinstance(x, ast.Call) and call_name(x) == 'clear' and isinstance(x.func, ast.Attribute) and self_attr(x.func.value, mm) in ('_query_heap', '_next_scheduled_for_alias'):
                return True
            if isinstance(x, ast.Assign) and any(self_attr(t, mm) in ('_query_heap', '_next_scheduled_for_alias') for t in x.targets) and m_.name != '__init__':
                return True
        return False

    # the heap changes only through the heap operations (push, pop of the minimum) and the wholesale clear on cancel: an entry
    # is never fished out by value -- entries compare by due time alone, so `remove(entry)` takes out the FIRST entry that is
    # due at the same millisecond (another record, which then loses its refresh queries), and any in-place edit breaks the order
    for m_ in sorted(qs.methods.values(), key=lambda x: x.name):
        mm = m_.params[0] if m_.params else 'self'
        for x in walk_local_ordered(m_.node):
            bad_mut = None
            if isinstance(x, ast.Call) and isinstance(x.func, ast.Attribute) and self_attr(x.func.value, mm) == '_query_heap' and x.func.attr in ('remove', 'pop', 'insert', 'append', 'extend', 'sort', 'reverse', '__delitem__', '__setitem__'):
                bad_mut = x
            if isinstance(x, ast.Delete) and any(isinstance(t, ast.Subscript) and self_attr(t.value, mm) == '_query_heap' for t in x.targets):
                bad_mut = x
            if isinstance(x, ast.Assign) and any(isinstance(t, ast.Subscript) and self_attr(t.value, mm) == '_query_heap' for t in x.targets):
                bad_mut = x
            if bad_mut is not None:
                obs.append(ob(R, m_, bad_mut, 'the query heap is changed only by heappush / heappop (and cleared on cancel)', False, 'a removal or edit by value or position: entries compare equal when they are due at the same millisecond, so another record\'s entry can be the one that goes'))
    wipers = [m_ for m_ in qs.methods.values() if discards(m_)]
    if not wipers:
        raise AnalysisError('anchor vanished: where the scheduler discards its heap and map (stop)')
    entry_pts = [qs.methods[n_] for n_ in ('start', '_process_startup_queries', '_process_ready_types', 'reschedule_ptr_first_refresh', 'schedule_rescue_query', 'cancel_ptr_refresh', '_schedule_ptr_refresh', '_schedule_ptr_query') if n_ in qs.methods]
    for ep in entry_pts:
        reach = ctx.cg.closure([ep], include_deferred=False)
        hit = [w for w in wipers if w in reach]
        obs.append(ob(R, ep, f'{ep.name}() ... {hit[0].name if hit else wipers[0].name}()', 'starting, running and rescheduling never discard the queries already scheduled (only cancelling the browser does)', not hit, f'{ep.name} reaches {hit[0].name}, which clears the heap / the schedule map: records learned before the scheduler starts lose their refresh queries' if hit else ''))
    # cancel
    cf = qs.methods['cancel_ptr_refresh']
    me = cf.params[0]
    pops = [c for c in walk_local_ordered(cf.node) if isinstance(c, ast.Call) and call_name(c) == 'pop' and isinstance(c.func, ast.Attribute) and self_attr(c.func.value, me) == '_next_scheduled_for_alias']
    flags = [st for t, st in attr_stores(cf.node) if t.attr == 'cancelled' and isinstance(st, ast.Assign) and isinstance(st.value, ast.Constant) and st.value.value is True]
    obs.append(ob(R, cf, 'scheduled = self._next_scheduled_for_alias.pop(...); scheduled.cancelled = True', 'withdrawal removes the map entry and flags the heap entry cancelled', len(pops) == 1 and len(flags) == 1))
    for has in (True, False):
        def eff_cf(node: Any, evl: Any) -> List[Any]:
            out = []
            if node.kind == 'stmt':
                for t_, st_ in attr_stores(node.ast):
                    if t_.attr == 'cancelled' and isinstance(st_, ast.Assign):
                        out.append(('FLAG', evl.ev(st_.value) if evl.ev(st_.value) in (True, False) else norm(st_.value)))
            return out

        oc_cf, und_cf = traces(ctx, cf, {'.pop()': fd.Sym('scheduled') if has else None}, eff_cf, loop_bound=1)
        got_cf = {tuple(x for x in strip_ret(t) if isinstance(x, tuple) and x[0] == 'FLAG') for t in oc_cf}
        want_cf = {(('FLAG', True),)} if has else {()}
        obs.append(ob(R, cf, f'withdrawal, the alias {"has" if has else "has no"} scheduled query', 'the scheduled query is flagged cancelled (True) exactly when there is one', got_cf == want_cf and not und_cf, f'got {sorted(map(str, got_cf))}; undecided {und_cf}'))
    rf = qs.methods['reschedule_ptr_first_refresh']
    me = rf.params[0]
    rcfg = cfg_of(rf.node)
    # the push: the scheduling primitive itself, or a helper of the class that reaches it
    pushers = {n_ for n_ in _pushers(ctx) if n_ != rf.name}
    sched = [n for n in rcfg.nodes if any(call_name(c) in pushers and isinstance(c.func, ast.Attribute) and isinstance(c.func.value, ast.Name) and c.func.value.id == me for c in n.calls())]
    flag_nodes = [n for n in rcfg.nodes if n.kind == 'stmt' and any(t.attr == 'cancelled' and isinstance(st_, ast.Assign) and isinstance(st_.value, ast.Constant) and st_.value.value is True for t, st_ in attr_stores(n.ast))]
    unmap = [n for n in rcfg.nodes if n.kind == 'stmt' and (isinstance(n.ast, ast.Delete) or any(call_name(c) == 'pop' for c in n.calls()))]
    # on the path where a current schedule exists and is superseded, both happen before the new push
    oc3, _ = fd.run_paths(prog, rf.module, rcfg, {'.get()': fd.Sym('current'), '.when_millis': -10.0**12, '.get_expiration_time()': 0.0, '._min_time_between_queries_millis': 10000}, lambda n, e: (['FLAG'] if n in flag_nodes else []) + (['UNMAP'] if n in unmap else []) + (['PUSH'] if n in sched else []))
    got3 = {strip_ret(t) for t in oc3}
    obs.append(ob(R, rf, 'current.cancelled = True; del map[...]; self._schedule_ptr_refresh(...)', 'a superseded schedule is cancelled and unmapped before the new one is pushed', bool(got3) and all(set(t) == {'FLAG', 'UNMAP', 'PUSH'} and t[-1] == 'PUSH' for t in got3), str(sorted(got3))))
    # churn window: an existing schedule is kept only if the new refresh time is within one delay of it, on either side
    for diff in (-25000.0, -10001.0, -10000.0, 0.0, 10000.0, 10001.0, 25000.0):
        oc4, und4 = fd.run_paths(prog, rf.module, rcfg, {'.get()': fd.Sym('current'), '.when_millis': 1000000.0, '.get_expiration_time()': 1000000.0 + diff, '._min_time_between_queries_millis': 10000}, lambda n, e: (['PUSH'] if n in sched else []))
        kept = {('PUSH' not in t) for t in oc4}
        want = abs(diff) <= 10000
        obs.append(ob(R, rf, f'new refresh time {diff:+.0f} ms from the scheduled one (delay 10 s)', f'the existing schedule is {"kept" if want else "replaced"} (a much earlier refresh time must not be ignored)', kept == {want} and not und4, f'kept on {kept}; undecided {und4}'))
    # the scheduler is told of every pointer the browser reports: a new or refreshed pointer of ANY name that falls under a
    # browsed type (a subtype pointer of a browsed parent type included) is handed to the scheduler on every path, a withdrawn
    # one cancels its entry -- the pointer rows of the browser's classification table (shared with C04.CLASSIFY)
    from .c04 import classify as _c04_classify

    for o in _c04_classify.fn(ctx):
        if str(o.construct).startswith('pointer record'):
            o.rule = R
            o.statement = 'the scheduler hears of it: ' + o.statement
            obs.append(o)
    # who may push: a routine of the scheduler that is called from outside it (by the browser, for a record it was told about)
    # and reaches a push consults the schedule map for the alias first, on every path -- else the same alias reported twice
    # (twice in one datagram, or by a type and its subtype) gets two live heap entries for one map entry, and the second pop
    # finds the map entry gone: KeyError in the timer callback, which is then never re-armed
    for m_ in sorted(qs.methods.values(), key=lambda g_: g_.name):
        if m_.name.startswith('__') or m_.name not in _pushers(ctx):
            continue
        ext_callers = [s_ for s_ in ctx.cg.callers_of(m_) if s_.caller.cls is not qs]
        if not ext_callers:
            continue
        mme = m_.params[0]
        mcfg = cfg_of(m_.node)
        push_nodes = [n for n in mcfg.nodes if any(call_name(c) in (pushers - {m_.name}) and isinstance(c.func, ast.Attribute) and isinstance(c.func.value, ast.Name) and c.func.value.id == mme for c in n.calls())]
        reads = [n for n in mcfg.nodes if n.ast is not None and any(self_attr(x, mme) == '_next_scheduled_for_alias' for x in ast.walk(n.ast)) and n not in push_nodes]
        unguarded = [pn for pn in push_nodes if mcfg.path_avoiding(mcfg.entry, lambda n, pn=pn: n is pn, lambda n: n in reads) is not None]
        obs.append(ob(R, m_, push_nodes[0].ast if push_nodes else m_.name, f'{m_.name}() is called from outside the scheduler ({ext_callers[0].caller.qual}): it looks the alias up in the schedule map before it pushes, on every path', bool(push_nodes) and not unguarded, 'a path reaches the push without consulting the schedule map' if unguarded else ''))
    return obs


def _push_primitives(ctx: Any) -> List[FuncInfo]:
    """The routines of the scheduler that push onto the query heap themselves (call heappush on it)."""
    qs = ctx.prog.cls(QS)
    out = []
    for m_ in qs.methods.values():
        mm = m_.params[0] if m_.params else 'self'
        if any(isinstance(c, ast.Call) and call_name(c) == 'heappush' and c.args and self_attr(c.args[0], mm) == '_query_heap' for c in walk_local_ordered(m_.node)):
            out.append(m_)
    if not out:
        from sa import StructuralViolation

        raise StructuralViolation('src/zeroconf/_services/browser.py', 'QueryScheduler', 'heappush(self._query_heap, ...)', 'a scheduled query is pushed onto the heap', 'no routine of the scheduler pushes onto its query heap: nothing that is scheduled is ever asked for again')
    return sorted(out, key=lambda g_: g_.name)


def _pushers(ctx: Any) -> Set[str]:
    """Names of the scheduler routines that push or reach a routine that pushes (not through a deferred call)."""
    qs = ctx.prog.cls(QS)
    prims = set(_push_primitives(ctx))
    return {m_.name for m_ in qs.methods.values() if m_ in prims or any(g_ in prims for g_ in ctx.cg.closure([m_], include_deferred=False))}


@rule('C10.CONST', 'D', expect_min=8)
def const(ctx: Any) -> List[Ob]:
    """The numbers of the property at their use sites: refresh at 75 % of the TTL,
    rescue steps of 10 %, four start-up queries spaced by the square of the
    count sent (1, 4, 9 s) after a random 20-120 ms; rescue time == now +
    1000*ttl*pct and is dropped at or past expiry."""
    R = 'C10.CONST'
    prog = ctx.prog
    qs = prog.cls(QS)
    obs: List[Ob] = []
    bm = 'zeroconf._services.browser'
    obs.append(ob(R, ('src/zeroconf/const.py', '<module>'), '_EXPIRE_REFRESH_TIME_PERCENT', 'first refresh at 75 % of the TTL', prog.const('zeroconf.const', '_EXPIRE_REFRESH_TIME_PERCENT') == 75))
    obs.append(ob(R, ('src/zeroconf/_services/browser.py', '<module>'), 'RESCUE_RECORD_RETRY_TTL_PERCENTAGE', 'rescue queries every further 10 % of the TTL', prog.const(bm, 'RESCUE_RECORD_RETRY_TTL_PERCENTAGE') == 0.1))
    obs.append(ob(R, ('src/zeroconf/_services/browser.py', '<module>'), 'STARTUP_QUERIES', 'four start-up queries', prog.const(bm, 'STARTUP_QUERIES') == 4))
    obs.append(ob(R, ('src/zeroconf/_services/browser.py', '<module>'), '_FIRST_QUERY_DELAY_RANDOM_INTERVAL', 'first query after a random 20-120 ms', tuple(prog.const(bm, '_FIRST_QUERY_DELAY_RANDOM_INTERVAL')) == (20, 120)))
    rf = qs.methods['reschedule_ptr_first_refresh']
    # (read in the routine itself or in a helper of the scheduler it hands the record to)
    helpers = [g_ for g_ in ctx.cg.closure([rf], include_deferred=False) if g_.cls is qs and g_.name != '_schedule_ptr_refresh']
    calls = [c for g_ in sorted(set(helpers) | {rf}, key=lambda x: x.name) for c in walk_local_ordered(g_.node) if isinstance(c, ast.Call) and call_name(c) == 'get_expiration_time']
    vals = sorted({str(prog.try_fold(rf.module, c.args[0])[1]) for c in calls})
    obs.append(ob(R, rf, 'pointer.get_expiration_time(_EXPIRE_REFRESH_TIME_PERCENT) / (100)', 'refresh time is 75 % and expiry 100 % of the record lifetime', vals == ['100', '75'], str(vals)))
    # the schedule is planned from the received copy; the cached record the queries are about holds the same lifetime
    from .c05 import reset_ttl_obligations

    obs.extend(reset_ttl_obligations(ctx, R))
    # the interval constant reaches the scheduler
    base = prog.func('zeroconf._services.browser._ServiceBrowserBase.__init__')
    ctor = [c for c in walk_local_ordered(base.node) if isinstance(c, ast.Call) and call_name(c) == 'QueryScheduler']
    okc = len(ctor) == 1 and len(ctor[0].args) >= 7 and prog.try_fold(base.module, ctor[0].args[6]) == (True, (20, 120))
    obs.append(ob(R, base, ctor[0] if ctor else 'QueryScheduler(...)', 'the browser hands the 20-120 ms interval to its scheduler', okc))
    st = qs.methods['start']
    rnd = [c for c in walk_local_ordered(st.node) if isinstance(c, ast.Call) and call_name(c) == 'randint']
    obs.append(ob(R, st, rnd[0] if rnd else 'random.randint', 'the first delay is drawn from that interval', len(rnd) == 1 and any(isinstance(a, ast.Starred) and self_attr(a.value, st.params[0]) == '_first_random_delay_interval' for a in rnd[0].args)))
    # back-off exponent
    su = qs.methods['_process_startup_queries']
    me = su.params[0]
    later = [c for c in walk_local_ordered(su.node) if isinstance(c, ast.Call) and call_name(c) == 'call_later']
    good = False
    why = ''
    if len(later) == 1:
        try:
            p = lf.poly(prog, su.module, later[0].args[0], lambda x: 'S' if self_attr(x, me) == '_startup_queries_sent' else None)
            good = p == lf.parse_poly('S*S')
            why = lf.p_str(p)
        except lf.NotLinear as e:
            why = str(e)
    obs.append(ob(R, su, later[0] if later else 'call_later', 'start-up queries are spaced by the square of the number sent: 1, 4, 9 s', good, why))
    cfg = cfg_of(su.node)
    inc = [n for n in cfg.nodes if n.kind == 'stmt' and isinstance(n.ast, ast.AugAssign) and self_attr(n.ast.target, me) == '_startup_queries_sent']
    later_nodes = [n for n in cfg.nodes if any(c is later[0] for c in n.calls())] if later else []
    obs.append(ob(R, su, 'self._startup_queries_sent += 1', 'the counter is incremented before the delay is computed', bool(inc) and all(cfg.dominated_by_any(n, inc) for n in later_nodes)))
    step_ok = len(inc) == 1 and isinstance(inc[0].ast.op, ast.Add) and prog.try_fold(su.module, inc[0].ast.value) == (True, 1)
    sends_su = [n for n in cfg.nodes if any(call_name(c) == 'async_send_ready_queries' for c in n.calls())]
    once = len(sends_su) == 1 and not sends_su[0].in_loop and all(cfg.dominated_by_any(i_, sends_su) for i_ in inc)
    obs.append(ob(R, su, inc[0].ast if inc else 'self._startup_queries_sent += 1', 'each run of the start-up callback sends one query and counts it once (four runs make the four start-up queries)', step_ok and once))
    # every wake-up of the refresh processing is `now + the configured delay` (milliseconds, converted once): both places that arm it
    rp = qs.methods['_process_ready_types']
    for fn_ in (su, rp):
        fme = fn_.params[0]
        env_a: Dict[str, Any] = {}
        for s_ in walk_local_ordered(fn_.node):
            if isinstance(s_, ast.Assign) and isinstance(s_.targets[0], ast.Name):
                try:
                    env_a[s_.targets[0].id] = lf.poly(prog, fn_.module, s_.value, lambda x: ('NOW' if isinstance(x, ast.Call) and call_name(x) == 'current_time_millis' else ('DELAY' if self_attr(x, fme) == '_min_time_between_queries_millis' else ('RES' if self_attr(x, fme) == '_clock_resolution_millis' else None))), env_a)
                except lf.NotLinear:
                    pass
        for c in walk_local_ordered(fn_.node):
            if isinstance(c, ast.Call) and call_name(c) == 'call_at' and len(c.args) >= 2 and self_attr(c.args[1], fme) == '_process_ready_types':
                t_arg = c.args[0]
                inner = t_arg.args[0] if isinstance(t_arg, ast.Call) and call_name(t_arg) == 'millis_to_seconds' and t_arg.args else None
                ok_a, why_a = False, 'the deadline is not millis_to_seconds(<milliseconds>)'
                if inner is not None:
                    try:
                        p_ = lf.poly(prog, fn_.module, inner, lambda x: ('DELAY' if self_attr(x, fme) == '_min_time_between_queries_millis' else None), env_a)
                        ok_a = p_ == lf.parse_poly('NOW + DELAY')
                        why_a = lf.p_str(p_)
                    except lf.NotLinear as e:
                        why_a = str(e)
                obs.append(ob(R, fn_, c, 'the refresh processing is woken one configured delay from now', ok_a, why_a))
    # what is due: an entry is taken from the heap iff its time is not later than now + the clock resolution; the first entry
    # that is later ends the scan (the heap is ordered); a query is sent iff something was due
    rcfg = cfg_of(rp.node)
    rme = rp.params[0]
    atoms_base = {k: False for k in done_atoms(ctx, rp)}

    def eff_due(node: Any, evl: Any) -> List[Any]:
        out = ['POP' for c in fd.node_calls(node, evl) if call_name(c) == 'heappop']
        out += ['SEND' for c in fd.node_calls(node, evl) if call_name(c) == 'async_send_ready_queries']
        return out

    for delta, due in ((-5.0, True), (0.0, True), (1.0, True), (1.5, False), (5000.0, False)):
        atoms_d = dict(atoms_base)
        atoms_d.update({f'{rme}._query_heap': ['q'], '.cancelled': False, 'current_time_millis()': 100000.0, f'{rme}._clock_resolution_millis': 1.0, '.when_millis': 100000.0 + delta})
        oc_d, und_d = traces(ctx, rp, atoms_d, eff_due, loop_bound=1, for_iter=lambda n, e: False)
        got_d = {('POP' in t) for t in oc_d}
        obs.append(ob(R, rp, f'heap top {delta:+g} ms from now (clock resolution 1 ms)', f'the entry is {"taken from the heap" if due else "left on the heap"}', got_d == {due}, f'taken on the feasible paths: {sorted(got_d)}'))
    ready_names = {norm(c.args[2]) for c in walk_local_ordered(rp.node) if isinstance(c, ast.Call) and call_name(c) == 'async_send_ready_queries' and len(c.args) >= 3}
    send_nodes = [n for n in rcfg.nodes if any(call_name(c) == 'async_send_ready_queries' for c in n.calls())]
    gate_ok = bool(send_nodes) and bool(ready_names)
    for sn in send_nodes:
        tests_r = [t for t in rcfg.nodes if t.kind == 'test' and t.ast is not None and norm(t.ast) in ready_names]
        neg_r = [t for t in rcfg.nodes if t.kind == 'test' and isinstance(t.ast, ast.UnaryOp) and isinstance(t.ast.op, ast.Not) and norm(t.ast.operand) in ready_names]
        if not (any(rcfg.only_through_edge(t, True, sn) for t in tests_r) or any(rcfg.only_through_edge(t, False, sn) for t in neg_r)):
            gate_ok = False
    skip_send = rcfg.path_avoiding(rcfg.entry, lambda n: n is rcfg.exit, lambda n: n in send_nodes or any(n is t for t in rcfg.nodes if t.kind == 'test' and t.ast is not None and (norm(t.ast) in ready_names or (isinstance(t.ast, ast.UnaryOp) and norm(t.ast.operand) in ready_names)))) if send_nodes else [rcfg.entry]
    live_skip = skip_send is not None and not any(n.kind == 'return' and n.line and 'done' in ' '.join(norm(x) for x in [p_.ast for p_, _ in n.pred if p_.ast is not None]) for n in (skip_send or []))
    obs.append(ob(R, rp, send_nodes[0].ast if send_nodes else 'self.async_send_ready_queries(False, now_millis, ready_types)', 'a refresh query is sent exactly when some entry was due (the set of due types is not empty)', gate_ok, '' if gate_ok else 'the send is not guarded by the non-emptiness of the set of due types'))
    # switch to refresh processing after STARTUP_QUERIES
    tests = [n for n in cfg.nodes if n.kind == 'test' and 'STARTUP_QUERIES' in norm(n.ast)]
    ok_sw = False
    for t in tests:
        try:
            p, op = lf.comparison(prog, su.module, t.ast, lambda x: 'S' if self_attr(x, me) == '_startup_queries_sent' else None)
            # the switch (the timer armed for refresh processing at an absolute time) lies on the arm `sent >= 4`, whichever way
            # round the test is spelled
            at_nodes = [n for n in cfg.nodes if any(call_name(c) == 'call_at' for c in n.calls())]
            if lf.same_cmp((p, op), lf.parse_cmp('4 - S <= 0')):
                ok_sw = bool(at_nodes) and all(cfg.only_through_edge(t, True, a_) for a_ in at_nodes)
            elif lf.same_cmp((p, op), lf.parse_cmp('S - 4 < 0')):
                ok_sw = bool(at_nodes) and all(cfg.only_through_edge(t, False, a_) for a_ in at_nodes)
        except lf.NotLinear:
            pass
    obs.append(ob(R, su, tests[0].ast if tests else 'startup switch', 'after the fourth start-up query the scheduler switches to refresh processing', ok_sw))
    # rescue query time
    rq = qs.methods['schedule_rescue_query']
    me = rq.params[0]
    qn, nown, pct = rq.params[1], rq.params[2], rq.params[3]
    env: Dict[str, Any] = {}

    def sym(x: ast.AST) -> Optional[str]:
        t = norm(x)
        return {f'{qn}.ttl': 'TTL', nown: 'NOW', pct: 'PCT', f'{qn}.expire_time_millis': 'EXP', f'{qn}.when_millis': 'DUE'}.get(t)

    ok_t, why = False, ''
    try:
        for s_ in rq.node.body:
            if isinstance(s_, ast.Assign) and isinstance(s_.targets[0], ast.Name):
                try:
                    env[s_.targets[0].id] = lf.poly(prog, rq.module, s_.value, sym, env)
                except lf.NotLinear:
                    pass
        ctor = [c for c in walk_local_ordered(rq.node) if isinstance(c, ast.Call) and call_name(c) == '_ScheduledPTRQuery']
        when = lf.poly(prog, rq.module, ctor[0].args[4], sym, env)
        ok_t = when in (lf.parse_poly('NOW + 1000*TTL*PCT'), lf.parse_poly('DUE + 1000*TTL*PCT'))
        ok_due = when == lf.parse_poly('DUE + 1000*TTL*PCT')
        why = lf.p_str(when)
    except (lf.NotLinear, IndexError) as e:
        why = str(e)
        ok_due = False
    obs.append(ob(R, rq, 'rescue step size', 'a rescue query is scheduled a further pct of the TTL on (from the previous query)', ok_t, why))
    # `each at most the configured inter-query delay late`: the step is counted from the time the previous query was DUE.
    # Counted from the time it was SENT (up to one delay late) the lateness adds up: with a 60 s delay and the 1125 s floor the
    # 85 % query is 66.5 s late and the 95 % query falls beyond the expiry and is never sent (F28, known finding)
    obs.append(ob(R, rq, 'rescue step counted from the due time', 'the next rescue query is due pct of the TTL after the query it follows was due (lateness does not accumulate)', ok_due, why + ' -- counted from the time the previous query was sent'))
    rcfg = cfg_of(rq.node)
    ok_g = False
    for t in rcfg.nodes:
        if t.kind == 'test':
            try:
                p, op = lf.comparison(prog, rq.module, t.ast, sym, env)
                # the edge taken when the query would be due at or after the expiry: the true edge of `next >= expire`,
                # the false edge of its negation (`if next < expire: <schedule>`)
                bad = True if lf.same_cmp((p, op), lf.parse_cmp('EXP - NOW - 1000*TTL*PCT <= 0')) else \
                    False if lf.same_cmp((p, op), lf.parse_cmp('NOW + 1000*TTL*PCT - EXP < 0')) else None
                if bad is not None:
                    sched = [n for n in rcfg.nodes if any(call_name(c) in ('_ScheduledPTRQuery', 'heappush') for c in n.calls())]
                    ok_g = bool(sched) and all(not rcfg.can_reach(s, n) and s not in sched for s, lab in t.succ if lab is bad for n in sched)
            except lf.NotLinear:
                pass
    obs.append(ob(R, rq, 'if next_query_time >= query.expire_time_millis: return', 'no rescue query at or after the record\'s expiry', ok_g))
    return obs


EXPLANATION = (
    'C10.REARM (necessary condition): every path of each scheduler callback re-arms its timer while the instance is open, and the '
    'may-raise set of the callback is empty (shared with C15). C10.HEAPMIN (necessary): the armed wake-up must cover the heap '
    'minimum -- either pure polling at now + minimum delay, or a heap-derived time read after all pushes plus a re-arm at every '
    'outside push. C10.ALIASKEY (decided): the schedule map is keyed by a lower-cased target. C10.PAIR (decided): heap/map pairing '
    'on push, pop, cancel and reschedule. C10.CONST (decided): 75 %, 10 %, 4 start-up queries, 20-120 ms, S*S back-off, rescue time as '
    'a linear form. Not decided: lateness bounds and minimum spacing over all learn orders [X].'
)
EXPLANATION_ADDENDUM = (
    ' C10.PAIR also decides that the map entry of a query taken from the heap is removed before its rescue entry is stored, that every due query is asked for and rescued, and the two-sided churn window.'
)
EXPLANATION = EXPLANATION + EXPLANATION_ADDENDUM

RULES = [rearm, heapmin, aliaskey, pair, const]

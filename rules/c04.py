"""C04 -- browser callbacks alternate add/remove and always match the cache."""
from __future__ import annotations

import ast
from typing import Any, Dict, List, Optional, Set, Tuple

from sa import AnalysisError
from sa import fd
from sa.cf import cfg_of
from sa.fd import Sym
from sa.pm import FuncInfo, call_name, norm, self_attr, walk_local_ordered
from sa.report import Ob, rule

from .common import local_defs, ob, single_return_expr, strip_ret, traces

BASE = 'zeroconf._services.browser._ServiceBrowserBase'
ADDED, REMOVED, UPDATED = Sym('ServiceStateChange.Added'), Sym('ServiceStateChange.Removed'), Sym('ServiceStateChange.Updated')


def _delivery_sites(ctx: Any, f: FuncInfo) -> List[str]:
    """Sites through which f (transitively, direct edges) hands an event to user code:
    user-callback boundary calls and puts on a thread queue."""
    out = []
    for g in ctx.cg.closure([f], include_deferred=False):
        for s in ctx.cg.sites_in(g):
            if s.boundary or s.unresolved:
                out.append(f'{g.where()}:{s.line} `{norm(s.node.func)}`')
            elif any(e.endswith('Queue.put') or e.endswith('Queue.put_nowait') for e in s.ext):
                out.append(f'{g.where()}:{s.line} `{norm(s.node.func)}`')
    return out


@rule('C04.AFTERCACHE', 'D', expect_min=3)
def aftercache(ctx: Any) -> List[Ob]:
    """Browser callbacks are delivered only after the records of the triggering
    datagram are in the cache: the browser's async_update_records (called before
    the cache is updated) reaches no user callback and no event queue; delivery
    happens only from async_update_records_complete, which C06.ORDER places after
    both cache mutations."""
    R = 'C04.AFTERCACHE'
    prog = ctx.prog
    base = prog.cls(BASE)
    obs: List[Ob] = []
    for c in [base] + base.all_subclasses():
        f = c.methods.get('async_update_records')
        if f is not None:
            d = _delivery_sites(ctx, f)
            obs.append(ob(R, f, 'async_update_records (pre-cache phase)', 'delivers nothing to user code before the cache holds the datagram', not d, '; '.join(d[:4])))
        g = c.methods.get('async_update_records_complete')
        if g is not None:
            d = _delivery_sites(ctx, g)
            obs.append(ob(R, g, 'async_update_records_complete (post-cache phase)', 'this is where events are delivered (fire or queue put reachable)', bool(d)))
    # C06.ORDER dependency, re-checked here in its minimal form: COMPLETE after ADD/REMOVE on every path
    from .c06 import ingest_anatomy

    an = ingest_anatomy(ctx)
    f = an['f']
    cfg = cfg_of(f.node)
    comp_nodes = [n for n in cfg.nodes if any(c is x for x in an['complete'] for c in n.calls())]
    mut_nodes = [n for n in cfg.nodes if any(c is x for x in an['add'] + an['remove'] for c in n.calls())]
    late = [m for m in mut_nodes for c in comp_nodes if cfg.can_reach(c, m)]
    obs.append(ob(R, f, 'async_updates_complete(...)', 'no cache add/remove can follow the completion callback', not late, str([m.text() for m in late])))
    # the cache the events are measured against: for every combination of what a datagram produced, new records are added first
    # and withdrawn ones removed last (a record withdrawn AND announced in one datagram ends up as the event stream says), an
    # already cached record is refreshed in place -- the post-loop effect table and the refresh obligations of C06
    from .c06 import order as _order, sighting_obligations

    for o in _order.fn(ctx):
        if o.construct.startswith('collections non-empty'):
            o.rule = R
            obs.append(o)
    obs.extend(sighting_obligations(ctx, R))
    return obs


@rule('C04.PREVIOUS', 'N', expect_min=2)
def previous(ctx: Any) -> List[Ob]:
    """The browser classifies a pointer as new exactly when `previous` is None, so alternation needs
    `previous` to be the cached copy if and only if one existed -- including an expired, not yet purged
    copy (treating that as absent would produce a second Added without a Removed)."""
    from .c06 import previous_obligations

    return previous_obligations(ctx, 'C04.PREVIOUS')


@rule('C04.EXPIRY', 'N', expect_min=2)
def expiry(ctx: Any) -> List[Ob]:
    """Removal by expiry reaches every browser: the periodic purge reports the records it removed through the same
    notification routine as a response, which hands one collection to each listener in turn -- so what is passed must be
    re-iterable (a generator would be exhausted by the first listener and the other browsers would never report Removed)."""
    from .c05 import purge_report_obligations

    return purge_report_obligations(ctx, 'C04.EXPIRY')


@rule('C04.IDENTITY', 'D', expect_min=5)
def identity(ctx: Any) -> List[Ob]:
    """Added / Removed alternate per (type, instance) only if every copy of a pointer record finds its cached copy: equality
    and hash of DNSPointer (and of the entry fields it inherits) agree field by field, with the owner and the target
    lower-cased and the cache-flush bit masked out of the class.  The C20.CONGRUENCE obligations restricted to pointers."""
    from .c20 import congruence

    out = [o for o in congruence.fn(ctx) if 'DNSPointer' in str(o.function) or 'DNSEntry' in str(o.function) or 'DNSRecord.' in str(o.function)]
    for o in out:
        o.rule = 'C04.IDENTITY'
    return out


@rule('C04.PRECEDENCE', 'D', expect_min=12)
def precedence(ctx: Any) -> List[Ob]:
    """Decision table of the pending-event merge over (new event) x (pending
    event): Added beats Removed beats Updated -- (A,*)->A; (R,A)->A; (R,else)->R;
    (U,none)->U; (U,x)->x."""
    R = 'C04.PRECEDENCE'
    f = ctx.prog.func(BASE + '._enqueue_callback')
    p = f.params
    if len(p) < 4:
        raise AnalysisError(f'{f.where()}: signature changed')
    me, p_state, p_type, p_name = p[0], p[1], p[2], p[3]
    # the pending map = the self attribute that is subscript-stored
    stores = [n for n in walk_local_ordered(f.node) if isinstance(n, ast.Assign) and isinstance(n.targets[0], ast.Subscript) and self_attr(n.targets[0].value, me)]
    if not stores:
        raise AnalysisError(f'{f.where()}: no store into a pending map')
    attr = self_attr(stores[0].targets[0].value, me)
    obs: List[Ob] = []
    names = {ADDED: 'Added', REMOVED: 'Removed', UPDATED: 'Updated', None: 'none'}
    for new in (ADDED, REMOVED, UPDATED):
        for pend in (None, ADDED, REMOVED, UPDATED):
            # find how the function builds its key, to seed the map consistently
            keyexpr = stores[0].targets[0].slice
            atoms0: Dict[str, Any] = {p_state: new, p_type: 'T', p_name: 'N'}
            ev0 = fd.Evaluator(ctx.prog, f.module, atoms0)
            for st in f.node.body:
                if isinstance(st, ast.Assign):
                    ev0.assign(st)
            key = ev0.ev(keyexpr)
            if key is fd.UNKNOWN:
                raise AnalysisError(f'{f.where()}: pending-map key `{norm(keyexpr)}` is not a function of the parameters')
            m = {} if pend is None else {key: pend}
            atoms = dict(atoms0)
            atoms[f'{me}.{attr}'] = m

            def eff(node: Any, evl: Any) -> List[Any]:
                out = []
                if node.kind == 'stmt' and isinstance(node.ast, ast.Assign) and isinstance(node.ast.targets[0], ast.Subscript) and self_attr(node.ast.targets[0].value, me) == attr:
                    k = evl.ev(node.ast.targets[0].slice)
                    v = evl.ev(node.ast.value)
                    out.append(('SET', k, v))
                return out

            oc, und = traces(ctx, f, atoms, eff)
            results = set()
            for t in oc:
                sets = [x for x in t if isinstance(x, tuple) and x and x[0] == 'SET']
                if not sets:
                    results.add(pend)
                else:
                    k, v = sets[-1][1], sets[-1][2]
                    results.add(v if k == key else ('?', k, v))
            if new == ADDED:
                want = ADDED
            elif new == REMOVED:
                want = ADDED if pend == ADDED else REMOVED
            else:
                want = UPDATED if pend is None else pend
            obs.append(ob(R, f, f'new={names[new]} pending={names[pend]}', f'resulting pending event is {names[want]}', results == {want} and not und, f'got {results}; undecided tests {und}'))
    return obs


@rule('C04.CLASSIFY', 'D', expect_min=4)
def classify(ctx: Any) -> List[Ob]:
    """Decision table of the pointer arm of the browser's record handler over
    (a cached copy existed) x (the record is expired): new -> Added + schedule;
    known and expired -> Removed + cancel; known and live (a refresh) -> schedule
    only, no event."""
    R = 'C04.CLASSIFY'
    f = ctx.prog.func(BASE + '.async_update_records')
    cfg = cfg_of(f.node)
    obs: List[Ob] = []
    rec_loop = next((n for n in cfg.nodes if n.kind == 'for' and not n.in_loop), None)
    if rec_loop is None:
        raise AnalysisError('anchor vanished: record loop of the browser handler')
    OLD = Sym('cached-copy')

    def eff(node: Any, evl: Any) -> List[Any]:
        out = []
        for c in node.calls():
            nm = call_name(c)
            if nm == '_enqueue_callback':
                v = evl.ev(c.args[0]) if c.args else fd.UNKNOWN
                out.append(('ENQ', v.name.split('.')[-1] if isinstance(v, Sym) else str(v)))
            elif nm in ('reschedule_ptr_first_refresh', 'cancel_ptr_refresh'):
                out.append('RESCHED' if nm.startswith('resched') else 'CANCEL')
        return out

    def for_iter(node: Any, evl: Any) -> Any:
        return True  # every loop iterates (one matching browsed type, one record)

    cells = {
        (None, False): {('ENQ', 'Added'), 'RESCHED'},
        (None, True): {('ENQ', 'Added'), 'RESCHED'},
        (OLD, True): {('ENQ', 'Removed'), 'CANCEL'},
        (OLD, False): {'RESCHED'},
    }
    for (old, expired), want in cells.items():
        atoms = {'.old': old, '.is_expired()': expired, '.type': 12}
        oc, und = fd.run_paths(ctx.prog, f.module, cfg, atoms, eff, start=rec_loop, stop=lambda n: n is rec_loop, loop_bound=1, for_iter=for_iter)
        got = {frozenset(strip_ret(t)) for t in oc}
        obs.append(ob(R, f, f'pointer record: cached copy {"exists" if old else "absent"}, expired={expired}', f'effects are exactly {sorted(map(str, want))}', got == {frozenset(want)} and not und, f'got {[sorted(map(str, g)) for g in got]}; undecided {und}'))
    # non-pointer records never produce Added/Removed
    for typ in (1, 28, 16, 33):
        atoms = {'.old': None, '.is_expired()': False, '.type': typ}
        oc, und = fd.run_paths(ctx.prog, f.module, cfg, atoms, eff, start=rec_loop, stop=lambda n: n is rec_loop, loop_bound=1)
        kinds = {x[1] for t in oc for x in t if isinstance(x, tuple) and x[0] == 'ENQ'}
        obs.append(ob(R, f, f'record type {typ}', 'address/SRV/TXT records produce only Updated events', kinds <= {'Updated'}, f'got {kinds}'))
    return obs


@rule('C04.FLUSH', 'N', expect_min=2)
def flush(ctx: Any) -> List[Ob]:
    """Sibling agreement of the two delivery overrides (event-loop browser and
    threaded browser): each delivers every pending item exactly once and then
    clears the pending map, on every path."""
    R = 'C04.FLUSH'
    prog = ctx.prog
    base = prog.cls(BASE)
    obs: List[Ob] = []
    for c in [base] + base.all_subclasses():
        g = c.methods.get('async_update_records_complete')
        if g is None:
            continue
        me = g.params[0]

        def eff(node: Any, evl: Any) -> List[Any]:
            out = []
            if node.kind == 'for':
                it = node.ast.iter
                src = it.func.value if isinstance(it, ast.Call) and isinstance(it.func, ast.Attribute) and it.func.attr == 'items' else it
                if self_attr(src, me) == '_pending_handlers':
                    out.append('LOOP')
            for x in node.calls():
                nm = call_name(x)
                if nm in ('_fire_service_state_changed_event', 'put', 'put_nowait', 'fire'):
                    out.append('DELIVER')
                if nm == 'clear' and isinstance(x.func, ast.Attribute) and self_attr(x.func.value, me) == '_pending_handlers':
                    out.append('CLEAR')
            return out

        oc, _ = traces(ctx, g, {}, eff, loop_bound=1)
        got = {strip_ret(t) for t in oc}
        want = {('LOOP', 'CLEAR'), ('LOOP', 'DELIVER', 'LOOP', 'CLEAR')}
        obs.append(ob(R, g, 'for pending in self._pending_handlers.items(): deliver(pending); self._pending_handlers.clear()', 'every pending event is delivered once, then the map is cleared, on every path', got == want, f'got {sorted(got)}'))
    # the event dispatcher hands one event to every subscriber: it calls the subscribers over a snapshot of the handler list
    # (a subscriber that unregisters itself from inside its callback must not make the next one miss the event -- that
    # subscriber would later be told Removed for an instance it was never told was Added), calls each one, and never leaves early
    from .common import snapshot_iteration

    sig = prog.cls('zeroconf._services.Signal')
    fire = sig.methods.get('fire')
    if fire is None:
        raise AnalysisError('anchor vanished: Signal.fire')
    sme = fire.params[0]
    loops_ = [lp for lp in walk_local_ordered(fire.node) if isinstance(lp, ast.For) and any(self_attr(x, sme) == '_handlers' for x in ast.walk(lp.iter))]
    if not loops_:
        raise AnalysisError('anchor vanished: the loop over the subscribers in Signal.fire')
    for lp in loops_:
        obs.append(ob(R, fire, lp.iter, 'subscribers are called over a snapshot of the handler list', snapshot_iteration(lp.iter, sme, '_handlers')))
        calls_each = isinstance(lp.target, ast.Name) and len(lp.body) == 1 and isinstance(lp.body[0], ast.Expr) and isinstance(lp.body[0].value, ast.Call) and isinstance(lp.body[0].value.func, ast.Name) and lp.body[0].value.func.id == lp.target.id
        leaves = any(isinstance(x, (ast.Break, ast.Return, ast.Continue)) for x in ast.walk(lp))
        obs.append(ob(R, fire, lp, 'every subscriber of the snapshot is called with the event (no filter, no early exit)', (calls_each or _calls_target_on_every_path(ctx, fire, lp)) and not leaves))
    return obs


def _calls_target_on_every_path(ctx: Any, f: FuncInfo, lp: ast.For) -> bool:
    if not isinstance(lp.target, ast.Name):
        return False
    cfg = cfg_of(f.node)
    head = next(n for n in cfg.nodes if n.kind == 'for' and n.ast is lp)
    tv = lp.target.id

    def eff(node: Any, evl: Any) -> List[Any]:
        return ['CALL' for c in fd.node_calls(node, evl) if isinstance(c.func, ast.Name) and c.func.id == tv]

    oc, _ = fd.run_paths(ctx.prog, f.module, cfg, {}, eff, start=head, stop=lambda n: n is head, loop_bound=1, for_iter=lambda n, e: True)
    return {strip_ret(t).count('CALL') for t in oc} == {1}


@rule('C04.REPLAY', 'D', expect_min=12)
def replay(ctx: Any) -> List[Ob]:
    """A browser that starts after records were learned reports what the cache holds: the listener registration replays to the
    new listener exactly the cached records that have not expired and answer one of its questions (same class, same type or
    ANY, same name), as (record, None) pairs through the same two-phase contract (update, then complete), and says nothing
    when there is nothing to replay."""
    R = 'C04.REPLAY'
    prog = ctx.prog
    obs: List[Ob] = []
    rm = prog.cls('zeroconf._handlers.record_manager.RecordManager')
    g = rm.methods.get('_async_update_matching_records')
    if g is None:
        raise AnalysisError('anchor vanished: RecordManager._async_update_matching_records')
    # (a) selection table of the replay
    comps = [c for c in ast.walk(g.node) if isinstance(c, (ast.ListComp, ast.GeneratorExp, ast.SetComp))]
    loops = [n for n in ast.walk(g.node) if isinstance(n, ast.For)]
    for expired in (True, False):
        for answers in (True, False):
            atoms = {'.is_expired()': expired, '.answered_by()': answers}
            took = set()
            und: List[str] = []
            for c in comps:
                evl = fd.Evaluator(prog, g.module, atoms)
                ok: Any = True
                for gen in c.generators:
                    for cond in gen.ifs:
                        v = evl.ev(cond)
                        if v is fd.UNKNOWN:
                            und.append(norm(cond))
                            ok = None
                        elif not evl._truth(v) and ok is not None:
                            ok = False
                took.add(bool(ok))
            if not comps and loops:
                def eff_t(node: Any, evl: Any) -> List[Any]:
                    return ['TAKE' for c_ in fd.node_calls(node, evl) if call_name(c_) in ('append', 'add')]

                oc, und2 = traces(ctx, g, atoms, eff_t, loop_bound=1, for_iter=lambda n, e: True)
                took = {('TAKE' in t) for t in oc}
                und += [u for u in und2 if 'records' not in u]
            want = (not expired) and answers
            obs.append(ob(R, g, f'cached record: {"expired" if expired else "live"}, {"answers" if answers else "does not answer"} the question', f'it is {"replayed" if want else "not replayed"} to the new listener', took == {want} and not und, f'replayed on {sorted(took)}; undecided {und}'))
    # (b) what answers a question
    ab = prog.func('zeroconf._dns.DNSQuestion.answered_by')
    rec = ab.params[1]
    anyt = prog.const('zeroconf.const', '_TYPE_ANY')
    e = single_return_expr(ab)
    for same_c in (True, False):
        for qtype, rtype in ((12, 12), (12, 33), (anyt, 33)):
            for same_n in (True, False):
                atoms = {f'{ab.params[0]}.class_': 1, f'{rec}.class_': 1 if same_c else 255, f'{ab.params[0]}.type': qtype, f'{rec}.type': rtype,
                         f'{ab.params[0]}.name': 'n.local.', f'{rec}.name': 'n.local.' if same_n else 'm.local.', f'{ab.params[0]}.key': 'n.local.', f'{rec}.key': 'n.local.' if same_n else 'm.local.'}
                v = fd.Evaluator(prog, ab.module, atoms).ev(e)
                want = same_c and (qtype == rtype or qtype == anyt) and same_n
                obs.append(ob(R, ab, f'question type {qtype} / record type {rtype}, class {"equal" if same_c else "different"}, name {"equal" if same_n else "different"}', f'answered_by is {want}', v is not fd.UNKNOWN and bool(v) == want, f'evaluates to {v!r}'))
    # (c) the two-phase contract of the replay
    def eff_p(node: Any, evl: Any) -> List[Any]:
        out = []
        for c_ in fd.node_calls(node, evl):
            if call_name(c_) == 'async_update_records':
                out.append('UPDATE')
            elif call_name(c_) == 'async_update_records_complete':
                out.append('COMPLETE')
        return out

    rec_local = [n_ for n_, vs in local_defs(g).items() if any(isinstance(v, (ast.ListComp, ast.List)) for v in vs if v is not None)]
    for some in (True, False):
        atoms = {n_: (['pair'] if some else []) for n_ in rec_local}
        oc, _ = traces(ctx, g, atoms, eff_p, loop_bound=1, for_iter=lambda n, e: False)
        got = {tuple(x for x in strip_ret(t) if x in ('UPDATE', 'COMPLETE')) for t in oc}
        want_p = {('UPDATE', 'COMPLETE')} if some else {()}
        obs.append(ob(R, g, f'{"some" if some else "no"} cached records answer the questions', 'the new listener gets one update call followed by one completion call' if some else 'the new listener is not called', got == want_p and bool(rec_local), f'calls on the paths: {sorted(got)}'))
    pairs = [c for c in ast.walk(g.node) if isinstance(c, ast.Call) and call_name(c) == 'RecordUpdate']
    obs.append(ob(R, g, pairs[0] if pairs else 'RecordUpdate(record, None)', 'a replayed record is reported as new (no previous copy)', len(pairs) == 1 and len(pairs[0].args) == 2 and norm(pairs[0].args[1]) == 'None'))
    # (d) registering with a question replays; the browser registers with one PTR question per type
    al = rm.methods['async_add_listener']
    p_q = al.params[2]

    def eff_a(node: Any, evl: Any) -> List[Any]:
        out = ['ADD' for c_ in fd.node_calls(node, evl) if call_name(c_) == 'add' and isinstance(c_.func, ast.Attribute) and self_attr(c_.func.value, al.params[0]) == 'listeners']
        out += ['REPLAY' for c_ in fd.node_calls(node, evl) if call_name(c_) == '_async_update_matching_records']
        return out

    for q in (True, False):
        oc, _ = traces(ctx, al, {p_q: fd.Sym('question') if q else None, 'isinstance()': True}, eff_a)
        got = {tuple(x for x in strip_ret(t) if x in ('ADD', 'REPLAY')) for t in oc}
        obs.append(ob(R, al, f'listener added {"with" if q else "without"} a question', 'the listener is registered' + (' and the cache is replayed to it' if q else ' (no replay)'), got == ({('ADD', 'REPLAY')} if q else {('ADD',)}), f'effects: {sorted(got)}'))
    return obs


EXPLANATION = (
    'C04.AFTERCACHE (decided): call-graph reachability -- the pre-cache handler of every browser class reaches no user callback '
    'or event queue; delivery happens only in the post-cache handler, and no cache mutation can follow the completion call. '
    'C04.PREVIOUS (necessary): the `previous` handed to listeners is the single cache lookup result, never rewritten. C04.PRECEDENCE / C04.CLASSIFY (decided): finite-domain decision tables of the pending-event merge (12 cells) and of the pointer '
    'arm of the record handler (4 cells + 4 non-pointer types) against the oracle in the property text. C04.FLUSH (necessary '
    'condition): both delivery overrides deliver each pending item once and clear the map. Not decided: alternation and equality '
    'with the cache over all histories [X].'
)
EXPLANATION_ADDENDUM = (
    ' C04.EXPIRY (necessary): the purge report reaches every listener (what is handed to the per-listener loop is re-iterable). C04.PREVIOUS also requires one (new, previous) pair per datagram record (a list, not a store keyed by record identity).'
)
EXPLANATION_ADDENDUM += ' C04.REPLAY (decided): a listener registered with questions is replayed exactly the live cached records that answer them, through the two-phase contract.'
EXPLANATION = EXPLANATION + EXPLANATION_ADDENDUM

RULES = [aftercache, previous, expiry, identity, precedence, classify, flush, replay]

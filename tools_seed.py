#!/venv/bin/python
"""Confirm a seeded change delivered by an independent sub-agent and record it under /verif/seeded/.

usage: tools_seed.py confirm <Cxx> <k> [--src /tmp/wt-Cxx] [--skip-suite]
       tools_seed.py recheck            (re-run the checks against every kept change, update meta.json)

A change is kept only after this script has itself seen: the demo pass on the clean tree, the patch apply
and compile, the demo fail with the patch, and the full existing suite pass with the patch.  The checks are
then run against the patched scratch worktree and the verdict is recorded.
"""
from __future__ import annotations

import argparse
import json
import os
import re
import shutil
import subprocess
import sys
import time

VERIF = os.path.dirname(os.path.abspath(__file__))
SEEDED = os.path.join(VERIF, 'seeded')
PY = '/venv/bin/python'
PROPS = ['C%02d' % i for i in range(1, 21) if i != 7]


def sh(cmd: str, cwd: str | None = None, timeout: int = 1800, env: dict | None = None) -> tuple[int, str]:
    p = subprocess.run(cmd, shell=True, cwd=cwd, capture_output=True, text=True, timeout=timeout, env=env)
    return p.returncode, p.stdout + p.stderr


def run_suite(wt: str) -> tuple[bool, str]:
    ns = "unshare -n sh -c 'ip link set lo up; ip link set lo multicast on; ip route add 224.0.0.0/4 dev lo; cd %s && %s -m pytest -q -p no:cacheprovider --timeout=900 -q 2>&1 | tail -15'" % (wt, PY)
    rc, out = sh(ns, timeout=3000)
    m = re.search(r'(\d+) passed', out)
    failed = re.findall(r'^(?:FAILED|ERROR) (\S+)', out, re.M)
    if m and not failed and 'failed' not in out.split('passed')[0][-40:]:
        return int(m.group(1)) >= 295, out[-600:]
    # re-run the failing tests in the default namespace (IPv6 / interface dependent tests)
    if failed:
        ok_all = True
        for t in sorted(set(failed)):
            rc2, out2 = sh(f'{PY} -m pytest -q -p no:cacheprovider -q "{t}" 2>&1 | tail -3', cwd=wt, timeout=900)
            if ' passed' not in out2 or 'failed' in out2:
                ok_all = False
                out += f'\n[rerun {t}] ' + out2[-300:]
        n = int(m.group(1)) if m else 0
        return ok_all and n + len(set(failed)) >= 295, out[-900:]
    return False, out[-900:]


def run_checks(wt: str) -> dict:
    env = dict(os.environ)
    ev = os.path.join(wt, '.verif-evidence')
    env['VERIF_EVIDENCE_DIR'] = ev
    fired: dict = {}
    errors: dict = {}
    for p in PROPS:
        rc, out = sh(f'{VERIF}/check {p} --tier quick --repo {wt}', cwd=VERIF, env=env, timeout=900)
        rules = sorted(set(re.findall(r'^\s+\[(C\d+\.[A-Z]+)\]', out, re.M)))
        if rc == 1 and rules:
            fired[p] = {'rules': rules, 'lines': [l.strip()[:400] for l in out.splitlines() if l.lstrip().startswith('[C')][:6]}
        elif rc == 2:
            errors[p] = [l[:300] for l in out.splitlines() if l.startswith('ANALYSIS-ERROR')][:3]
    shutil.rmtree(ev, ignore_errors=True)
    return {'fired': fired, 'analysis_errors': errors}


def confirm(pid: str, k: str, src: str, skip_suite: bool, as_k: str | None = None) -> int:
    patch = os.path.join(src, f'change{k}.diff')
    demo = os.path.join(src, f'demo{k}.py')
    if not (os.path.exists(patch) and os.path.exists(demo)):
        print(f'missing {patch} or {demo}')
        return 2
    wt = f'/tmp/confirm-{pid}-{as_k or k}'
    sh(f'git -C /repo worktree remove --force {wt}')
    rc, out = sh(f'git -C /repo worktree add -q --detach {wt} HEAD')
    if rc:
        print(out)
        return 2
    meta: dict = {'property': pid, 'change': as_k or k, 'confirmed_at': time.strftime('%Y-%m-%dT%H:%M:%SZ', time.gmtime()), 'repo_head': sh('git -C /repo rev-parse --short HEAD')[1].strip()}
    try:
        shutil.copy(demo, os.path.join(wt, 'demo.py'))
        env = dict(os.environ, PYTHONPATH=os.path.join(wt, 'src'))
        rc0, out0 = sh(f'{PY} demo.py', cwd=wt, env=env, timeout=300)
        meta['demo_on_clean_tree'] = {'exit': rc0, 'tail': out0[-300:]}
        rc, out = sh(f'git apply --whitespace=nowarn {patch}', cwd=wt)
        if rc:
            print('patch does not apply:', out)
            return 2
        rc, out = sh(f'{PY} -m compileall -q src/zeroconf', cwd=wt)
        meta['compiles'] = rc == 0
        rc1, out1 = sh(f'{PY} demo.py', cwd=wt, env=env, timeout=300)
        meta['demo_with_change'] = {'exit': rc1, 'tail': out1[-400:]}
        meta['files_changed'] = sh('git diff --stat | tail -5', cwd=wt)[1].strip().splitlines()
        if skip_suite:
            meta['suite_with_change'] = {'skipped': True}
            suite_ok = True
        else:
            suite_ok, tail = run_suite(wt)
            meta['suite_with_change'] = {'passed_all': suite_ok, 'tail': tail[-500:]}
        meta['checks'] = run_checks(wt)
        ok = rc0 == 0 and rc1 != 0 and meta['compiles'] and suite_ok
        meta['kept'] = ok
        print(json.dumps({k_: meta[k_] for k_ in ('demo_on_clean_tree', 'demo_with_change', 'compiles', 'kept')}, indent=1)[:900])
        print('suite:', meta['suite_with_change'].get('passed_all'), '| fired:', {p: v['rules'] for p, v in meta['checks']['fired'].items()}, '| errors:', list(meta['checks']['analysis_errors']))
        if ok:
            d = os.path.join(SEEDED, f'{pid}-{as_k or k}')
            os.makedirs(d, exist_ok=True)
            shutil.copy(patch, os.path.join(d, 'patch.diff'))
            shutil.copy(demo, os.path.join(d, 'demo.py'))
            old = {}
            if os.path.exists(os.path.join(d, 'meta.json')):
                old = json.load(open(os.path.join(d, 'meta.json')))
            old.update(meta)
            json.dump(old, open(os.path.join(d, 'meta.json'), 'w'), indent=1)
        return 0 if ok else 1
    finally:
        sh(f'git -C /repo worktree remove --force {wt}')
        shutil.rmtree(wt, ignore_errors=True)


def _recheck_one(name: str) -> str:
    d = os.path.join(SEEDED, name)
    wt = f'/tmp/recheck-{name}'
    sh(f'git -C /repo worktree remove --force {wt}')
    sh(f'git -C /repo worktree add -q --detach {wt} HEAD')
    try:
        rc, out = sh(f'git apply --whitespace=nowarn {d}/patch.diff', cwd=wt)
        meta = json.load(open(os.path.join(d, 'meta.json')))
        if rc:
            meta['checks'] = {'patch_no_longer_applies': out[-200:]}
        else:
            meta['checks'] = run_checks(wt)
        meta['rechecked_at'] = time.strftime('%Y-%m-%dT%H:%M:%SZ', time.gmtime())
        json.dump(meta, open(os.path.join(d, 'meta.json'), 'w'), indent=1)
        own = meta['property']
        f = meta['checks'].get('fired', {})
        return f"{name}: own property {'CAUGHT ' + ','.join(f[own]['rules']) if own in f else 'missed'}; others {[p for p in f if p != own]}; errors {list(meta['checks'].get('analysis_errors', {}))}"
    finally:
        sh(f'git -C /repo worktree remove --force {wt}')
        shutil.rmtree(wt, ignore_errors=True)


def recheck(only: str | None = None) -> int:
    from concurrent.futures import ThreadPoolExecutor

    names = [n for n in sorted(os.listdir(SEEDED)) if os.path.exists(os.path.join(SEEDED, n, 'patch.diff')) and (not only or n.startswith(only))]
    # worktree add/remove is serialised by git's own lock; the checks dominate the time
    with ThreadPoolExecutor(max_workers=6) as ex:
        for line in ex.map(_recheck_one, names):
            print(line, flush=True)
    return 0


def table() -> int:
    """Markdown table of the kept changes: what, what it needs, first-pass verdict, which rules catch it now."""
    print('| id | change | needs to manifest | first pass | caught now by (own property) | also fires |')
    print('|----|----|----|----|----|----|')
    for name in sorted(os.listdir(SEEDED)):
        mf = os.path.join(SEEDED, name, 'meta.json')
        if not os.path.exists(mf):
            continue
        m = json.load(open(mf))
        own = m['property']
        f = m.get('checks', {}).get('fired', {})
        fp = m.get('first_pass', {})
        print(f"| {name} | {m.get('what_the_change_does', '')} | {m.get('needs_to_manifest', '')} | {fp.get('verdict', '?')} | {', '.join(f.get(own, {}).get('rules', [])) or 'MISSED'} | {', '.join(sorted(p for p in f if p != own)) or '-'} |")
    return 0


if __name__ == '__main__':
    ap = argparse.ArgumentParser()
    ap.add_argument('cmd', choices=['confirm', 'recheck', 'table'])
    ap.add_argument('pid', nargs='?')
    ap.add_argument('k', nargs='?')
    ap.add_argument('--src')
    ap.add_argument('--skip-suite', action='store_true')
    ap.add_argument('--as', dest='as_k', help='store under seeded/<Cxx>-<AS> (round 2 and later)')
    a = ap.parse_args()
    if a.cmd == 'table':
        if a.pid == 'write':  # tools_seed.py table write: refresh the generated table inside DESIGN.md
            import contextlib
            import io

            buf = io.StringIO()
            with contextlib.redirect_stdout(buf):
                table()
            dp = os.path.join(VERIF, 'DESIGN.md')
            d = open(dp).read()
            b, e = '<!-- seeded-table:begin (generated by tools_seed.py table) -->\n', '<!-- seeded-table:end -->'
            i, j = d.index(b) + len(b), d.index(e)
            open(dp, 'w').write(d[:i] + buf.getvalue() + d[j:])
            sys.exit(0)
        sys.exit(table())
    if a.cmd == 'recheck':
        sys.exit(recheck(a.pid))
    sys.exit(confirm(a.pid, a.k, a.src or f'/tmp/wt-{a.pid}', a.skip_suite, a.as_k))

"""Obligation / finding records, evidence writer, known-findings matcher, exit codes."""
from __future__ import annotations

import hashlib
import json
import os
import re
import time
from typing import Any, Callable, Dict, List, Optional

from . import AnalysisError

VERIF = os.path.dirname(os.path.dirname(os.path.abspath(__file__)))


def evidence_dir() -> str:
    return os.environ.get('VERIF_EVIDENCE_DIR') or os.path.join(VERIF, 'evidence')

ASSUMPTIONS = [
    'A1 CPython semantics of builtin types (hash/eq congruence of str, bytes, int, tuple; dict keeps the first key object on overwrite; left-to-right evaluation)',
    'A2 MemoryError, KeyboardInterrupt and interpreter faults are out of scope',
    'A3 logging calls do not raise',
    'A4 strings are well-formed Unicode (str.encode("utf-8") does not raise)',
    'A5 user-supplied callbacks (service listeners, signal handlers, user subclasses of RecordUpdateListener) are a boundary',
    'A6 the asyncio event loop runs protocol methods and timer callbacks one at a time',
    'A7 nobody monkey-patches the analysed classes at run time',
    'A8 after transport.close() asyncio delivers no further datagram_received (C17 only)',
    'the pure-Python modules under src/zeroconf are what is imported (checked: no compiled extension shadows them)',
]


class Ob:
    """One proof obligation produced by a rule."""

    __slots__ = ('rule', 'file', 'function', 'construct', 'statement', 'ok', 'why', 'path', 'line')

    def __init__(
        self,
        rule: str,
        file: str,
        function: str,
        construct: str,
        statement: str,
        ok: bool,
        why: str = '',
        path: Optional[List[str]] = None,
        line: Optional[int] = None,
    ) -> None:
        self.rule = rule
        self.file = file
        self.function = function
        self.construct = re.sub(r'\s+', ' ', construct).strip()
        self.statement = statement
        self.ok = ok
        self.why = why
        self.path = path
        self.line = line

    def key(self) -> Dict[str, str]:
        return {'rule': self.rule, 'file': self.file, 'function': self.function, 'construct': self.construct}

    def to_json(self) -> Dict[str, Any]:
        d: Dict[str, Any] = {
            'rule': self.rule,
            'construct': {'file': self.file, 'function': self.function, 'text': self.construct},
            'statement': self.statement,
            'status': 'discharged' if self.ok else 'violated',
        }
        if self.line:
            d['construct']['line'] = self.line
        if self.why:
            d['why'] = self.why
        if self.path:
            d['path'] = self.path
        return d


class Rule:
    def __init__(self, rid: str, kind: str, fn: Callable[..., List[Ob]], expect_min: int, doc: str, tier: str) -> None:
        self.id = rid
        self.kind = kind  # 'D' decided structurally / 'N' necessary condition
        self.fn = fn
        self.expect_min = expect_min
        self.doc = doc
        self.tier = tier  # 'quick' -> always; 'thorough' -> only in thorough tier


def rule(rid: str, kind: str, expect_min: int = 1, tier: str = 'quick') -> Callable[[Callable[..., List[Ob]]], Rule]:
    def deco(fn: Callable[..., List[Ob]]) -> Rule:
        doc = re.sub(r'\s+', ' ', (fn.__doc__ or '').strip())
        return Rule(rid, kind, fn, expect_min, doc, tier)

    return deco


def load_known() -> List[Dict[str, Any]]:
    p = os.path.join(VERIF, 'known_findings.json')
    if not os.path.exists(p):
        return []
    with open(p, encoding='utf-8') as fh:
        data = json.load(fh)
    return data.get('findings', data) if isinstance(data, dict) else data


def _matches(entry: Dict[str, Any], ob: Ob) -> bool:
    if entry.get('status') != 'known':
        return False  # a `fixed` entry suppresses nothing
    k = ob.key()
    for f in ('rule', 'file', 'function'):
        if entry.get(f) != k[f]:
            return False
    want = re.sub(r'\s+', ' ', entry.get('construct', '')).strip()
    return want == k['construct']


class Report:
    def __init__(self, prop: str, tier: str, repo: str) -> None:
        self.prop = prop
        self.tier = tier
        self.repo = repo
        self.t0 = time.time()
        self.obs: List[Ob] = []
        self.rule_meta: List[Dict[str, Any]] = []
        self.extra: Dict[str, Any] = {}
        self.notes: List[str] = []

    def add_rule_result(self, r: Rule, obs: List[Ob], wall: float) -> None:
        # the instance floor guards against a rule that passes vacuously; a rule that already reports a violated obligation has
        # a verdict, however few instances it looked at
        if len(obs) < r.expect_min and not any(getattr(o, 'status', '') == 'violated' or getattr(o, 'ok', True) is False for o in obs):
            raise AnalysisError(
                f'{r.id}: only {len(obs)} rule instance(s) found, at least {r.expect_min} confirmed by hand on the '
                f'pinned tree -- the anchors this rule needs have vanished (a rule that matches nothing would pass vacuously)'
            )
        self.obs.extend(obs)
        self.rule_meta.append(
            {
                'rule': r.id,
                'kind': 'decided structurally' if r.kind == 'D' else 'necessary condition',
                'decides': r.doc,
                'instances': len(obs),
                'expected_min': r.expect_min,
                'violated': sum(1 for o in obs if not o.ok),
                'wall_s': round(wall, 3),
            }
        )

    def finish(self, explanation: str, prog_stats: Dict[str, Any]) -> int:
        known = load_known()
        violated = [o for o in self.obs if not o.ok]
        new: List[Ob] = []
        known_hits: List[Dict[str, Any]] = []
        for o in violated:
            hit = next((e for e in known if e.get('property') == self.prop and _matches(e, o)), None)
            if hit is not None:
                known_hits.append({'entry': hit, 'ob': o})
            else:
                new.append(o)
        lines: List[str] = []
        seen = set()
        for h in known_hits:
            what = h['entry'].get('what', h['ob'].statement)
            ln = f"KNOWN-FINDING: property={self.prop} {h['ob'].rule} {h['ob'].file}::{h['ob'].function}: {what}"
            if ln not in seen:
                seen.add(ln)
                lines.append(ln)
        vdir = os.path.join(evidence_dir(), 'violations')
        replay_paths: List[str] = []
        for o in new:
            os.makedirs(vdir, exist_ok=True)
            dg = hashlib.sha256(json.dumps(o.key(), sort_keys=True).encode()).hexdigest()[:10]
            p = os.path.join(vdir, f'{self.prop}-{o.rule.split(".", 1)[-1]}-{dg}.json')
            with open(p, 'w', encoding='utf-8') as fh:
                json.dump({'property': self.prop, 'repo': self.repo, **o.to_json()}, fh, indent=1)
            replay_paths.append(p)
            loc = f'{o.file}:{o.line}' if o.line else o.file
            lines.append(f'  [{o.rule}] {loc} {o.function}: `{o.construct}` -- {o.statement}' + (f' ({o.why})' if o.why else ''))
            if o.path:
                lines.append('      path: ' + ' -> '.join(o.path))
            lines.append(f'VIOLATION property={self.prop} replay={p}')
        wall = time.time() - self.t0
        n_ob = len(self.obs)
        samples = [o.to_json() for o in (violated[:10] + [o for o in self.obs if o.ok][:12])]
        ev = {
            'property_id': self.prop,
            'tier': self.tier,
            'seed': int(os.environ.get('VERIF_SEED', '0') or 0),
            'level': 'other',
            'coverage': {
                'explanation': explanation,
                'obligations': n_ob,
                'discharged': sum(1 for o in self.obs if o.ok),
                'rule_instances': self.rule_meta,
                'samples': samples,
                'analysed': prog_stats,
                'known_findings_matched': [h['entry'].get('what', '') for h in known_hits],
                'exhaustive': True,
                **self.extra,
            },
            'assumptions': ASSUMPTIONS,
            'wall_s': round(wall, 3),
            'violations': len(new),
        }
        if self.notes:
            ev['coverage']['notes'] = self.notes
        os.makedirs(evidence_dir(), exist_ok=True)
        with open(os.path.join(evidence_dir(), f'{self.prop}.json'), 'w', encoding='utf-8') as fh:
            json.dump(ev, fh, indent=1, default=str)
        for m in self.rule_meta:
            print(f"  {m['rule']:<18} {m['kind']:<22} instances={m['instances']:<4} violated={m['violated']}")
        for ln in lines:
            print(ln)
        status = 'VIOLATED' if new else 'held'
        print(
            f'{self.prop} [{self.tier}] {status}: {n_ob} obligations, {n_ob - len(violated)} discharged, '
            f'{len(known_hits)} known finding(s), {len(new)} new violation(s); {wall:.2f}s'
        )
        return 1 if new else 0

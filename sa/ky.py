"""KY -- key-normalisation dataflow: is an expression used as a dictionary key
provably lower-cased?  Provenance: result of `.lower()`; an attribute every
definition of which is lowered (`key`, `alias_key`, `server_key`); a local all of
whose assignments are lowered; a parameter lowered at every resolved call site."""
from __future__ import annotations

import ast
from typing import Any, Dict, List, Optional, Set, Tuple

from .pm import FuncInfo, Program, norm, walk_local_ordered


class Lowered:
    def __init__(self, ctx: Any) -> None:
        self.ctx = ctx
        self.prog: Program = ctx.prog
        self._attr_cache: Dict[str, Tuple[bool, str]] = {}
        self._stack: Set[Tuple[str, str]] = set()

    # ------------------------------------------------------------ attributes
    def _recv_family(self, f: FuncInfo, recv: ast.AST) -> Set[str]:
        """Classes (with their library ancestors and descendants) the receiver may be."""
        names: List[str] = []
        if isinstance(recv, ast.Name) and f.cls is not None and f.params and recv.id == f.params[0]:
            names = [f.cls.full]
        else:
            td = self.ctx.ty.type_of(f.module.name, recv)
            names = self.ctx.ty.inst_names(td)
        fam: Set[str] = set()
        for n in names:
            ci = self.prog.classes.get(n)
            if ci is None:
                fam.add(n)
                continue
            fam.update(c.full for c in ci.mro())
            fam.update(c.full for c in ci.all_subclasses())
        return fam

    def attr_lowered(self, attr: str, fam: Optional[Set[str]] = None) -> Tuple[bool, str]:
        """Every store `<x>.attr = v` (x of a class in `fam`, if given) stores a lowered value (or None)."""
        ck = attr + '|' + ','.join(sorted(fam or []))
        if ck in self._attr_cache:
            return self._attr_cache[ck]
        self._attr_cache[ck] = (True, 'assumed during recursion')
        n = 0
        res = (True, '')
        for f in self.prog.functions.values():
            for st in walk_local_ordered(f.node):
                tgts: List[ast.AST] = []
                if isinstance(st, ast.Assign):
                    tgts = list(st.targets)
                elif isinstance(st, ast.AnnAssign) and st.value is not None:
                    tgts = [st.target]
                for t in tgts:
                    if isinstance(t, ast.Attribute) and t.attr == attr:
                        if fam:
                            sf = self._recv_family(f, t.value)
                            if sf and not (sf & fam):
                                continue
                        n += 1
                        ok, why = self.is_lowered(f, st.value)  # type: ignore[union-attr]
                        if not ok:
                            res = (False, f'{f.where()}: `{norm(st)}` stores a value not known to be lower-cased ({why})')
        if n == 0:
            res = (False, f'no definition of attribute `{attr}` found')
        self._attr_cache[ck] = res
        return res

    # ----------------------------------------------------------- expressions
    def is_lowered(self, f: FuncInfo, e: ast.AST, depth: int = 0) -> Tuple[bool, str]:
        if depth > 8:
            return False, 'provenance chain too deep'
        if isinstance(e, ast.Constant):
            if e.value is None:
                return True, 'None'
            if isinstance(e.value, str):
                return (e.value == e.value.lower()), 'string literal'
            return False, 'non-string constant'
        if isinstance(e, ast.Call) and isinstance(e.func, ast.Attribute) and e.func.attr == 'lower' and not e.args:
            return True, '.lower()'
        if isinstance(e, ast.IfExp):
            a = self.is_lowered(f, e.body, depth + 1)
            b = self.is_lowered(f, e.orelse, depth + 1)
            return (a[0] and b[0]), (a[1] if not a[0] else b[1])
        if isinstance(e, ast.Attribute):
            ok, why = self.attr_lowered(e.attr, self._recv_family(f, e.value) or None)
            return ok, (f'attribute `{e.attr}` is a lower-cased twin' if ok else why)
        if isinstance(e, ast.Name):
            okc, v = self.prog.try_fold(f.module, e)
            if okc and isinstance(v, str) and e.id not in f.params:
                return (v == v.lower()), 'module constant'
            # local assignments
            assigns = []
            for st in walk_local_ordered(f.node):
                if isinstance(st, ast.Assign) and any(isinstance(t, ast.Name) and t.id == e.id for t in st.targets):
                    assigns.append(st.value)
                elif isinstance(st, ast.AnnAssign) and isinstance(st.target, ast.Name) and st.target.id == e.id and st.value is not None:
                    assigns.append(st.value)
                elif isinstance(st, (ast.For, ast.comprehension)) and any(isinstance(t, ast.Name) and t.id == e.id for t in ast.walk(st.target)):
                    assigns.append(None)
            if e.id in f.params:
                if assigns:
                    return False, f'parameter `{e.id}` is also reassigned'
                return self.param_lowered(f, e.id, depth + 1)
            if not assigns:
                return False, f'`{e.id}` has no visible definition'
            for v in assigns:
                if v is None:
                    return False, f'`{e.id}` is a loop variable'
                ok, why = self.is_lowered(f, v, depth + 1)
                if not ok:
                    return False, f'`{e.id} = {norm(v)}`: {why}'
            return True, f'local `{e.id}` is assigned only lower-cased values'
        return False, f'`{norm(e)}` is not a recognised lower-cased form'

    def param_lowered(self, f: FuncInfo, p: str, depth: int) -> Tuple[bool, str]:
        key = (f.full, p)
        if key in self._stack:
            return True, 'recursive'
        self._stack.add(key)
        try:
            sites = self.ctx.cg.callers_of(f)
            if not sites:
                return False, f'parameter `{p}` of {f.qual} has no call site inside the package (raw caller input)'
            params = f.params
            idx = params.index(p)
            skip_self = 1 if f.cls is not None and 'staticmethod' not in f.decorators else 0
            for s in sites:
                arg: Optional[ast.AST] = None
                pos = idx - skip_self
                if 0 <= pos < len(s.node.args):
                    arg = s.node.args[pos]
                for kw in s.node.keywords:
                    if kw.arg == p:
                        arg = kw.value
                if arg is None:
                    return False, f'call at {s.caller.where()}:{s.line} does not pass `{p}` positionally'
                ok, why = self.is_lowered(s.caller, arg, depth + 1)
                if not ok:
                    return False, f'{s.caller.where()}:{s.line} passes `{norm(arg)}`: {why}'
            return True, f'parameter `{p}` is lower-cased at all {len(sites)} call site(s)'
        finally:
            self._stack.discard(key)


def key_sites(f: FuncInfo, is_index: Any) -> List[Tuple[ast.AST, ast.AST, str]]:
    """(dict expression, key expression, how) for every keyed access in f to a
    dict expression accepted by `is_index`: d[k], d.get(k), d.setdefault(k), d.pop(k), k in d."""
    out: List[Tuple[ast.AST, ast.AST, str]] = []
    for n in walk_local_ordered(f.node):
        if isinstance(n, ast.Subscript) and is_index(n.value):
            out.append((n.value, n.slice, 'subscript'))
        elif isinstance(n, ast.Call) and isinstance(n.func, ast.Attribute) and n.func.attr in ('get', 'setdefault', 'pop') and n.args and is_index(n.func.value):
            out.append((n.func.value, n.args[0], n.func.attr))
        elif isinstance(n, ast.Compare) and len(n.ops) == 1 and isinstance(n.ops[0], (ast.In, ast.NotIn)) and is_index(n.comparators[0]):
            out.append((n.comparators[0], n.left, 'in'))
    return out
